// Fact extractor: reads /repo's Go sources with go/parser (syntax only) and regenerates
// lean/ICS/Generated/Facts.lean.  The Lean theorems in ICS/Props quantify over these tables, so
// they are re-checked against what the code says now.
package main

import (
	"bytes"
	"flag"
	"fmt"
	"go/ast"
	"go/parser"
	"go/printer"
	"go/token"
	"os"
	"path/filepath"
	"sort"
	"strconv"
	"strings"
)

var fset = token.NewFileSet()

func exprStr(e ast.Node) string {
	var b bytes.Buffer
	printer.Fprint(&b, fset, e)
	return strings.Join(strings.Fields(b.String()), " ")
}

func parseDir(dir string) []*ast.File {
	var out []*ast.File
	ents, err := os.ReadDir(dir)
	if err != nil {
		return nil
	}
	for _, e := range ents {
		n := e.Name()
		if e.IsDir() || !strings.HasSuffix(n, ".go") || strings.HasSuffix(n, "_test.go") || strings.HasSuffix(n, ".pb.go") || strings.HasSuffix(n, ".pb.gw.go") {
			continue
		}
		f, err := parser.ParseFile(fset, filepath.Join(dir, n), nil, parser.ParseComments)
		if err != nil {
			fmt.Fprintln(os.Stderr, "parse error:", err)
			os.Exit(1)
		}
		out = append(out, f)
	}
	return out
}

func leanStr(s string) string { return strconv.Quote(s) }

type kv struct {
	name string
	val  int
}

// string constants of a package: ident -> value
func stringConsts(files []*ast.File) map[string]string {
	m := map[string]string{}
	for _, f := range files {
		for _, d := range f.Decls {
			gd, ok := d.(*ast.GenDecl)
			if !ok || gd.Tok != token.CONST {
				continue
			}
			for _, sp := range gd.Specs {
				vs := sp.(*ast.ValueSpec)
				for i, n := range vs.Names {
					if i < len(vs.Values) {
						if bl, ok := vs.Values[i].(*ast.BasicLit); ok && bl.Kind == token.STRING {
							s, _ := strconv.Unquote(bl.Value)
							m[n.Name] = s
						}
					}
				}
			}
		}
	}
	return m
}

func intOf(e ast.Expr) (int, bool) {
	switch x := e.(type) {
	case *ast.BasicLit:
		v, err := strconv.ParseInt(x.Value, 0, 64)
		return int(v), err == nil
	case *ast.CallExpr: // byte(0xFF)
		if len(x.Args) == 1 {
			return intOf(x.Args[0])
		}
	}
	return 0, false
}

// the map literal returned by getKeyPrefixes()
func prefixTable(files []*ast.File, consts map[string]string) []kv {
	var out []kv
	for _, f := range files {
		for _, d := range f.Decls {
			fd, ok := d.(*ast.FuncDecl)
			if !ok || fd.Name.Name != "getKeyPrefixes" {
				continue
			}
			ast.Inspect(fd, func(n ast.Node) bool {
				cl, ok := n.(*ast.CompositeLit)
				if !ok {
					return true
				}
				for _, el := range cl.Elts {
					k := el.(*ast.KeyValueExpr)
					name := exprStr(k.Key)
					if id, ok := k.Key.(*ast.Ident); ok {
						if s, ok := consts[id.Name]; ok {
							name = s
						}
					}
					v, ok := intOf(k.Value)
					if !ok {
						v = -1
					}
					out = append(out, kv{name, v})
				}
				return false
			})
		}
	}
	return out
}

// functions of the form `func XPrefix() ... { return mustGetKeyPrefix(N) }` (or wrapped in []byte{}): name -> N
func prefixFuncs(files []*ast.File, consts map[string]string) map[string]string {
	m := map[string]string{}
	for _, f := range files {
		for _, d := range f.Decls {
			fd, ok := d.(*ast.FuncDecl)
			if !ok || fd.Recv != nil || fd.Body == nil || len(fd.Body.List) != 1 || fd.Type.Params.NumFields() != 0 {
				continue
			}
			rs, ok := fd.Body.List[0].(*ast.ReturnStmt)
			if !ok || len(rs.Results) != 1 {
				continue
			}
			e := exprStr(rs.Results[0])
			if i := strings.Index(e, "mustGetKeyPrefix("); i >= 0 {
				id := e[i+len("mustGetKeyPrefix("):]
				id = id[:strings.Index(id, ")")]
				if sname, ok := consts[id]; ok {
					m[fd.Name.Name] = sname
				}
			}
		}
	}
	return m
}

// shape of a key constructor: which helper builds it
func keyShapes(files []*ast.File, consts map[string]string) [][3]string {
	var out [][3]string
	pf := prefixFuncs(files, consts)
	for _, f := range files {
		if !strings.HasSuffix(fset.File(f.Pos()).Name(), "keys.go") {
			continue
		}
		for _, d := range f.Decls {
			fd, ok := d.(*ast.FuncDecl)
			if !ok || fd.Recv != nil || fd.Body == nil || fd.Type.Results == nil {
				continue
			}
			if exprStr(fd.Type.Results.List[0].Type) != "[]byte" || !strings.HasSuffix(fd.Name.Name, "Key") {
				continue
			}
			hasConsumerId := false
			for _, p := range fd.Type.Params.List {
				for _, n := range p.Names {
					if n.Name == "consumerId" {
						hasConsumerId = true
					}
				}
			}
			if !hasConsumerId {
				continue
			}
			shape, pref := "other", ""
			ast.Inspect(fd.Body, func(n ast.Node) bool {
				rs, ok := n.(*ast.ReturnStmt)
				if !ok || len(rs.Results) != 1 {
					return true
				}
				call, ok := rs.Results[0].(*ast.CallExpr)
				if !ok {
					return true
				}
				fn := exprStr(call.Fun)
				switch fn {
				case "StringIdWithLenKey", "StringIdAndConsAddrKey", "StringIdAndTsKey", "StringIdAndUintIdKey":
					shape = "len:" + fn
					pref = exprStr(call.Args[0])
				case "append":
					if len(call.Args) == 2 && exprStr(call.Args[1]) == "[]byte(consumerId)" && call.Ellipsis.IsValid() {
						shape = "legacy"
						pref = exprStr(call.Args[0])
					} else if inner, ok := call.Args[0].(*ast.CallExpr); ok && exprStr(inner.Fun) == "StringIdWithLenKey" &&
						len(inner.Args) == 2 && exprStr(inner.Args[1]) == "consumerId" {
						shape = "len:append"
						pref = exprStr(inner.Args[0])
					}
				case "ccvtypes.AppendMany":
					shape = "appendmany"
					pref = exprStr(call.Args[0])
				}
				return true
			})
			// resolve the prefix name inside mustGetKeyPrefix(XName)
			if i := strings.Index(pref, "mustGetKeyPrefix("); i >= 0 {
				id := pref[i+len("mustGetKeyPrefix("):]
				id = id[:strings.Index(id, ")")]
				if s, ok := consts[id]; ok {
					pref = s
				}
			}
			if strings.HasSuffix(pref, "()") {
				if n, ok := pf[strings.TrimSuffix(pref, "()")]; ok {
					pref = n
				}
			}
			out = append(out, [3]string{fd.Name.Name, shape, pref})
		}
	}
	sort.Slice(out, func(a, b int) bool { return out[a][0] < out[b][0] })
	return out
}

func relName(repo string, pos token.Pos) string {
	p, _ := filepath.Rel(repo, fset.File(pos).Name())
	return p
}

// iterator construction sites: enclosing function + prefix expression
func iterSites(repo string, files []*ast.File) [][2]string {
	var out [][2]string
	for _, f := range files {
		for _, d := range f.Decls {
			fd, ok := d.(*ast.FuncDecl)
			if !ok || fd.Body == nil {
				continue
			}
			// local single-assignment resolution: ident -> defining expression
			defs := map[string]string{}
			ast.Inspect(fd.Body, func(n ast.Node) bool {
				if as, ok := n.(*ast.AssignStmt); ok && len(as.Lhs) == 1 && len(as.Rhs) == 1 {
					if id, ok := as.Lhs[0].(*ast.Ident); ok {
						defs[id.Name] = exprStr(as.Rhs[0])
					}
				}
				return true
			})
			resolve := func(e ast.Expr) string {
				if id, ok := e.(*ast.Ident); ok {
					if d, ok := defs[id.Name]; ok {
						return d
					}
				}
				return exprStr(e)
			}
			ast.Inspect(fd.Body, func(n ast.Node) bool {
				call, ok := n.(*ast.CallExpr)
				if !ok {
					return true
				}
				fn := exprStr(call.Fun)
				if strings.HasSuffix(fn, "KVStorePrefixIterator") || strings.HasSuffix(fn, "KVStoreReversePrefixIterator") {
					out = append(out, [2]string{fd.Name.Name, resolve(call.Args[1])})
				} else if strings.HasSuffix(fn, ".Iterator") || strings.HasSuffix(fn, ".ReverseIterator") {
					args := []string{}
					for _, a := range call.Args {
						args = append(args, resolve(a))
					}
					out = append(out, [2]string{fd.Name.Name, "RANGE(" + strings.Join(args, ";") + ")"})
				}
				return true
			})
		}
	}
	sort.Slice(out, func(a, b int) bool {
		if out[a][0] != out[b][0] {
			return out[a][0] < out[b][0]
		}
		return out[a][1] < out[b][1]
	})
	return out
}

// nondeterminism candidates: range over a map, time.Now, go statements, math/rand, select
func detSites(repo string, files []*ast.File) [][3]string {
	var out [][3]string
	for _, f := range files {
		for _, d := range f.Decls {
			fd, ok := d.(*ast.FuncDecl)
			if !ok || fd.Body == nil {
				continue
			}
			// identifiers bound to maps inside this function (syntactic)
			maps := map[string]bool{}
			isMapExpr := func(e ast.Expr) bool {
				switch x := e.(type) {
				case *ast.CompositeLit:
					_, ok := x.Type.(*ast.MapType)
					return ok
				case *ast.CallExpr:
					if id, ok := x.Fun.(*ast.Ident); ok && id.Name == "make" && len(x.Args) > 0 {
						_, ok := x.Args[0].(*ast.MapType)
						return ok
					}
					if id, ok := x.Fun.(*ast.Ident); ok && id.Name == "getKeyPrefixes" {
						return true
					}
				}
				return false
			}
			for _, p := range fd.Type.Params.List {
				if _, ok := p.Type.(*ast.MapType); ok {
					for _, n := range p.Names {
						maps[n.Name] = true
					}
				}
			}
			ast.Inspect(fd.Body, func(n ast.Node) bool {
				switch x := n.(type) {
				case *ast.AssignStmt:
					for i, r := range x.Rhs {
						if isMapExpr(r) && i < len(x.Lhs) {
							if id, ok := x.Lhs[i].(*ast.Ident); ok {
								maps[id.Name] = true
							}
						}
					}
				case *ast.ValueSpec:
					if _, ok := x.Type.(*ast.MapType); ok {
						for _, n := range x.Names {
							maps[n.Name] = true
						}
					}
					for i, r := range x.Values {
						if isMapExpr(r) && i < len(x.Names) {
							maps[x.Names[i].Name] = true
						}
					}
				}
				return true
			})
			where := relName(repo, fd.Pos()) + ":" + fd.Name.Name
			ast.Inspect(fd.Body, func(n ast.Node) bool {
				switch x := n.(type) {
				case *ast.RangeStmt:
					if id, ok := x.X.(*ast.Ident); ok && maps[id.Name] {
						out = append(out, [3]string{"range-map", where, id.Name})
					} else if isMapExpr(x.X) {
						out = append(out, [3]string{"range-map", where, exprStr(x.X)})
					}
				case *ast.GoStmt:
					out = append(out, [3]string{"go", where, exprStr(x.Call.Fun)})
				case *ast.SelectStmt:
					out = append(out, [3]string{"select", where, ""})
				case *ast.CallExpr:
					fn := exprStr(x.Fun)
					if fn == "time.Now" || fn == "time.Since" || strings.HasPrefix(fn, "rand.") {
						out = append(out, [3]string{"call", where, fn})
					}
				}
				return true
			})
		}
	}
	sort.Slice(out, func(a, b int) bool { return out[a][0]+out[a][1]+out[a][2] < out[b][0]+out[b][1]+out[b][2] })
	return out
}

// the sequence of am.keeper.X(...) calls in a method of AppModule
func callOrder(files []*ast.File, method string) []string {
	var out []string
	for _, f := range files {
		for _, d := range f.Decls {
			fd, ok := d.(*ast.FuncDecl)
			if !ok || fd.Recv == nil || fd.Name.Name != method || fd.Body == nil {
				continue
			}
			if !strings.Contains(exprStr(fd.Recv.List[0].Type), "AppModule") {
				continue
			}
			ast.Inspect(fd.Body, func(n ast.Node) bool {
				if call, ok := n.(*ast.CallExpr); ok {
					fn := exprStr(call.Fun)
					if strings.HasPrefix(fn, "am.keeper.") && !strings.Contains(fn, "Logger") {
						out = append(out, strings.TrimPrefix(fn, "am.keeper."))
					}
				}
				return true
			})
		}
	}
	return out
}

// integer literal passed as last argument of ConsumeIdsFromTimeQueue, per enclosing function
func queueLimits(files []*ast.File) [][2]string {
	var out [][2]string
	for _, f := range files {
		for _, d := range f.Decls {
			fd, ok := d.(*ast.FuncDecl)
			if !ok || fd.Body == nil {
				continue
			}
			ast.Inspect(fd.Body, func(n ast.Node) bool {
				if call, ok := n.(*ast.CallExpr); ok && strings.HasSuffix(exprStr(call.Fun), "ConsumeIdsFromTimeQueue") && len(call.Args) > 0 {
					out = append(out, [2]string{fd.Name.Name, exprStr(call.Args[len(call.Args)-1])})
				}
				return true
			})
		}
	}
	sort.Slice(out, func(a, b int) bool { return out[a][0] < out[b][0] })
	return out
}

func main() {
	repo := flag.String("repo", "/repo", "")
	outp := flag.String("out", "", "")
	flag.Parse()
	ptypes := parseDir(filepath.Join(*repo, "x/ccv/provider/types"))
	pkeeper := parseDir(filepath.Join(*repo, "x/ccv/provider/keeper"))
	pmod := parseDir(filepath.Join(*repo, "x/ccv/provider"))
	ctypes := parseDir(filepath.Join(*repo, "x/ccv/consumer/types"))
	ckeeper := parseDir(filepath.Join(*repo, "x/ccv/consumer/keeper"))
	cmod := parseDir(filepath.Join(*repo, "x/ccv/consumer"))
	ccvtypes := parseDir(filepath.Join(*repo, "x/ccv/types"))
	consts := stringConsts(ptypes)
	cconsts := stringConsts(ctypes)

	var b strings.Builder
	b.WriteString("/- GENERATED by /verif/extract from /repo's current source — do not edit -/\nnamespace ICS.Generated\n\n")
	wPairs := func(name string, t []kv) {
		b.WriteString("def " + name + " : List (String × Nat) := [\n")
		for i, e := range t {
			sep := ","
			if i == len(t)-1 {
				sep = ""
			}
			v := e.val
			if v < 0 {
				v = 99999
			}
			fmt.Fprintf(&b, "  (%s, %d)%s\n", leanStr(e.name), v, sep)
		}
		b.WriteString("]\n\n")
	}
	wPairs("providerPrefixes", prefixTable(ptypes, consts))
	wPairs("consumerPrefixes", prefixTable(ctypes, cconsts))
	b.WriteString("def providerKeyShapes : List (String × String × String) := [\n")
	ks := keyShapes(ptypes, consts)
	for i, e := range ks {
		sep := ","
		if i == len(ks)-1 {
			sep = ""
		}
		fmt.Fprintf(&b, "  (%s, %s, %s)%s\n", leanStr(e[0]), leanStr(e[1]), leanStr(e[2]), sep)
	}
	b.WriteString("]\n\n")
	w2 := func(name string, t [][2]string) {
		b.WriteString("def " + name + " : List (String × String) := [\n")
		for i, e := range t {
			sep := ","
			if i == len(t)-1 {
				sep = ""
			}
			fmt.Fprintf(&b, "  (%s, %s)%s\n", leanStr(e[0]), leanStr(e[1]), sep)
		}
		b.WriteString("]\n\n")
	}
	// per-consumer key spaces joined with their prefix byte: (key function, shape, prefix byte)
	{
		pt := map[string]int{}
		for _, e := range prefixTable(ptypes, consts) {
			pt[e.name] = e.val
		}
		b.WriteString("def providerSpaces : List (String × String × Nat) := [\n")
		for i, e := range ks {
			sep := ","
			if i == len(ks)-1 {
				sep = ""
			}
			v, ok := pt[e[2]]
			if !ok {
				v = 99999
			}
			fmt.Fprintf(&b, "  (%s, %s, %d)%s\n", leanStr(e[0]), leanStr(strings.SplitN(e[1], ":", 2)[0]), v, sep)
		}
		b.WriteString("]\n\n")
	}
	// iterator sites classified: per-consumer iteration must go through the length-prefixed layout
	{
		sites := iterSites(*repo, pkeeper)
		b.WriteString("def providerIterKinds : List (String × String) := [\n")
		for i, e := range sites {
			sep := ","
			if i == len(sites)-1 {
				sep = ""
			}
			kind := "other:" + e[1]
			switch {
			case strings.HasPrefix(e[1], "types.StringIdWithLenKey("):
				kind = "len-per-consumer"
			case strings.HasPrefix(e[1], "RANGE(types.StringIdWithLenKey("):
				kind = "len-per-consumer-range"
			case strings.HasPrefix(e[1], "types.") && strings.HasSuffix(e[1], "Prefix()"):
				kind = "whole-space"
			case strings.HasPrefix(e[1], "[]byte{") && !strings.Contains(e[1], "consumerId"):
				kind = "whole-space"
			}
			fmt.Fprintf(&b, "  (%s, %s)%s\n", leanStr(e[0]), leanStr(kind), sep)
		}
		b.WriteString("]\n\n")
	}
	w2("providerIterSites", iterSites(*repo, pkeeper))
	w2("consumerIterSites", iterSites(*repo, ckeeper))
	w2("queueLimits", queueLimits(pkeeper))
	var det [][3]string
	for _, fs := range [][]*ast.File{ptypes, pkeeper, pmod, ctypes, ckeeper, cmod, ccvtypes} {
		det = append(det, detSites(*repo, fs)...)
	}
	b.WriteString("def detSites : List (String × String × String) := [\n")
	for i, e := range det {
		sep := ","
		if i == len(det)-1 {
			sep = ""
		}
		fmt.Fprintf(&b, "  (%s, %s, %s)%s\n", leanStr(e[0]), leanStr(e[1]), leanStr(e[2]), sep)
	}
	b.WriteString("]\n\n")
	wl := func(name string, t []string) {
		q := make([]string, len(t))
		for i, s := range t {
			q[i] = leanStr(s)
		}
		b.WriteString("def " + name + " : List String := [" + strings.Join(q, ", ") + "]\n\n")
	}
	wl("providerBeginBlock", callOrder(pmod, "BeginBlock"))
	wl("providerEndBlock", callOrder(pmod, "EndBlock"))
	wl("consumerBeginBlock", callOrder(cmod, "BeginBlock"))
	wl("consumerEndBlock", callOrder(cmod, "EndBlock"))
	b.WriteString("end ICS.Generated\n")
	if *outp == "" {
		fmt.Print(b.String())
	} else if err := os.WriteFile(*outp, []byte(b.String()), 0o644); err != nil {
		panic(err)
	}
}
