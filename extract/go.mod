module verif/extract

go 1.23
