#!/bin/bash
# usage: confirm_mut.sh <Cxx> <n>   — re-confirm a seeded change in its scratch worktree:
#   demo passes on the clean tree, fails with the patch; the patched tree builds and the existing
#   tests of x/..., app/... and tests/integration still pass
P=$1; N=$2; W=/tmp/mut_$P; O=$W/OUT/$N
export GOFLAGS=-mod=mod GOPROXY=off
cd $W || exit 2
git checkout -q -- . ; git clean -fdq -e OUT
dp=$(grep -o '\(x\|app\|tests\|testutil\)/[a-zA-Z0-9_/.]*_test\.go' $O/demo_path.txt | head -1)
pkg=./$(dirname $dp)
cp $O/demo_test.go $dp
name=$(grep -o 'func Test[A-Za-z0-9_]*' $dp | head -1 | sed 's/func //')
# prefer the -run pattern the author of the demo wrote down
pat=$(grep 'go test' $O/demo_path.txt | head -1 | grep -o "\-run '\?[^' ]*'\?" | sed "s/-run //; s/'//g")
[ -n "$pat" ] && name="$pat"
echo "[$P/$N] demo $dp ($name) in $pkg"
go test -vet=off -count=1 -timeout 60m -run "$name" $pkg > $O/confirm_clean.log 2>&1 && echo "  clean: demo PASS" || echo "  clean: demo FAIL (unexpected)"
git apply $O/patch.diff || { echo "  patch does not apply"; exit 1; }
go build ./... > $O/confirm_build.log 2>&1 && echo "  patched: builds" || echo "  patched: BUILD FAILS"
go test -vet=off -count=1 -timeout 60m -run "$name" $pkg > $O/confirm_mut.log 2>&1 && echo "  patched: demo PASS (unexpected)" || echo "  patched: demo FAIL (expected)"
rm -f $dp
if [ -n "$FAST" ]; then
  # time-boxed confirmation: unit suites re-run here; the integration suite was run by the author of the change (log in OUT/)
  go test -vet=off -count=1 -timeout 60m -p 4 ./x/... ./app/... > $O/confirm_suite.log 2>&1
  echo "  (integration suite not re-run here: see the author's log)"
else
  go test -vet=off -count=1 -timeout 120m -p 4 ./x/... ./app/... ./tests/integration/... > $O/confirm_suite.log 2>&1
fi
echo "  patched: suite failures: $(grep -c '^FAIL\|^--- FAIL' $O/confirm_suite.log)"
git checkout -q -- . ; git clean -fdq -e OUT
