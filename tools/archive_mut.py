#!/usr/bin/env python3
"""archive_mut.py <Cxx> <n> <detected-by text>  — copy a confirmed seeded change into /verif/seeded/<Cxx>-<n>/"""
import sys, os, shutil, json, re
P, N, det = sys.argv[1], sys.argv[2], sys.argv[3]
M = sys.argv[4] if len(sys.argv) > 4 else N      # number under which it is archived (later waves)
src = f"/tmp/mut_{P}/OUT/{N}"
dst = f"/verif/seeded/{P}-{M}"
os.makedirs(dst, exist_ok=True)
for f in ["patch.diff", "demo_test.go", "demo_path.txt", "README.md"]:
    if os.path.exists(os.path.join(src, f)):
        shutil.copyfile(os.path.join(src, f), os.path.join(dst, f))
readme = open(os.path.join(src, "README.md")).read() if os.path.exists(os.path.join(src, "README.md")) else ""
confirm = ""
for log in ["/tmp/confirm1.log", "/tmp/confirm2.log", "/tmp/confirm3.log", "/tmp/confirm4.log", "/tmp/confirm5.log", "/tmp/confirm6.log", "/tmp/confirm7.log", "/tmp/confirm8.log", "/tmp/c8.log", "/tmp/c9.log", "/tmp/c10.log", "/tmp/c11.log", "/tmp/c12.log"]:
    if os.path.exists(log):
        txt = open(log).read()
        m = re.search(r"\[%s/%s\].*?(?=\n\[|\Z)" % (P, N), txt, re.S)
        if m:
            confirm = m.group(0)
first_par = " ".join(readme.strip().split("\n\n")[0:2]).replace("\n", " ")[:900]
meta = dict(
    property=P, seeded_change=f"{P}-{M}",
    summary=first_par,
    needs_to_manifest="see README.md (section on what is needed to manifest)",
    confirmed_by_me=confirm.strip().split("\n"),
    how_confirmed="tools/confirm_mut.sh in the scratch worktree: demo passes on the clean tree, fails with patch.diff applied; patched tree builds; go test ./x/... ./app/... ./tests/integration/... has 0 failures with the patch",
    checks_run="tools/trymut.sh: git -C /repo apply patch.diff; ./check <prop>; git -C /repo checkout -- .",
    detected_by=det,
)
json.dump(meta, open(os.path.join(dst, "meta.json"), "w"), indent=1)
print("archived", dst)
