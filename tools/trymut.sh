#!/bin/sh
# usage: trymut.sh <patch.diff> <prop> [<prop>...]  — apply a seeded change to /repo, run the checks, undo it
patch="$1"; shift
git -C /repo apply "$patch" || { echo "patch does not apply"; exit 2; }
for p in "$@"; do
  (cd /verif && ./check "$p" 2>&1 | grep -E "^VIOLATION|^KNOWN|^check " | head -5)
done
git -C /repo checkout -- .
git -C /repo status --short | grep -v testdata
