#!/bin/bash
# usage (under vp run --with-repo): tools/sweep.sh "<seeds>" "<props>" [tier]
# runs the checks on the unchanged tree for several VERIF_SEED values; prints one line per check
export VERIF_REPO=${VP_RUN_REPO:-/repo}
./setup.sh > /dev/null 2>&1 || echo "setup failed"
for s in $1; do for p in $2; do
  out=$(VERIF_SEED=$s ./check $p --tier ${3:-quick} 2>&1 | grep -E "^VIOLATION|^KNOWN|^check " | tr '\n' ' ')
  echo "seed=$s $out"
done; done
