#!/bin/sh
# usage: trymut2.sh <patch.diff> <prop> [<prop>...] — like trymut.sh, but isolated: the seeded change is
# applied to a scratch worktree of /repo (/tmp/mrepo) and the checks run from a scratch copy of /verif
# (/tmp/vmut, refreshed by the caller), so that work in /verif and /repo can go on meanwhile
patch="$1"; shift
git -C /tmp/mrepo checkout -q -- . && git -C /tmp/mrepo apply "$patch" || { echo "patch does not apply"; exit 2; }
for p in "$@"; do
  (cd /tmp/vmut && VERIF_REPO=/tmp/mrepo ./check "$p" 2>&1 | grep -E "^VIOLATION|^KNOWN|^check " | head -5)
done
git -C /tmp/mrepo checkout -q -- .
