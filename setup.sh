#!/bin/sh
# offline setup: build the Lean library + driver, warm the Go build cache for the harness
set -e
cd "$(dirname "$0")"
export GOFLAGS=-mod=mod GOPROXY=off
unset GOTOOLCHAIN GOSUMDB
(cd lean && lake build)
cp /repo/go.sum harness/go.sum
(cd harness && go build -tags verif -o /dev/null .)
if [ -d extract ]; then (cd extract && go build -o /dev/null .); fi
echo setup-ok
