# per-property configuration of ./check: streams (name, (seeds, n) per tier), trusted base notes
TRUSTED_BASE = [
    "Lean 4.33.0 kernel (thorough tier: leanchecker re-check of the .olean files)",
    "axioms allowed in property theorems: propext, Classical.choice, Quot.sound (audited with #print axioms on every run); no native_decide/bv_decide/sorry",
    "hand-written Lean model (lean/ICS/Model); its faithfulness is established only by the correspondence check on the explored operation sequences",
    "Go harness + scripted environment keepers (harness/), Lean driver parser (lean/ICS/Driver), this check script",
]

PROPS = {
    "C04": dict(
        streams=[
            dict(name="powercap", stateless=True, quick=(4, 4000), thorough=(14, 60000)),
        ],
        rule="seeded random validator multisets (sizes 0-32, powers 1..2^55 incl. heavy ties, one-whale, all-equal) x percent 1..100; "
             "non-trivial = more than one validator and floor(sum*p/100) >= 1; every case is compared model-vs-NoMoreThanPercentOfTheSum "
             "and the Spec.C04 clauses are evaluated on the implementation's output",
        assumptions=["powers and their sum fit in int64 (A-POWER)", "sort.Slice is a stable insertion sort for n<=12 (Go pdqsort); for n>12 only tie-insensitive observables are compared"],
        trusted=["LegacyDec arithmetic of maxPower modelled as floor(sum*percent/100)"],
    ),
}

LIFE = dict(name="lifecycle", quick=(6, 700), thorough=(28, 4000))
VALSET = dict(name="valset", quick=(4, 4000), thorough=(14, 60000))
PROV_RULE = ("seeded operation sequences against the real provider keeper/msg server/BeginBlock/EndBlock over scripted staking, "
             "slashing and IBC keepers (create/update/remove consumer, opt-in/out, key assignment, staking changes, blocks); times biased to "
             "pending deadlines +-1ns; after every operation the model's next state (computed from the implementation's previous state) is "
             "compared field by field with the implementation's next state and every Spec.Prov clause is evaluated on the implementation state; "
             "non-trivial = accepted messages and blocks that change a queue")
PROV_ASSUME = ["A-ATOMIC: a failing message leaves no writes (harness wraps handlers in CacheContext like baseapp)",
               "A-TIMEKEY: sdk.FormatTimeBytes is order preserving", "scripted environment keepers behave like staking/slashing/IBC (validated only by reading their code)"]

PROPS.update({
    "C01": dict(streams=[VALSET],
        rule="seeded random current/next sets, update lists with repeated keys and zero powers; DiffValidators, AccumulateChanges called directly, "
             "ApplyCCValidatorChanges on a real consumer keeper; non-trivial = both inputs non-empty",
        fields=r"^(diff|accum|cinit|applycc)\.",
        assumptions=["public-key string order supplied by the harness (keyorder line) is the order AccumulateChanges sorts by",
                     "ordered IBC channel (A-IBC-ORDER) for the system-level statement"],
        trusted=["system-level interleaving (provider epochs x relay schedule) is covered by theorem replication_block over the algebra, not yet by a two-chain stream"]),
    "C10": dict(streams=[LIFE], rule=PROV_RULE, assumptions=PROV_ASSUME,
        fields=r"^(create|update|remove|begin)\.|^c\d+\.(phase|spawn|conn|client|genesis|evmin)|^g\.(nextid|spawnq|client2c)",
        trusted=["sched_inv (initialized <-> scheduled exactly once) is proved only as far as Props/C10 states; it is additionally monitored on every implementation state"]),
    "C13": dict(streams=[LIFE], rule=PROV_RULE, assumptions=PROV_ASSUME, fields=r"^$",
        trusted=["frame of per-consumer operations is monitored on the implementation (Spec.Prov.othersUntouched) and follows for the model from get_set_other; byte-level theorems are about the regenerated key tables"]),
    "C18": dict(streams=[VALSET], fields=r"^accum\.",
        rule="AccumulateChanges differential run (Go map iteration order is random per run, so every run exercises a different enumeration); regenerated determinism-site table",
        assumptions=["Go runtime (scheduler, map hashing) is not modelled"],
        trusted=["replica comparison of whole histories is part of the thorough tier only"]),
})

EPOCH = dict(name="epoch", quick=(6, 700), thorough=(28, 4000))
EPOCH_FIELDS = r"^end\.|^c\d+\.(valset|optin|minpow|pend|acks|ps|allow|deny|prio)|^begin\.res"
PROPS.update({
    "C02": dict(streams=[EPOCH, LIFE], rule=PROV_RULE + "; epoch stream: powers 1..3 with sub-unit token noise so that power ties at the active-set boundary are frequent; every validator set the implementation computes is judged by Spec.Epoch.c02* from the staking observations",
        assumptions=PROV_ASSUME + ["A-STK-SORT / A-STK-POS: staking returns bonded, non-jailed validators in power-index order, non-empty"], fields=EPOCH_FIELDS),
    "C03": dict(streams=[EPOCH, LIFE], rule=PROV_RULE + "; Top-N consumers owned by gov with N in 50..100 (and invalid values), thresholds judged by Spec.Epoch.c03*",
        assumptions=PROV_ASSUME + ["exactness of the threshold needs total power < 2*10^16 (LegacyDec rounds at 10^-18)"], fields=EPOCH_FIELDS),
})
PROPS["C04"]["streams"].append(EPOCH)
PROPS["C04"]["fields"] = r"^powercap\.|" + EPOCH_FIELDS

KEYS = dict(name="keys", quick=(6, 700), thorough=(28, 4000))
HANDSHAKE = dict(name="handshake", quick=(8, 900), thorough=(28, 4000))
KA_FIELDS = r"^(assign|optin|optout|newval|rmval)\.|^c\d+\.(ka|byaddr|prune|optin)"
PROPS.update({
    "C05": dict(streams=[KEYS, LIFE], rule=PROV_RULE + "; keys stream: 4+2 validators, 5 extra keys plus all provider keys, so collisions, re-assignments (also back to the provider key), validator creation/removal and pruning deadlines are frequent",
        assumptions=PROV_ASSUME + ["A-HASH: key id <-> consensus address is injective (pool of ed25519 identities)"], fields=KA_FIELDS),
    "C06": dict(streams=[KEYS], rule=PROV_RULE + "; block times land on / one nanosecond around the pruning deadlines",
        assumptions=PROV_ASSUME, fields=KA_FIELDS + r"|^end\.|^begin\."),
    "C11": dict(streams=[LIFE, HANDSHAKE], rule=PROV_RULE, assumptions=PROV_ASSUME,
        fields=r"^(remove|begin|end)\.|^c\d+\.(phase|removal|client|channel|ka|byaddr|prune|valset|optin|pend|acks|allow|deny|prio|minpow|qinfr|inith|evmin)|^g\.(removeq|client2c|chan2c|infrq)"),
    "C14": dict(streams=[LIFE, KEYS], rule=PROV_RULE + "; senders drawn from owner / previous owner / other users / governance; signer of validator messages occasionally another validator",
        assumptions=PROV_ASSUME, fields=r"^(create|update|remove|optin|optout|assign)\.res|^c\d+\.(owner|ps|minpow)"),
    "C17": dict(streams=[HANDSHAKE], rule=PROV_RULE + "; handshake stream: every combination of ordering, ports, version, hop count, underlying client, initiating side, repeated attempts and confirmations; consumers launched on created clients and on two pre-existing connections that several consumers name; a launch on the connection of a stopped consumer; consumer stream: the consumer's own OnChanOpenInit / Try / Ack / Confirm / CloseInit with every combination of ordering, ports, version (blank = default), hops and underlying client, before and after the provider channel is fixed by the first VSC packet",
        assumptions=PROV_ASSUME + ["core IBC handshake (channel states, connection/client existence) is scripted"],
        fields=r"^(chantry|chanconfirm|begin)\.|^c\d+\.(client|channel|inith|phase)|^g\.(client2c|chan2c)"),
    "C20": dict(streams=[LIFE], rule=PROV_RULE + "; infraction-parameter requests partial/repeated/cancelling, before and after launch, block times around the due time",
        assumptions=PROV_ASSUME, fields=r"^(update|begin)\.res|^c\d+\.(infr|qinfr)|^g\.infrq"),
})

SLASH = dict(name="slash", quick=(6, 700), thorough=(28, 4000))
CONSUMER = dict(name="consumer", quick=(6, 1500), thorough=(28, 8000))
CONS_RULE = ("consumer stream: the real consumer keeper/AppModule (BeginBlock, EndBlock, OnRecvPacket, OnAcknowledgementPacket, SlashWithInfractionReason) over "
             "scripted IBC keepers; VSC packets in batches of 0..k per block with slash acks, downtime/double-sign infractions at arbitrary heights, "
             "handled/bounced/v1 acknowledgements, block times on / one nanosecond around the retry deadline; model-vs-implementation on every field")
PROPS.update({
    "C08": dict(streams=[SLASH, CONSUMER], rule=PROV_RULE + "; slash stream: downtime/double-sign packets for current, replaced, unknown and foreign keys, validators bonded/unbonded/jailed/tombstoned/opted out, all phases, ids 0 / issued / open / never issued; " + CONS_RULE,
        assumptions=PROV_ASSUME + ["effects on staking/slashing are observed as the calls made to the scripted keepers"],
        fields=r"^recvslash\.|^c\d+\.acks|^end\.sent|^cons\.(outstanding|queue|cslash|recv)"),
    "C09": dict(streams=[SLASH, CONSUMER], rule=PROV_RULE + "; replenish period 8 s and fraction 0.3 so that the meter goes negative and is replenished often; " + CONS_RULE,
        assumptions=PROV_ASSUME + ["A-POWER: total power below CometBFT's MaxTotalVotingPower"],
        fields=r"^recvslash\.(ack|meter)|^begin\.(meter|cand)|^cons\.(record|queue|cend|cack)"),
    "C12": dict(streams=[EPOCH, SLASH, CONSUMER], rule=PROV_RULE + "; " + CONS_RULE,
        assumptions=PROV_ASSUME, fields=r"^end\.(vscid|vsc2h|sent)|^c\d+\.pend|^recvslash\.(ack|effects)|^cons\.(h2v|queue)"),
    "C15": dict(streams=[EPOCH, LIFE], rule=PROV_RULE + "; validators crossing the M boundary in both directions, M changed by governance, jailing/unjailing",
        assumptions=PROV_ASSUME + ["'highest voting power' is staking's power-index order (A-STK-SORT)", "the staking/genutil wrapper modules returning no validator updates are not exercised by the keeper-level harness"],
        fields=r"^end\.(valupd|lastprov|res)"),
})
FAULTS = dict(name="faults", quick=(6, 700), thorough=(28, 4000))
PROPS["C19"] = dict(streams=[FAULTS, LIFE], rule=PROV_RULE + "; faults stream: before BeginBlock / EndBlock a failure of one external call (client creation, connection lookup, client state, historical info, unbonding time, channel close, packet send) is armed for its n-th use; chain ids and initial heights with revisions 1 and 2; the C19 clauses are evaluated on every block of every stream",
    assumptions=PROV_ASSUME + ["failures are injected only at calls made inside launch, deletion and packet sending (a failing staking query outside those is a dead chain)", "panics inside external modules are not modelled"],
    fields=r"^(begin|end)\.res")
ISOLATION = dict(name="isolation", quick=(4, 600), thorough=(20, 3000))
INFRACTION = dict(name="infraction", quick=(4, 600), thorough=(20, 3000))
PROPS["C19"]["streams"] = PROPS["C19"]["streams"] + [dict(name="rewardfaults", quick=(8, 600), thorough=(24, 3000))]
PROPS["C13"]["streams"] = [LIFE, ISOLATION, INFRACTION, dict(name="rewards", quick=(3, 400), thorough=(12, 2500))]
PROPS["C13"]["fields"] = r"^c\d+\.|^g\.(spawnq|removeq|infrq|client2c|chan2c)"  # (c<id>.alloc included)
PROPS["C13"]["rule"] = PROV_RULE + "; isolation stream: 13 consumers (ids 0..12, so 1/10/11/12 coexist) launched first, then key assignments, opt-ins/outs, updates, removals and epochs interleaved; infraction stream: several launched consumers scheduling parameter changes in the same block"
PROPS["C20"]["streams"] = [LIFE, INFRACTION]
PROPS["C05"]["streams"].append(ISOLATION)
PROPS["C06"]["streams"].append(ISOLATION)
PROPS["C17"]["streams"] = [HANDSHAKE, CONSUMER]
TWOCHAIN = dict(name="twochain", quick=(4, 500), thorough=(20, 3000))
PROPS["C01"]["streams"] = [VALSET, CONSUMER, EPOCH, ISOLATION, TWOCHAIN]
PROPS["C01"]["fields"] = r"^(diff|accum|cinit|applycc)\.|^cons\.(cc|pendch|cend|cinit)|^end\.(sent|valupd)|^c\d+\.(pend|valset)"
PROPS["C01"]["rule"] += "; " + CONS_RULE + "; twochain stream: the packets the real provider SENDS for one consumer (after a real channel handshake) are relayed in order, 0..10 at a time, with consumer blocks in between, to a real consumer keeper started from the provider's genesis; key assignments, opt-ins/outs, stake changes, jailing meanwhile"

REWARDS = dict(name="rewards", quick=(6, 500), thorough=(28, 3000))
CREWARDS = dict(name="crewards", quick=(6, 600), thorough=(28, 4000))
PROPS["C16"] = dict(streams=[REWARDS, CREWARDS], rule=PROV_RULE + "; crewards stream (consumer): fees of 1..10^6 in three denoms minted into the fee collector, redistribution fractions 0, 0.1, 1/3, 0.75, 0.999999999999999999 and 1, transmission periods 1..10, reward-denom lists (empty, one, two, duplicated), transfer channel opened / closed / removed, failing transfers (first or second of a block), refunds of timed-out transfers back into the send buffer; rewards stream (provider): ICS-20 reward transfers through the real provider transfer middleware (memo with consumer id, legacy identification through the channel's client, plain memo, other receivers, failing transfers; amounts 1..10^6 in three denoms), denom registration by governance and per-consumer allow-lists, community tax 0..1, per-consumer commission rates, opt-ins/outs and power changes between crediting and payout, NumberOfEpochsToStartReceivingRewards=2 so that joiners are not yet eligible, several consumers sharing denoms, stops and deletions",
    assumptions=PROV_ASSUME + ["bank, distribution and the ICS-20 application are scripted: balances are kept per module account, AllocateTokensToValidator records (validator, DecCoins, commission rate) and FundCommunityPool moves coins; the ICS-20 application mints the received coins for the receiver",
                               "the Cosmos-Hub-only 'stride-1 / channel-391' patch of the middleware is not exercised (chain id is not cosmoshub-4)",
                               "consumer: the ICS-20 keeper is scripted (escrows the tokens, can be made to fail); refunds of failed transfers are ibc-go's and are scripted as escrow -> send buffer; provider-originated (ibc/...) reward denoms and the democracy distribution wrapper (x/ccv/democracy/distribution) are not exercised"],
    fields=r"^begin\.(pool|distr|cp|reward-effects)|^c\d+\.alloc|^reward\.|^cons\.(fc|redis|tosend|escrow|ltbh|transfers)")

EVIDENCE = dict(name="evidence", quick=(6, 700), thorough=(28, 4000))
PROPS["C07"] = dict(streams=[EVIDENCE], rule=PROV_RULE + "; evidence stream: REAL conflicting signed headers (light-client attacks) checked by the REAL 07-tendermint light client module on a real client store and then by GetByzantineValidators and the punishment loop: mostly valid attacks on 4-7 validators using keys assigned on that consumer, with absent / nil / tampered / wrong-key commit signatures, amnesia (same state, other round), identical headers, other chain ids, foreign or unknown client ids, different heights, trusted height 0 or not below the header, a trusted consensus state that does not match or is older than the trusting period, a smaller trusted set, a client state for another chain, heights around the minimum evidence height, replays; and REAL ed25519-signed duplicate votes submitted through MsgSubmitConsumerDoubleVoting.ValidateBasic and the msg server: mostly valid evidence of a validator's current consumer key, with single-field mutations (other chain id incl. the provider's and another consumer's, vote B with other height / round / type / validator, tampered signature on A or B, forged address, signed by another key, identical block ids, reversed order, nil block, invalid vote type), keys a validator uses on other consumers or has replaced, heights around the consumer's minimum evidence height, unknown / unlaunched / deleted consumers, consumers sharing a chain id with different double-sign settings (tombstone on and off), headers whose validator set lacks the signer / is empty / nil, replays of the previous submission, unbonding delegations and redelegations (matured, maturing now, future, on hold), jailed / tombstoned / unbonding / removed validators",
    assumptions=PROV_ASSUME + ["A-CRYPTO: an ed25519 signature verifies under identity k's public key iff it was produced with k's private key over exactly the verified bytes (the harness signs real votes; the model records signer, chain id and intactness)",
                               "x/staking's SlashUnbondingDelegation / SlashRedelegation amount rule (entries not matured or on hold, InitialBalance x factor, truncated) is scripted after the SDK source",
                               "light-client attacks: the consumer's client store (client state, trusted consensus state) is written by the harness as core IBC would hold it; both headers use one validator set and one trusted set per submission; header timestamps are one minute before the block time; revision numbers other than the chain id's own are not exercised"],
    fields=r"^(dvote|misb)\.")

# C18: the provider streams again, every BeginBlock / EndBlock first executed 3 times on throw-away
# branches of the same state and compared byte for byte (store contents, returned updates, packet
# bytes, environment calls)
PROPS["C18"]["streams"] = PROPS["C18"]["streams"] + [dict(name="slash@r3", quick=(3, 500), thorough=(8, 1200)),
                                                     dict(name="epoch@r3", quick=(3, 400), thorough=(8, 1000)),
                                                     dict(name="rewards@r3", quick=(2, 300), thorough=(6, 1000)),
                                                     dict(name="consumer@r3", quick=(3, 800), thorough=(8, 3000))]
PROPS["C18"]["fields"] = r"^accum\.|^(begin|end)\.rep|^cons\.cend\.rep"

# more consumers due at once than the per-block limit of the three time queues (launch, infraction
# parameters, removal); one scripted history per seed (201..209 consumers), slow (about 3 minutes)
BULK = dict(name="bulk", quick=(2, 1), thorough=(6, 1))
for _p in ("C10", "C11", "C20"):
    PROPS[_p]["streams"] = PROPS[_p]["streams"] + [BULK if _p == "C10" else dict(BULK, quick=(1, 1))]
# C19 also runs the infraction stream (consumers stopped in the block of a parameter request)
PROPS["C19"]["streams"] = PROPS["C19"]["streams"] + [dict(name="infraction", quick=(3, 500), thorough=(12, 2500))]

NOT_APPLICABLE = {
}

LEVEL_TEXT = {
    "C07": "Theorems (Props/C07), light-client attacks: GetByzantineValidators returns only identities that put a genuine non-absent signature on BOTH headers (byzantine_sound), amnesia identifies nobody, every staking/slashing call names a validator owning such a key on that consumer (misb_punishes_only_double_signers), acceptance implies the consumer's chain id and client, one height not below the minimum, different headers, a matching unexpired trusted consensus state and both CometBFT commit checks (misb_accepted_only_if). Double voting: an accepted submission is valid (accepted_is_valid) hence every single-field mutation is rejected and changes nothing (other chain, bad signature, wrong key / forged address, same block, H/R/T or validator mismatch, too old, no client); every staking/slashing call names exactly the validator owning the signing key on that consumer; one slash with the consumer's double-sign fraction and power = last power + live unbonding/redelegating power, jail iff not jailed, jail end and tombstone per the consumer's settings; with tombstoning no later evidence of any kind punishes the validator again (tombstoned_at_most_once); other validators' records untouched (applyEffects_frame). Tie: real signed votes through the real ValidateBasic + msg server, one-step correspondence of result, stage and every staking/slashing call + Spec.C07 clauses on the implementation.",
    "C16": "Theorems (Props/C16, 10^18-scaled integer arithmetic = LegacyDec): one (consumer, denom) step splits the credit EXACTLY into distribution-module tokens + community-pool tokens + remaining credit; validators together never receive more than was moved for them and all but n*(tokens+1)*10^-18 of it; only current, eligible members are paid and every eligible member is; payouts monotone in consumer power and never above the exact share; over a whole AllocateTokens the three module accounts conserve every denom and credits fall by exactly what left the pool; credits are always backed by the pool, so the roll-back branch is unreachable; crediting is exact. Tie: one-step correspondence of balances, credits and every AllocateTokensToValidator / FundCommunityPool / bank call + Spec.C16 clauses on the implementation's own numbers.",
    "C19": "Theorems: a failed launch leaves exactly the pre-launch state with phase registered and spawn cleared (others untouched), the fall-back cannot fail when initial height and chain id agree, creation/update keep them in agreement, deletion all-or-nothing, removal/infraction switch/meter have no error path. Tie: block results and all-or-nothing clauses on every block of every stream, with injected failures of external calls.",
    "C08": "Theorems: double-sign never punishes; effects = jailPlan (exactly the validator owning the key, existing, not unbonded/tombstoned/jailed, consumer's own downtime parameters, mapped infraction height); acks when declined; unknown id => error ack; consumer keeps one outstanding report per validator and clears on ack. Tie: one-step correspondence incl. the calls made to staking/slashing + Spec.Slash on the implementation.",
    "C09": "Theorems: meter <= allowance after BeginBlock, at most one allowance per period, none before the candidate time, bounced iff negative, deduction before handling, WINDOW BOUND (jailed power <= start meter + accrued allowances + one validator's power, for every trace), consumer retry FSM (no send while waiting, none before the delay, bounce keeps the packet, handled removes it once). Tie: correspondence of meter/candidate/acks and of the consumer queue/record.",
    "C12": "Theorems: id counter +1 per epoch and only then, open id mapped to height+1 every block, packets carry the current id, id 0 -> channel-open height, unknown id unresolvable; consumer: next height inherits, received id goes to height+1, slash packet carries the mapped id. Tie: correspondence + Spec.C12 / Spec.Cons on the implementation.",
    "C15": "Theorems: recorded set = first min(M,n) bonded with provider keys and powers, size <= M, returned updates = diff, engine follows the recorded set (apply_diff). Tie: correspondence of lastprov/valupd; engine-side fold of all returned updates compared with the recorded set every block; staking views checked against the first M.",
    "C05": "Theorems: every rejection branch of AssignConsumerKey (other validator's provider key, default key, known or prunable key, inactive consumer), success maps key<->validator, frame for other consumers, creation blocked iff key known on an active consumer. Tie: one-step correspondence + key invariants I1-I4 monitored on every implementation state.",
    "C06": "Theorems: replaced key on a launched consumer keeps resolving and is scheduled at now+unbonding; pruning forgets exactly the keys whose deadline passed (prune_not_early / pruned_when_due); identity fallback. Tie: same streams, deadlines hit to the nanosecond.",
    "C11": "Theorems: stop schedules removal and keeps state, unlaunched consumers are skipped by queue/send, deletion clears every protocol field, removal not early, second deletion is a no-op. Tie: correspondence + stop/removal monitors.",
    "C14": "Theorems: update/remove need the owner, Top-N != 0 implies governance owner after every accepted update (incl. combined messages), creation is opt-in only, validator messages need the validator's signature. Tie: correspondence on message results + owner/Top-N monitors.",
    "C17": "Theorems: provider: OnChanOpenTry accepted only if (ordered, ports, version, one hop, client bound to a channel-less consumer); confirm binds once; launch on a connection whose client is bound elsewhere is rejected; consumer: cons_init_accept_only_if (ordered, consumer->provider ports, version, one hop over the recorded provider client, no provider channel yet), cons_try_confirm_rejected, cons_no_second_channel, cons_adopts_first_channel (the channel of the first VSC packet, never another). Tie: correspondence on both chains + bijection monitor on every provider state + accept-only-if clauses on what the implementations accept.",
    "C20": "Theorems: equal request cancels, different request replaces and is due at now+unbonding, pending applied when due and then cleared, at most 200 per block. Tie: correspondence + queue/queued consistency monitor.",
    "C02": "Theorems (Props/C02): soundness, key, power and completeness of the model's computeNextValidators for every staking view; active-set clause from the staking order. Tie: one-step correspondence of the epoch computation + Spec.Epoch.c02* on every set the implementation computed.",
    "C03": "Theorems (Props/C03): the scan returns a member, reaches N %, no larger member does (exact arithmetic, total < 2*10^16). Tie: differential + Spec.Epoch.c03* at every epoch.",
    "C01": "Theorems: apply_diff, accumulate_effect, applyCC_effect/engine, replication_block (any batching of packets in a consumer block ends at the provider's last set). Tie: differential run of DiffValidators/AccumulateChanges/ApplyCCValidatorChanges.",
    "C10": "Theorems: phase edges only forward (edge_forward/path_forward), ids issued in order, queue consumption conserves/limits/only due, remove/delete preconditions. Tie: one-step correspondence of the lifecycle model + Spec.Prov clauses on every implementation state.",
    "C13": "Theorems: lenKey_prefix_free, ownerOf_lenKey, prefixes distinct and iterator sites classified on REGENERATED tables. Tie: fact extractor + othersUntouched monitor.",
    "C18": "Theorems: accumulate_order_independent (any map order, any correct sort); regenerated determinism-site table equals the audited list. Tie / search for a failing input: AccumulateChanges executed 13 times per input and compared in order; every provider BeginBlock / EndBlock of the slash, epoch and rewards streams executed 3 times on throw-away branches of the same state and compared byte for byte (provider store, returned updates, packet bytes, environment calls).",
    "C04": "Theorems (all inputs): same validators, every power <= max(1, floor(s*p/100)), total exactly preserved and nobody zero when feasible, "
           "strict order by power never inverted, all equal when infeasible; set cap: at most k, no excluded eligible validator outranks an included one. "
           "Tie to code: differential run of NoMoreThanPercentOfTheSum against the model and Spec on its outputs.",
}
