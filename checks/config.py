# per-property configuration of ./check: streams (name, (seeds, n) per tier), trusted base notes
TRUSTED_BASE = [
    "Lean 4.33.0 kernel (thorough tier: leanchecker re-check of the .olean files)",
    "axioms allowed in property theorems: propext, Classical.choice, Quot.sound (audited with #print axioms on every run); no native_decide/bv_decide/sorry",
    "hand-written Lean model (lean/ICS/Model); its faithfulness is established only by the correspondence check on the explored operation sequences",
    "Go harness + scripted environment keepers (harness/), Lean driver parser (lean/ICS/Driver), this check script",
]

PROPS = {
    "C04": dict(
        streams=[
            dict(name="powercap", stateless=True, quick=(4, 4000), thorough=(14, 60000)),
        ],
        rule="seeded random validator multisets (sizes 0-32, powers 1..2^55 incl. heavy ties, one-whale, all-equal) x percent 1..100; "
             "non-trivial = more than one validator and floor(sum*p/100) >= 1; every case is compared model-vs-NoMoreThanPercentOfTheSum "
             "and the Spec.C04 clauses are evaluated on the implementation's output",
        assumptions=["powers and their sum fit in int64 (A-POWER)", "sort.Slice is a stable insertion sort for n<=12 (Go pdqsort); for n>12 only tie-insensitive observables are compared"],
        trusted=["LegacyDec arithmetic of maxPower modelled as floor(sum*percent/100)"],
    ),
}

NOT_APPLICABLE = {}

LEVEL_TEXT = {
    "C04": "Theorems (all inputs): same validators, every power <= max(1, floor(s*p/100)), total exactly preserved and nobody zero when feasible, "
           "strict order by power never inverted, all equal when infeasible; set cap: at most k, no excluded eligible validator outranks an included one. "
           "Tie to code: differential run of NoMoreThanPercentOfTheSum against the model and Spec on its outputs.",
}
