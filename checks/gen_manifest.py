#!/usr/bin/env python3
"""regenerate MANIFEST.json from checks/config.py"""
import json, os, sys
sys.path.insert(0, os.path.dirname(os.path.abspath(__file__)))
from config import PROPS, NOT_APPLICABLE, LEVEL_TEXT
ROOT = os.path.dirname(os.path.dirname(os.path.abspath(__file__)))
props = [json.loads(l) for l in open(os.path.join(ROOT, "properties.jsonl"))]
checks = []
for p in props:
    pid = p["id"]
    if pid not in PROPS:
        continue
    c = PROPS[pid]
    checks.append(dict(
        property_id=pid,
        quick_cmd=f"./check {pid} --tier quick",
        thorough_cmd=f"./check {pid} --tier thorough",
        evidence_file=f"/verif/evidence/{pid}.json",
        replay_cmd_template=f"./check {pid} --replay {{path}}",
        engine="lean4-proof+correspondence",
        level_claimed=dict(category="proof", text=LEVEL_TEXT.get(pid, ""), design_ref=f"DESIGN.md §6 {pid}"),
        level_note="; ".join(c.get("assumptions", []) + c.get("trusted", [])),
        technique=c.get("technique", "Lean 4 theorems about a hand-written executable model + differential correspondence check against the Go implementation"),
    ))
na = [dict(property_id=p["id"], reason=NOT_APPLICABLE.get(p["id"], "check not built yet in this round; planned (DESIGN.md §6)")) for p in props if p["id"] not in PROPS]
m = dict(
    version=1,
    setup_cmd="./setup.sh",
    hooks=dict(guard="verif", enable="go build -tags verif (no hook is currently needed: the harness only uses exported API of /repo)",
               baseline_off_cmd="cd /repo && GOFLAGS=-mod=mod GOPROXY=off go test -json -vet=off -count=1 -timeout 25m ./...",
               source_commits=[], add_only=True),
    engines=[dict(name="lean4-proof+correspondence", path="/verif/check", serves_properties=[c["property_id"] for c in checks],
                  kind_free_text="Lean 4 machine-checked theorems about an executable model (lean/ICS), tied to /repo by a Go harness that runs the real keepers and a Lean driver that replays the same operations through the model and evaluates the property's decidable Spec on the implementation trace; regenerated fact tables from the Go source")],
    checks=checks,
    not_applicable=na,
    notes="see DESIGN.md; known_findings.json lists recorded genuine defects",
)
json.dump(m, open(os.path.join(ROOT, "MANIFEST.json"), "w"), indent=1)
print("MANIFEST.json:", len(checks), "checks,", len(na), "not claimed")
