import ICS.Util
import ICS.Model.Shaping
import ICS.Spec.C04
import ICS.Driver.Common
import ICS.Driver.Shaping
