import ICS.Driver.Shaping
import ICS.Driver.ValSet
import ICS.Driver.Provider
import ICS.Driver.Consumer
open ICS ICS.Driver

structure DState where
  acc : Acc := {}
  vs  : VSState := {}
  pv  : ProvDrv := {}
  cd  : ConsDrv := {}
  stream : String := ""

def dispatch (d : DState) (s : Step) : DState :=
  let a := { d.acc with ops := d.acc.ops + 1 }
  match s.op.name with
  | "powercap" => { d with acc := stepPowercap a s }
  | "keyorder" | "diff" | "accum" | "cinit" | "applycc" =>
    if d.stream.startsWith "consumer" || d.stream == "crewards" then
      let r := stepCons d.cd a s
      { d with cd := r.1, acc := r.2 }
    else
      let r := stepValSet d.vs a s
      { d with vs := r.1, acc := r.2 }
  | "cbegin" | "cend" | "crecvvsc" | "cslash" | "cack" | "cqueuematured" | "cfees" | "crefund" | "ctch" | "cmkconn" | "cchanclose" | "cchaninit" | "cchantry" | "cchanconfirm" | "cchanack" | "ccloseinit" =>
    let r := stepCons d.cd a s
    { d with cd := r.1, acc := r.2 }
  | _ =>
    let r := stepProv d.pv a s
    { d with pv := r.1, acc := r.2 }

def main (args : List String) : IO UInt32 := do
  match args with
  | [path] =>
    let txt ← IO.FS.readFile path
    let lines := (txt.splitOn "\n").zipIdx.map fun p => (p.2 + 1, parseLine p.1)
    let steps := groupSteps lines
    let hdr := (lines.find? fun p => p.2.kind == "hdr").map (·.2)
    let stream := match hdr with | some h => h.get "stream" | none => ""
    let d := steps.foldl dispatch { stream := stream }
    IO.println d.acc.report
    return (if d.acc.mismatches.isEmpty && d.acc.specfails.isEmpty then 0 else 1)
  | _ =>
    IO.eprintln "usage: icsdriver <trace>"
    return 2
