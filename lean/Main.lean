import ICS.Driver.Shaping
open ICS ICS.Driver

def dispatch (a : Acc) (s : Step) : Acc :=
  let a := { a with ops := a.ops + 1 }
  match s.op.name with
  | "powercap" => stepPowercap a s
  | _ => a.tag ("unknown-op:" ++ s.op.name)

def main (args : List String) : IO UInt32 := do
  match args with
  | [path] =>
    let txt ← IO.FS.readFile path
    let lines := (txt.splitOn "\n").zipIdx.map fun p => (p.2 + 1, parseLine p.1)
    let steps := groupSteps lines
    let acc := steps.foldl dispatch {}
    IO.println acc.report
    return (if acc.mismatches.isEmpty && acc.specfails.isEmpty then 0 else 1)
  | _ =>
    IO.eprintln "usage: icsdriver <trace>"
    return 2
