import ICS.Driver.Common
import ICS.Spec.C04
namespace ICS.Driver
open ICS ICS.Shaping

def toCVs (ps : List (Nat × Nat)) : List CV := ps.map fun p => { id := p.1, power := p.2 }
def ofCVs (l : List CV) : List (Nat × Nat) := l.map fun v => (v.id, v.power)

/-- canonical order used by the harness for n > 12 (Go's sort is unstable there) -/
def canonDesc (l : List CV) : List CV :=
  l.mergeSort fun a b => decide (a.power > b.power ∨ (a.power = b.power ∧ a.id ≤ b.id))

def stepPowercap (a : Acc) (s : Step) : Acc :=
  let inp := toCVs (s.op.pairs "vals")
  let percent := s.op.nat "percent"
  let o := s.ob "powercap"
  let impl := toCVs (o.pairs "res")
  let model := noMoreThanPercentOfTheSum inp percent
  let a := a.tag (if Spec.C04.feasible inp percent then "pc-feasible" else "pc-infeasible")
  let a := if inp.length > 1 && sumPower inp * percent / 100 ≥ 1 then { a with nontrivial := a.nontrivial + 1 } else a
  let a :=
    if o.nat "exact" == 1 then a.cmp s.lineNo "powercap.res" (fmtPairs (ofCVs model)) (fmtPairs (ofCVs impl))
    else
      -- tie-insensitive: multiset of output powers
      (a.tag "pc-large").cmp s.lineNo "powercap.powers" (fmtNatList ((canonDesc model).map (·.power))) (fmtNatList ((canonDesc impl).map (·.power)))
  a.spec s.lineNo "C04.powercap" (Spec.C04.powerCapOK inp percent impl)
    (s!"failing={Spec.C04.powerCapFailing inp percent impl}")

end ICS.Driver
