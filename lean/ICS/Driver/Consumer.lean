import ICS.Driver.Common
import ICS.Driver.ValSet
import ICS.Spec.Cons
import ICS.Model.Rewards
namespace ICS.Driver
open ICS ICS.Consumer ICS.ValSet

structure ConsDrv where
  f      : List (String × String) := []     -- implementation state fields
  rank   : List (Nat × Nat) := []
  retry  : Int := 0
  engine : List Val := []
  recv   : List (Nat × Nat) := []
  rparams : Line := { kind := "", name := "", kv := [] }     -- reward parameters of the last cinit

def cget (f : List (String × String)) (k : String) : String :=
  match f.find? (·.1 == k) with
  | some p => p.2
  | none => ""

def csetAll (f kv : List (String × String)) : List (String × String) :=
  kv.foldl (fun f p => if f.any (·.1 == p.1) then f.map (fun q => if q.1 == p.1 then p else q) else f ++ [p]) f

def parseCPacket (t : String) : Option CPacket :=
  match t.splitOn "/" with
  | ["s", k, p, v, i] => some (.slash (nat0 k) (nat0 p) (nat0 v) (nat0 i))
  | ["m", v] => some (.matured (nat0 v))
  | _ => none

def renderCPacket : CPacket → String
  | .slash k p v i => s!"s/{k}/{p}/{v}/{i}"
  | .matured v => s!"m/{v}"

def parseQueue (s : String) : List CPacket := (if s == "" then [] else s.splitOn ",").filterMap parseCPacket
def renderQueue (q : List CPacket) : String := ",".intercalate (q.map renderCPacket)

/-- sent packets are printed with the infraction's name -/
def parseSentC (s : String) : List CPacket :=
  (if s == "" then [] else s.splitOn ",").filterMap fun t =>
    match t.splitOn "/" with
    | ["s", k, p, v, i] => some (.slash (nat0 k) (nat0 p) (nat0 v) (nat0 i))
    | ["m", v] => some (.matured (nat0 v))
    | _ => none

def consStateOf (d : ConsDrv) : State :=
  let f := d.f
  let rec_ := match (cget f "record").splitOn "/" with
    | [a, b] => some ({ sendTime := int0 a, waiting := b == "1" } : SlashRecord)
    | _ => none
  { cc := toVals (parsePairs (cget f "cc")),
    pending := if cget f "pendch" == "-" || cget f "pendch" == "" then none
               else if cget f "pendch" == "empty" then some [] else some (toVals (parsePairs (cget f "pendch"))),
    h2v := parsePairs (cget f "h2v"),
    pchan := if cget f "pchan" == "-" || cget f "pchan" == "" then none else some (cget f "pchan"),
    outstanding := parseNatList (cget f "outstanding"),
    queue := parseQueue (cget f "queue"), record := rec_, retryDelay := d.retry,
    height := nat0 (cget f "h"), now := int0 (cget f "now"), chanOpen := cget f "chanopen" != "0" }

def cparseBal (s : String) : Rewards.Bal :=
  (if s == "" then [] else s.splitOn ",").filterMap fun t => match t.splitOn ":" with | [a, b] => some (a, nat0 b) | _ => none

def crenderBal (b : Rewards.Bal) : String :=
  ",".intercalate ((isort (fun (a b : String × Nat) => decide (a.1 ≤ b.1)) (b.filter (·.2 != 0))).map fun e => s!"{e.1}:{e.2}")

def crOf (f : List (String × String)) : Rewards.CRState :=
  { fc := cparseBal (cget f "fc"), redis := cparseBal (cget f "redis"), toSend := cparseBal (cget f "tosend"),
    escrow := cparseBal (cget f "escrow"), ltbh := nat0 (cget f "ltbh") }

def cmpCR (a : Acc) (lineNo : Nat) (m : Rewards.CRState) (impl : List (String × String)) : Acc :=
  let a := a.cmp lineNo "cons.fc" (crenderBal m.fc) (cget impl "fc")
  let a := a.cmp lineNo "cons.redis" (crenderBal m.redis) (cget impl "redis")
  let a := a.cmp lineNo "cons.tosend" (crenderBal m.toSend) (cget impl "tosend")
  let a := a.cmp lineNo "cons.escrow" (crenderBal m.escrow) (cget impl "escrow")
  a.cmp lineNo "cons.ltbh" (toString m.ltbh) (cget impl "ltbh")

def parseDec18 (s : String) : Nat :=
  match s.splitOn "." with
  | [a, b] => nat0 a * 10^18 + nat0 (b ++ String.ofList (List.replicate (18 - b.length) '0'))
  | [a] => nat0 a * 10^18
  | _ => 0

def renderCons (s : State) : List (String × String) :=
  [("cc", fmtPairs (ofVals (canonVals s.cc))),
   ("pendch", match s.pending with | none => "-" | some [] => "empty" | some l => fmtPairs (ofVals l)),
   ("h2v", fmtPairs s.h2v), ("pchan", s.pchan.getD "-"),
   ("outstanding", fmtNatList s.outstanding), ("queue", renderQueue s.queue),
   ("record", match s.record with | none => "-" | some r => s!"{r.sendTime}/{if r.waiting then 1 else 0}")]

def cmpCons (a : Acc) (lineNo : Nat) (model : State) (impl : List (String × String)) : Acc :=
  (renderCons model).foldl (fun a p => a.cmp lineNo ("cons." ++ p.1) p.2 (cget impl p.1)) a

def stepCons (d : ConsDrv) (a : Acc) (s : Step) : ConsDrv × Acc :=
  let cs := s.obs.filter (·.name == "cs")
  let after := cs.foldl (fun f l => csetAll f l.kv) d.f
  let res := (s.ob "r").get "res"
  let rankOf := fun (k : Nat) => match d.rank.find? (·.1 == k) with | some p => p.2 | none => 0
  let a := a.tag s.op.name
  match s.op.name with
  | "keyorder" => ({ d with rank := (s.op.natList "order").zipIdx }, a)
  | "cinit" =>
    let ini := toVals (s.op.pairs "initial")
    let r := applyCC [] ini
    let f0 := cs.foldl (fun f l => csetAll f l.kv) []
    let a := a.cmp s.lineNo "cons.cinit.cc" (fmtPairs (ofVals (canonVals r.1))) (cget f0 "cc")
    let a := a.cmp s.lineNo "cons.cinit.ret" (fmtPairs (ofVals ini)) ((s.ob "r").get "ret")
    ({ d with f := f0, retry := s.op.int "retry", engine := r.1, recv := [], rparams := s.op }, a)
  | "cbegin" =>
    let st := consStateOf d
    let st := { st with height := st.height + s.op.nat "dh", now := st.now + s.op.int "dt" }
    let a := a.cmp s.lineNo "cons.cbegin.res" "ok" res
    let d' := { d with f := after }
    let a := cmpCons a s.lineNo (beginBlock st) after
    (d', a.spec s.lineNo "C12.height-ids" (Spec.Cons.heightIds (consStateOf d').h2v d.recv))
  | "crecvvsc" =>
    let st := consStateOf d
    let ack := (s.ob "r").get "ack"
    if s.op.get "enc" == "garbage" then
      ({ d with f := after }, (cmpCons (a.cmp s.lineNo "cons.recv.ack" "error" ack) s.lineNo st after))
    else
      let ups := if s.op.get "nil" == "1" then none else some (toVals (s.op.pairs "upd"))
      let chan := if s.op.has "ch" then s.op.get "ch" else "channel-0"
      let r := onRecvVSC rankOf st chan (s.op.nat "id") ups (s.op.natList "acks")
      match r.2 with
      | .panic => ({ d with f := after }, (a.tag "recv-panic").cmp s.lineNo "cons.recv.res" "panic" res)
      | .errorAck => ({ d with f := after }, cmpCons ((a.tag "recv-error").cmp s.lineNo "cons.recv.ack" "error" ack) s.lineNo st after)
      | .ok =>
        let a := { (a.tag "recv-ok").cmp s.lineNo "cons.recv.ack" "ok" ack with nontrivial := a.nontrivial + 1 }
        let a := cmpCons a s.lineNo r.1 after
        let d' := { d with f := after, recv := d.recv ++ [(st.height, s.op.nat "id")] }
        let t := consStateOf d'
        let a := a.spec s.lineNo "C08.acks-clear" (Spec.Cons.acksClear st t (s.op.natList "acks"))
        let a := a.spec s.lineNo "C01.accumulate-effect" (Spec.C01.accumOK (st.pending.getD []) (ups.getD []) (t.pending.getD []))
        (d', a.spec s.lineNo "C12.height-ids" (Spec.Cons.heightIds t.h2v d'.recv))
  | "cslash" =>
    let st := consStateOf d
    let inf := match s.op.get "kind" with | "dt" => 2 | "ds" => 1 | _ => 0
    let m := slash st (s.op.nat "key") (s.op.nat "power") (s.op.nat "ih") inf
    let a := cmpCons (a.cmp s.lineNo "cons.cslash.res" "ok" res) s.lineNo m after
    let d' := { d with f := after }
    let t := consStateOf d'
    let a := if inf == 2 then { a with nontrivial := a.nontrivial + 1 } else a
    let a := a.spec s.lineNo "C08.downtime-once" (Spec.Cons.downtimeOnce st t (s.op.nat "key") inf)
    (d', a.spec s.lineNo "C12.slash-carries-id" (Spec.Cons.slashCarriesId st t (s.op.nat "ih")))
  | "cqueuematured" =>
    let st := consStateOf d
    ({ d with f := after }, cmpCons a s.lineNo { st with queue := st.queue ++ [.matured (s.op.nat "id")] } after)
  | "cend" =>
    let st := consStateOf d
    let r := endBlock st
    let o := s.ob "r"
    let implSent := parseSentC (o.get "sent")
    let implRet := toVals (parsePairs (o.get "ret"))
    let a := a.cmp s.lineNo "cons.cend.res" "ok" res
    let a := if o.get "rep" != "" then (a.tag "replicas-compared").spec s.lineNo "C18.replicas-agree" (o.get "rep" == "same") (o.get "rep") else a
    let a := a.cmp s.lineNo "cons.cend.sent" (renderQueue r.2.1) (renderQueue implSent)
    let a := a.cmp s.lineNo "cons.cend.ret" (fmtPairs (ofVals r.2.2)) (o.get "ret")
    let a := cmpCons a s.lineNo r.1 after
    -- reward distribution (EndBlockRD runs first in EndBlock)
    let a := if d.rparams.has "frac" then
        let cr := crOf d.f
        let allowed := (d.rparams.get "denoms").splitOn "+" |>.filter (· != "")
        let frac := parseDec18 (d.rparams.get "frac")
        let m := Rewards.endBlockRD cr st.height frac (d.rparams.nat "bpdt") allowed (cget d.f "tchopen" == "1") (s.op.nat "tfail")
        let a := cmpCR a s.lineNo m.1 after
        let effT := ((if o.get "effects" == "" then [] else (o.get "effects").splitOn "|").filter (·.startsWith "transfer_"))
        let implT := effT.map fun t => ((t.splitOn "_").getD 1 "") ++ "/" ++ ((t.splitOn "_").getD 2 "")
        let a := a.cmp s.lineNo "cons.transfers" (",".intercalate (m.2.map fun e => s!"{e.2}{e.1}/ch={d.rparams.get "tch"}")) (",".intercalate implT)
        let a := if !m.2.isEmpty then { (a.tag "rewards-sent") with nontrivial := a.nontrivial + 1 } else a
        let a := if !cr.fc.isEmpty then a.tag "fees-split" else a
        let a := if s.op.nat "tfail" != 0 && m.2.isEmpty && cget d.f "tchopen" == "1" && decide (st.height ≥ cr.ltbh + d.rparams.nat "bpdt")
                    && !(Rewards.sendRewards (Rewards.distributeInternally cr frac) allowed true 0).2.isEmpty
                 then a.tag "rewards-send-rolled-back" else a
        -- C16 clauses on the implementation's own balances
        let cr' := crOf after
        let denoms := ["stake", "photon", "mote"]
        let tot := fun (x : Rewards.CRState) (dn : String) => Rewards.getBal x.fc dn + Rewards.getBal x.redis dn + Rewards.getBal x.toSend dn + Rewards.getBal x.escrow dn
        let a := a.spec s.lineNo "C16.cons-conserved" (denoms.all fun dn => tot cr dn == tot cr' dn) s!"before={repr cr} after={repr cr'}"
        let a := a.spec s.lineNo "C16.cons-split-exact" (denoms.all fun dn =>
          Rewards.getBal cr'.redis dn == Rewards.getBal cr.redis dn + Rewards.consumerShare (Rewards.getBal cr.fc dn) frac && Rewards.getBal cr'.fc dn == 0)
          s!"before={repr cr} after={repr cr'}"
        let a := a.spec s.lineNo "C16.cons-allowed-denoms-only" (denoms.all fun dn =>
          allowed.contains dn || Rewards.getBal cr'.escrow dn == Rewards.getBal cr.escrow dn) s!"allowed={allowed}"
        let a := a.spec s.lineNo "C16.cons-send-only-when-open-and-due" (denoms.all fun dn =>
          Rewards.getBal cr'.escrow dn == Rewards.getBal cr.escrow dn || (cget d.f "tchopen" == "1" && decide (st.height ≥ cr.ltbh + d.rparams.nat "bpdt")))
        let a := a.spec s.lineNo "C16.cons-memo-names-consumer" (effT.all fun t => (t.splitOn "\"consumerId\":\"7\"").length == 2)
        a
      else a
    let d' := { d with f := after }
    let t := consStateOf d'
    let a := if !implSent.isEmpty || st.pending.isSome then { a with nontrivial := a.nontrivial + 1 } else a
    let a := a.spec s.lineNo "C09.no-send-while-blocked" (Spec.Cons.noSendWhileBlocked st implSent)
    let a := a.spec s.lineNo "C09.send-shape" (Spec.Cons.sendShape st t implSent)
    let a := a.spec s.lineNo "C08.flags-survive-apply" (Spec.Cons.flagsSurviveApply st t) s!"before={st.outstanding} after={t.outstanding}"
    let a := a.spec s.lineNo "C09.send-when-permitted" (Spec.Cons.sendWhenPermitted st implSent)
      s!"queue={renderQueue st.queue} record={cget d.f "record"} now={st.now} retry={st.retryDelay}"
    let a := a.spec s.lineNo "C01.applycc-effect" (Spec.C01.applyOK st.cc (st.pending.getD []) implRet t.cc)
    let engine := (applyCC d.engine implRet).1
    let a := a.spec s.lineNo "C01.engine-equals-store" (fmtPairs (ofVals (canonVals engine)) == fmtPairs (ofVals (canonVals t.cc)))
    ({ d' with engine := engine }, a)
  | "cmkconn" | "cchanclose" => ({ d with f := after }, cmpCons a s.lineNo (consStateOf d) after)
  | "cchaninit" =>
    let st := consStateOf d
    let connClient := fun (h : String) =>
      ((cget d.f "conns").splitOn ",").findSome? fun t => match t.splitOn ":" with | [c, cl] => if c == h then some cl else none | _ => none
    let pc := if cget d.f "pclient" == "-" || cget d.f "pclient" == "" then none else some (cget d.f "pclient")
    let hops := (s.op.get "hops").splitOn "," |>.filter (· != "")
    let ver := (s.op.get "ver").replace "_" " "
    let okM := chanOpenInit st (s.op.get "order" == "ORDERED") (s.op.get "port") (s.op.get "cport") ver hops connClient pc
    let a := (a.tag (if okM then "cons-chaninit-ok" else "cons-chaninit-rejected")).cmp s.lineNo "cons.chaninit.res" (if okM then "ok" else "err") res
    -- C17: whatever the consumer ACCEPTS is an ordered consumer→provider channel, supported version, one hop over
    -- the recorded provider client, and no provider channel is established yet
    let a := a.spec s.lineNo "C17.cons-init-accept-only-if"
      (res != "ok" || (st.pchan.isNone && s.op.get "order" == "ORDERED" && s.op.get "port" == "consumer" && s.op.get "cport" == "provider" &&
        (ver == "1" || blank ver) && (match hops with | [h] => pc.isSome && connClient h == pc | _ => false)))
      s!"{s.op.kv}"
    let a := if okM then { a with nontrivial := a.nontrivial + 1 } else a
    ({ d with f := after }, cmpCons a s.lineNo st after)
  | "cchantry" | "cchanconfirm" =>
    let a := a.cmp s.lineNo "cons.chantry.res" "err" res
    ({ d with f := after }, cmpCons (a.spec s.lineNo "C17.cons-never-accepts-foreign-handshake" (res != "ok")) s.lineNo (consStateOf d) after)
  | "cchanack" =>
    let st := consStateOf d
    let md := if s.op.get "md" == "garbage" then none else some (s.op.get "md")
    let okM := chanOpenAck st md ((s.ob "r").get "tch" == "1") ((s.ob "r").get "known" == "1")
    let a := (a.tag (if okM then "cons-chanack-ok" else "cons-chanack-rejected")).cmp s.lineNo "cons.chanack.res" (if okM then "ok" else "err") res
    let a := a.spec s.lineNo "C17.cons-ack-only-without-channel" (res != "ok" || (st.pchan.isNone && md == some "1"))
    ({ d with f := after }, cmpCons a s.lineNo st after)
  | "ccloseinit" =>
    let st := consStateOf d
    let okM := chanCloseInit st (s.op.get "ch")
    let a := a.cmp s.lineNo "cons.closeinit.res" (if okM then "ok" else "err") res
    ({ d with f := after }, cmpCons (a.spec s.lineNo "C17.cons-provider-channel-not-closable" (res != "ok" || st.pchan != some (s.op.get "ch"))) s.lineNo st after)
  | "cfees" =>
    let cr := crOf d.f
    let m := { cr with fc := Rewards.addBal cr.fc (s.op.get "denom") (s.op.nat "amt") }
    ({ d with f := after }, cmpCR a s.lineNo m after)
  | "crefund" =>
    let cr := crOf d.f
    let dn := s.op.get "denom"
    let amt := s.op.nat "amt"
    let m := if res == "ok" then { cr with escrow := Rewards.setBal cr.escrow dn (Rewards.getBal cr.escrow dn - amt), toSend := Rewards.addBal cr.toSend dn amt } else cr
    ({ d with f := after }, cmpCR (a.tag "refund") s.lineNo m after)
  | "ctch" =>
    ({ d with f := after }, cmpCR a s.lineNo (crOf d.f) after)
  | "cack" =>
    let st := consStateOf d
    let isSlash := (s.ob "r").get "pkt" == "slash"
    if (s.ob "r").get "pkt" == "" then ({ d with f := after }, a) else
    let kind : AckKind := match s.op.get "res" with | "handled" => .handled | "bounced" => .bounced | "v1" => .v1 | _ => .error
    if kind == .error then ({ d with f := after }, a.tag "ack-error")
    else
      match onAck st isSlash kind with
      | none => ({ d with f := after }, (a.tag "ack-fails").cmp s.lineNo "cons.cack.res" "panic" res)
      | some m =>
        let a := cmpCons ((a.tag ("ack-" ++ s.op.get "res")).cmp s.lineNo "cons.cack.res" "ok" res) s.lineNo m after
        let d' := { d with f := after }
        let a := { a with nontrivial := a.nontrivial + 1 }
        (d', a.spec s.lineNo "C09.ack-effect" (Spec.Cons.ackEffect st (consStateOf d') isSlash (s.op.get "res")))
  | _ => ({ d with f := after }, a)

end ICS.Driver
