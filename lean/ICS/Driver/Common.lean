import ICS.Util
namespace ICS.Driver
open ICS

/-- result accumulator of a driver run -/
structure Acc where
  ops        : Nat := 0
  checks     : Nat := 0
  mismatches : List String := []
  specfails  : List String := []
  tags       : List (String × Nat) := []
  nontrivial : Nat := 0

def Acc.tag (a : Acc) (t : String) : Acc :=
  match a.tags.find? (·.1 == t) with
  | some _ => { a with tags := a.tags.map fun p => if p.1 == t then (p.1, p.2 + 1) else p }
  | none => { a with tags := a.tags ++ [(t, 1)] }

def Acc.mismatch (a : Acc) (lineNo : Nat) (field model impl : String) : Acc :=
  { a with mismatches := a.mismatches ++ [s!"MISMATCH line={lineNo} field={field} model={model} impl={impl}"] }

def Acc.specfail (a : Acc) (lineNo : Nat) (clause detail : String) : Acc :=
  { a with specfails := a.specfails ++ [s!"SPECFAIL line={lineNo} clause={clause} {detail}"] }

/-- compare a model value with the implementation's, as strings -/
def Acc.cmp (a : Acc) (lineNo : Nat) (field model impl : String) : Acc :=
  let a := { a with checks := a.checks + 1 }
  if model == impl then a else a.mismatch lineNo field model impl

def Acc.spec (a : Acc) (lineNo : Nat) (clause : String) (ok : Bool) (detail : String := "") : Acc :=
  let a := { a with checks := a.checks + 1 }
  if ok then a else a.specfail lineNo clause detail

def Acc.report (a : Acc) : String :=
  let tags := ",".intercalate (a.tags.map fun p => s!"{p.1}:{p.2}")
  let body := "\n".intercalate (a.mismatches ++ a.specfails)
  let summary := s!"SUMMARY ops={a.ops} checks={a.checks} mismatches={a.mismatches.length} specfails={a.specfails.length} nontrivial={a.nontrivial} tags={tags}"
  if body == "" then summary else body ++ "\n" ++ summary

/-- pair up each `op` line with the `obs` lines that follow it -/
structure Step where
  lineNo : Nat
  op     : Line
  obs    : List Line

def groupSteps (ls : List (Nat × Line)) : List Step :=
  let rec go (ls : List (Nat × Line)) (cur : Option Step) (acc : List Step) : List Step :=
    match ls with
    | [] => match cur with
      | some s => (s :: acc).reverse
      | none => acc.reverse
    | (n, l) :: rest =>
      if l.kind == "op" then
        let acc := match cur with
          | some s => s :: acc
          | none => acc
        go rest (some { lineNo := n, op := l, obs := [] }) acc
      else if l.kind == "obs" then
        match cur with
        | some s => go rest (some { s with obs := s.obs ++ [l] }) acc
        | none => go rest none acc
      else go rest cur acc
  go ls none []

def Step.ob (s : Step) (name : String) : Line :=
  match s.obs.find? (·.name == name) with
  | some l => l
  | none => default

end ICS.Driver
