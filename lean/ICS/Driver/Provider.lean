import ICS.Driver.Common
import ICS.Model.Provider
import ICS.Spec.Prov
import ICS.Spec.Epoch
import ICS.Spec.C12
import ICS.Spec.C15
import ICS.Spec.Slash
import ICS.Spec.C01
import ICS.Spec.C16
import ICS.Spec.C07
namespace ICS.Driver
open ICS ICS.Provider ICS.Epoch

/-! parsing of the harness' state observations into the model state, and rendering back -/

abbrev Fields := List (String × String)

def Fields.get (f : Fields) (k : String) : String :=
  match f.find? (·.1 == k) with
  | some p => p.2
  | none => ""

def Fields.setAll (f : Fields) (kv : Fields) : Fields :=
  kv.foldl (fun f p => if f.any (·.1 == p.1) then f.map (fun q => if q.1 == p.1 then p else q) else f ++ [p]) f

def splitNE (s : String) (sep : String) : List String := if s == "" then [] else s.splitOn sep

def optStr (s : String) : Option String := if s == "-" || s == "" then none else some s
def optNat (s : String) : Option Nat := if s == "-" || s == "" then none else some (nat0 s)
def optInt (s : String) : Option Int := if s == "-" || s == "" then none else some (int0 s)

def parsePSStr (s : String) : Option PS :=
  match s.splitOn "/" with
  | [a, b, c, d, e] => some { topN := (nat0 a), setCap := (nat0 b), powCap := (nat0 c), minStake := (nat0 d), inactive := e == "1" }
  | _ => none

def renderPS (p : Option PS) : String :=
  match p with
  | none => "-"
  | some p => s!"{p.topN}/{p.setCap}/{p.powCap}/{p.minStake}/{if p.inactive then 1 else 0}"

def parseCVals (s : String) : List CVal :=
  (splitNE s ",").filterMap fun t =>
    match t.splitOn ":" with
    | [a, b, c, d] => some { v := (nat0 a), key := (nat0 b), power := (nat0 c), join := (nat0 d) }
    | _ => none

def renderCVals (l : List CVal) : String :=
  ",".intercalate (l.map fun c => s!"{c.v}:{c.key}:{c.power}:{c.join}")

def parseUpd (s : String) (sep : String) : List ValSet.Update :=
  (splitNE s sep).filterMap fun t =>
    match t.splitOn ":" with
    | [a, b] => some { key := (nat0 a), power := (nat0 b) }
    | _ => none

def renderUpd (l : List ValSet.Update) (sep : String) : String :=
  sep.intercalate (l.map fun u => s!"{u.key}:{u.power}")

def parseSJ (s : String) : Option SlashJail :=
  match s.splitOn ":" with
  | [a, b, c] => some { frac := a, jail := (int0 b), tomb := c == "1" }
  | _ => none

def renderSJ (s : Option SlashJail) : String :=
  match s with
  | none => "nil"
  | some s => s!"{s.frac}:{s.jail}:{if s.tomb then 1 else 0}"

def parseInfrStr (s : String) : Option Infr :=
  match s.splitOn "/" with
  | [a, b] => some { ds := parseSJ a, dt := parseSJ b }
  | _ => none

def renderInfr (i : Option Infr) : String :=
  match i with
  | none => "-"
  | some i => renderSJ i.ds ++ "/" ++ renderSJ i.dt

def parseTQ (s : String) : TimeQueue :=
  (splitNE s ",").filterMap fun t =>
    match t.splitOn ":" with
    | [a, b] => some ((int0 a), splitNE b "+")
    | _ => none

def renderTQ (q : TimeQueue) : String :=
  ",".intercalate (q.map fun e => s!"{e.1}:{"+".intercalate e.2}")

def parsePairsNat (s : String) : List (Nat × Nat) := parsePairs s

def parsePend (s : String) : List Packet :=
  (splitNE s ";").filterMap fun t =>
    match t.splitOn "/" with
    | [a, b] => some { id := (nat0 a), updates := parseUpd b "+" }
    | [a, b, c] => some { id := (nat0 a), updates := parseUpd b "+", acks := (splitNE c "+").map nat0 }
    | _ => none

def renderPend (l : List Packet) : String :=
  ";".intercalate (l.map fun p => s!"{p.id}/{renderUpd p.updates "+"}/{"+".intercalate (p.acks.map toString)}")

def parsePrune (s : String) : List (Time × List Nat) :=
  (splitNE s ",").filterMap fun t =>
    match t.splitOn ":" with
    | [a, b] => some ((int0 a), (splitNE b "+").map nat0)
    | _ => none

def renderPrune (l : List (Time × List Nat)) : String :=
  ",".intercalate (l.map fun e => s!"{e.1}:{"+".intercalate (e.2.map toString)}")

def parseStrPairs (s : String) : List (String × String) :=
  (splitNE s ",").filterMap fun t =>
    match t.splitOn ":" with
    | [a, b] => some (a, b)
    | _ => none

def renderStrPairs (l : List (String × String)) : String :=
  ",".intercalate (l.map fun e => s!"{e.1}:{e.2}")

def parseGenesis (s : String) : Option (List ValSet.Update) :=
  if s == "-" || s == "" then none
  else match s.splitOn "/" with
    | a :: _ => some (parseUpd a "+")
    | _ => none

def chainRevOf (revs : Fields) (chain : String) : Nat := (nat0 (revs.get chain))

def consumerOfFields (id : String) (f : Fields) (revs : Fields) : Consumer :=
  { id := id,
    phase := Phase.fromNat (nat0 (f.get "phase")),
    owner := f.get "owner", chain := f.get "chain", chainRev := chainRevOf revs (f.get "chain"),
    hasInit := f.get "spawn" != "-",
    spawn := (optInt (f.get "spawn")).getD 0, conn := if f.get "conn" == "-" then "" else f.get "conn",
    initRev := (nat0 (f.get "initrev")),
    ps := parsePSStr (f.get "ps"),
    allow := parseNatList (f.get "allow"), deny := parseNatList (f.get "deny"), prio := parseNatList (f.get "prio"),
    optin := parseNatList (f.get "optin"), valset := parseCVals (f.get "valset"),
    client := optStr (f.get "client"), channel := optStr (f.get "channel"),
    removal := optInt (f.get "removal"), minpow := optNat (f.get "minpow"),
    pend := parsePend (f.get "pend"), acks := parseNatList (f.get "acks"),
    ka := parsePairsNat (f.get "ka"), byaddr := parsePairsNat (f.get "byaddr"), prune := parsePrune (f.get "prune"),
    infr := parseInfrStr (f.get "infr"), qinfr := parseInfrStr (f.get "qinfr"),
    initH := optNat (f.get "inith"), genesis := parseGenesis (f.get "genesis"), evmin := (nat0 (f.get "evmin")),
    commission := (parseStrPairs (f.get "commission")).map fun p => (nat0 p.1, p.2) }

def sortNat (l : List Nat) : List Nat := isort (fun a b => decide (a ≤ b)) l

/-- the fields of a consumer the lifecycle model predicts, rendered like the harness prints them -/
def renderConsumer (x : Consumer) : Fields :=
  [("phase", toString x.phase.toNat), ("owner", if x.phase == .unspecified then "-" else x.owner),
   ("chain", if x.phase == .unspecified then "-" else x.chain),
   ("spawn", if x.hasInit then toString x.spawn else "-"), ("conn", if x.hasInit then x.conn else "-"),
   ("ps", renderPS x.ps),
   ("allow", fmtNatList (sortNat x.allow)), ("deny", fmtNatList (sortNat x.deny)), ("prio", fmtNatList (sortNat x.prio)),
   ("optin", fmtNatList (sortNat x.optin)),
   ("client", x.client.getD "-"), ("channel", x.channel.getD "-"),
   ("removal", match x.removal with | some t => toString t | none => "-"),
   ("minpow", match x.minpow with | some t => toString t | none => "-"),
   ("infr", renderInfr x.infr), ("qinfr", renderInfr x.qinfr),
   ("ka", ",".intercalate (isort (fun a b => decide (a ≤ b)) (x.ka.map fun p => s!"{p.1}:{p.2}"))),
   ("byaddr", ",".intercalate (isort (fun a b => decide (a ≤ b)) (x.byaddr.map fun p => s!"{p.1}:{p.2}"))),
   ("prune", renderPrune x.prune),
   ("inith", match x.initH with | some t => toString t | none => "-"),
   ("evmin", toString x.evmin)]

def parseStk (s : String) : List SVal :=
  (splitNE s ",").filterMap fun t =>
    match t.splitOn ":" with
    | [a, b, c, d, e, f, g] =>
      some { id := (nat0 a), tokens := (nat0 b), status := (nat0 c), jailed := d == "1", lastPower := (nat0 e),
             tomb := f == "1", jailedUntil := (int0 g) }
    | _ => none

/-- everything the driver knows about the implementation's current state -/
structure ProvImpl where
  g     : Fields := []
  cs    : List (String × Fields) := []
  revs  : Fields := []        -- chain id ↦ revision (environment fact printed by the harness)
  conns : Fields := []        -- connection id ↦ "client|chain|height"
  chans : Fields := []        -- channel id ↦ connection hops
  envs  : Fields := []        -- other environment facts (throttle parameters)
  unb   : Int := 0
  maxVals : Nat := 100

def ProvImpl.cfields (p : ProvImpl) (c : String) : Fields :=
  match p.cs.find? (·.1 == c) with
  | some e => e.2
  | none => []

def ProvImpl.absorb (p : ProvImpl) (obs : List Line) : ProvImpl :=
  obs.foldl (fun p l =>
    if l.name == "g" then { p with g := p.g.setAll l.kv }
    else if l.name == "st" then
      let c := l.get "c"
      let f := (p.cfields c).setAll (l.kv.filter (·.1 != "c"))
      if p.cs.any (·.1 == c) then { p with cs := p.cs.map fun e => if e.1 == c then (c, f) else e }
      else { p with cs := p.cs ++ [(c, f)] }
    else if l.name == "env" then
      { p with revs := p.revs.setAll (l.kv.filterMap fun kv => if kv.1.startsWith "rev." then some ((kv.1.drop 4).toString, kv.2) else none),
               conns := p.conns.setAll (l.kv.filterMap fun kv => if kv.1.startsWith "conn." then some ((kv.1.drop 5).toString, kv.2) else none),
               envs := p.envs.setAll (l.kv.filter fun kv => !kv.1.startsWith "rev." && !kv.1.startsWith "conn." && !kv.1.startsWith "chan."),
               chans := p.chans.setAll (l.kv.filterMap fun kv => if kv.1.startsWith "chan." then some ((kv.1.drop 5).toString, kv.2) else none) }
    else p) p

def ProvImpl.toState (p : ProvImpl) : State :=
  let par := (p.g.get "params").splitOn "/"
  { consumers := p.cs.map fun e => consumerOfFields e.1 e.2 p.revs,
    nextId := (nat0 (p.g.get "nextid")),
    spawnQ := parseTQ (p.g.get "spawnq"), removeQ := parseTQ (p.g.get "removeq"), infrQ := parseTQ (p.g.get "infrq"),
    vscId := (nat0 (p.g.get "vscid")),
    client2c := parseStrPairs (p.g.get "client2c"), chan2c := parseStrPairs (p.g.get "chan2c"),
    stk := parseStk (p.g.get "stk"), bonded := parseNatList (p.g.get "bonded"),
    maxVals := p.maxVals,
    m := (nat0 (par.getD 0 "0")), epoch := (nat0 (par.getD 1 "1")),
    unbonding := p.unb, now := (int0 (p.g.get "now")), height := (nat0 (p.g.get "h")),
    nextClient := (nat0 (p.g.get "nextclient")) }

def renderGlobal (s : State) : Fields :=
  [("nextid", toString s.nextId), ("spawnq", renderTQ s.spawnQ), ("removeq", renderTQ s.removeQ),
   ("infrq", renderTQ s.infrQ), ("client2c", renderStrPairs (isort (fun a b => decide (a.1 ≤ b.1)) s.client2c)),
   ("chan2c", renderStrPairs (isort (fun a b => decide (a.1 ≤ b.1)) s.chan2c))]

/-- compare the model's predicted state with the implementation's, on the given consumer fields -/
def compareState (a : Acc) (lineNo : Nat) (model : State) (impl : ProvImpl) (fields : List String)
    (gfields : List String) : Acc :=
  let a := gfields.foldl (fun a k =>
    a.cmp lineNo ("g." ++ k) ((renderGlobal model).get k) (impl.g.get k)) a
  impl.cs.foldl (fun a e =>
    let mf := renderConsumer (model.get e.1)
    fields.foldl (fun a k => a.cmp lineNo s!"c{e.1}.{k}" (mf.get k) (e.2.get k)) a) a

def lifecycleFields : List String :=
  ["phase", "owner", "chain", "spawn", "conn", "ps", "allow", "deny", "prio", "optin", "client", "channel",
   "removal", "minpow", "infr", "qinfr", "ka", "byaddr", "prune", "inith", "evmin"]

def lifecycleGlobals : List String := ["nextid", "spawnq", "removeq", "infrq", "client2c", "chan2c"]

def parseInitArgs (l : Line) : Option InitArgs :=
  if l.get "init" == "1" then
    some { spawn := (int0 (l.get "spawn")), conn := l.get "conn", rev := if l.has "rev" then l.nat "rev" else 1 }
  else none

def parsePSArgs (l : Line) : Option PSArgs :=
  if l.get "ps" == "1" then
    let ps : PS := {
      topN := l.nat "topn", setCap := l.nat "setcap", powCap := l.nat "powcap", minStake := l.nat "minstake",
      inactive := l.get "inactive" == "1" }
    some { ps := ps, allow := l.natList "allow", deny := l.natList "deny", prio := l.natList "prio" }
  else none

def parseSJArg (s : String) : Option SlashJail :=
  match s.splitOn ":" with
  | [a, b, c] => some { frac := a, jail := (int0 b), tomb := c == "1" }
  | [a, b] => some { frac := a, jail := (int0 b), tomb := false }
  | _ => none

def parseInfrArgs (l : Line) : Option Infr :=
  if l.get "infr" == "1" then
    some { ds := if l.has "ds" then parseSJArg (l.get "ds") else none,
           dt := if l.has "dt" then parseSJArg (l.get "dt") else none }
  else none

def parseBal (s : String) : Rewards.Bal :=
  (splitNE s ",").filterMap fun t => match t.splitOn ":" with | [a, b] => some (a, nat0 b) | _ => none

def renderBal (b : Rewards.Bal) : String :=
  ",".intercalate ((isort (fun (a b : String × Nat) => decide (a.1 ≤ b.1)) b).map fun e => s!"{e.1}:{e.2}")

def creditsOf (p : ProvImpl) : Rewards.Credits :=
  p.cs.flatMap fun e => (parseBal (e.2.get "alloc")).map fun a => ((e.1, a.1), a.2)

def renderAlloc (cr : Rewards.Credits) (c : String) : String :=
  ",".intercalate ((["stake", "photon", "mote"].filterMap fun d =>
    let v := Rewards.getCredit cr c d
    if v == 0 then none else some s!"{d}:{v}"))

def parseDecStr (s : String) : Nat :=
  match s.splitOn "." with
  | [a, b] => nat0 a * 10^18 + nat0 (b ++ String.mk (List.replicate (18 - b.length) '0'))
  | [a] => nat0 a * 10^18
  | _ => 0

/-- "<amount><denom>" → (amount string, denom) -/
def splitCoin (s : String) : String × String :=
  let cs := s.toList
  let num := cs.takeWhile fun c => c.isDigit || c == '.'
  (String.mk num, String.mk (cs.drop num.length))

def renderDecCoin (amt : Nat) (denom : String) : String :=
  if amt == 0 then "" else decString amt ++ denom

def parseVote (s : String) : Equiv.Vote :=
  match s.splitOn "/" with
  | [sg, ad, ch, h, r, t, b, ok] =>
    { signer := nat0 sg, addr := nat0 ad, chain := ch, height := nat0 h, round := nat0 r, type := nat0 t, block := nat0 b, sigOK := ok == "1" }
  | _ => default

def parseUnb (s : String) : List Equiv.Unb :=
  (splitNE s ",").filterMap fun t =>
    match t.splitOn ":" with
    | [v, k, a, c, h] => some { v := nat0 v, isRed := k == "r", amount := nat0 a, completion := int0 c, onHold := h == "1" }
    | _ => none

def renderEqEffect : Equiv.Effect → String
  | .slash v p f => s!"slash_v={v}_h=0_power={p}_frac={f}_inf=1"
  | .jail v => s!"jail_v={v}"
  | .jailUntil v t => s!"jailuntil_v={v}_t={t}"
  | .tombstone v => s!"tombstone_v={v}"

def parseEqEffect (t : String) : Option Equiv.Effect :=
  let kv := (t.splitOn "_").map fun x => match x.splitOn "=" with | [a, b] => (a, b) | _ => (x, "")
  let g := fun k => match kv.find? (·.1 == k) with | some p => p.2 | none => ""
  match (kv.head?.map (·.1)).getD "" with
  | "slash" => some (.slash (nat0 (g "v")) (nat0 (g "power")) (g "frac"))
  | "jail" => some (.jail (nat0 (g "v")))
  | "jailuntil" => some (.jailUntil (nat0 (g "v")) (int0 (g "t")))
  | "tombstone" => some (.tombstone (nat0 (g "v")))
  | _ => none

/-- header spec "chain/height/round/state/data/flags" (flags in the order of `vals` on the op line)
    and the validator-set order printed by the harness -/
def parseHdr (spec : String) (vals : List (Nat × Nat)) (order : List Nat) : Equiv.Hdr :=
  match spec.splitOn "/" with
  | [ch, h, r, st, dt, fl] =>
    let flags := fl.toList
    let flagOf := fun (k : Nat) => match vals.findIdx? (·.1 == k) with | some i => flags.getD i 'a' | none => 'a'
    { chain := ch, height := nat0 h, round := nat0 r, state := nat0 st, data := nat0 dt,
      vals := order.filterMap fun k => (vals.find? (·.1 == k)),
      sigs := order.map fun k =>
        let c := flagOf k
        { key := k, flag := if c == 'a' then .absent else if c == 'n' then .nil else .commit,
          sigOK := c == 'c' || c == 'n' } }
  | _ => default

structure ProvDrv where
  impl : ProvImpl := {}
  engine : List ValSet.Val := []      -- the consensus engine's view: all returned updates folded
  armed  : Bool := false              -- a failure of an external call is armed for the next block operation
  firstDue : List (String × Int) := []  -- consumer ↦ removal time scheduled by its FIRST stop
  legit : List (String × List Nat) := []  -- consumer ↦ validators that opted in themselves or were required by Top-N at some epoch

def launchEnvOf (impl : ProvImpl) (s : State) (c : CId) : LaunchEnv :=
  let x := s.get c
  if x.conn == "" then {}
  else
    match (impl.conns.get x.conn).splitOn "|" with
    | [cl, ch, h] => { connClient := some (cl, ch, (nat0 h)) }
    | _ => {}

/-- one step of a provider stream: model prediction from the implementation's previous state,
    compared with the implementation's next state -/
def stepProvCore (d : ProvDrv) (a : Acc) (s : Step) : ProvDrv × Acc :=
  let before := d.impl
  -- environment facts printed before the operation executes belong to the pre-state
  let before := before.absorb (s.obs.filter (·.name == "env"))
  let after := before.absorb (s.obs.filter (·.name != "env"))
  let res := (s.ob "r").get "res"
  let st := before.toState
  let a := a.tag s.op.name
  match s.op.name with
  | "init" =>
    ({ impl := { after with unb := s.op.int "unb", maxVals := s.op.nat "maxvals" } }, a)
  | "stkmax" => ({ impl := { after with maxVals := s.op.nat "n" } }, a)
  | "create" =>
    let args : CreateArgs := {
      sender := s.op.get "s", chain := s.op.get "chain",
      chainRev := chainRevOf before.revs (s.op.get "chain"), init := parseInitArgs s.op, ps := parsePSArgs s.op,
      infr := parseInfrArgs s.op }
    match createConsumer st args with
    | none => ({ impl := after }, (a.tag "create-rejected").cmp s.lineNo "create.res" "err" res)
    | some (st', c) =>
      let a := (a.tag "create-ok").cmp s.lineNo "create.res" "ok" res
      let a := a.cmp s.lineNo "create.id" c ((s.ob "r").get "id")
      let a := { a with nontrivial := a.nontrivial + 1 }
      ({ impl := after }, if res == "ok" then compareState a s.lineNo st' after lifecycleFields lifecycleGlobals else a)
  | "update" =>
    let no := if s.op.has "newowner" then some (if s.op.get "newowner" == "bad" then "" else s.op.get "newowner") else none
    let args : UpdateArgs := {
      sender := s.op.get "s", c := s.op.get "c", newOwner := no,
      newChain := s.op.get "newchain", newChainRev := chainRevOf before.revs (s.op.get "newchain"),
      init := parseInitArgs s.op, ps := parsePSArgs s.op, infr := parseInfrArgs s.op }
    match updateConsumer st args with
    | none => ({ impl := after }, (a.tag "update-rejected").cmp s.lineNo "update.res" "err" res)
    | some st' =>
      let a := (a.tag "update-ok").cmp s.lineNo "update.res" "ok" res
      let a := { a with nontrivial := a.nontrivial + 1 }
      ({ impl := after }, if res == "ok" then compareState a s.lineNo st' after lifecycleFields lifecycleGlobals else a)
  | "remove" =>
    match removeConsumer st (s.op.get "s") (s.op.get "c") with
    | none => ({ impl := after }, (a.tag "remove-rejected").cmp s.lineNo "remove.res" "err" res)
    | some st' =>
      let a := (a.tag "remove-ok").cmp s.lineNo "remove.res" "ok" res
      let a := { a with nontrivial := a.nontrivial + 1 }
      ({ impl := after }, if res == "ok" then compareState a s.lineNo st' after lifecycleFields lifecycleGlobals else a)
  | "begin" =>
    -- the block header is advanced first
    let st := { st with now := st.now + s.op.int "dt", height := st.height + s.op.nat "dh" }
    match beginBlockLaunch? st (launchEnvOf before st) with
    | none => ({ impl := after }, (a.tag "begin-fails").cmp s.lineNo "begin.res" "err" res)
    | some st1 =>
    let st2 := beginBlockRemove st1
    let st3 := beginBlockInfraction st2
    let a := a.cmp s.lineNo "begin.res" "ok" res
    -- BeginBlockCIS: slash meter replenishment (total power as staking reports it at this moment)
    let thr : Throttle := { meter := int0 (before.g.get "meter"), candidate := int0 (before.g.get "cand"),
                            period := int0 (before.envs.get "period"), fracScaled := nat0 (before.envs.get "fracscaled") }
    let thr' := checkReplenish thr st.now (allowance thr (totalPower st))
    let a := a.cmp s.lineNo "begin.meter" (toString thr'.meter) (after.g.get "meter")
    let a := a.cmp s.lineNo "begin.cand" (toString thr'.candidate) (after.g.get "cand")
    let a := if thr'.meter != thr.meter then a.tag "meter-replenished" else a
    let thrA : Throttle := { thr with meter := int0 (after.g.get "meter"), candidate := int0 (after.g.get "cand") }
    let a := a.spec s.lineNo "C09.begin-block-meter" (Spec.Slash.beginBlockMeter thr thrA st.now (allowance thr (totalPower st)))
    -- BeginBlockRD: reward allocation (after launches / removals of this block)
    let tax := parseDecStr (before.g.get "tax")
    let eligBlocks := nat0 (before.g.get "rparams") * st.epoch
    let rcons := (consumersWithClients st3).map fun x =>
      (x.id, x.valset, splitNE ((before.cfields x.id).get "cdenoms") "+")
    let ar := if st.height > 1 then
        Rewards.allocateTokens rcons (splitNE (before.g.get "denoms") ",") (creditsOf before)
          (parseBal (before.g.get "pool")) (parseBal (before.g.get "distr")) (parseBal (before.g.get "cp")) tax st.height eligBlocks
      else { credits := creditsOf before, pool := parseBal (before.g.get "pool"), distr := parseBal (before.g.get "distr"),
             cp := parseBal (before.g.get "cp"), steps := [] }
    let a := a.cmp s.lineNo "begin.pool" (renderBal ar.pool) (after.g.get "pool")
    let a := a.cmp s.lineNo "begin.distr" (renderBal ar.distr) (after.g.get "distr")
    let a := a.cmp s.lineNo "begin.cp" (renderBal ar.cp) (after.g.get "cp")
    let a := after.cs.foldl (fun a e => a.cmp s.lineNo s!"c{e.1}.alloc" (renderAlloc ar.credits e.1) (e.2.get "alloc")) a
    let commissionOf := fun (c : String) (v : Nat) =>
      match (st3.get c).commission.find? (·.1 == v) with | some p => p.2 | none => "0.100000000000000000"
    let effM := ar.steps.flatMap fun stp =>
      (if stp.payout.sendsToDistr then [s!"banksend_consumer_rewards_pool->distribution_{if stp.payout.toDistr == 0 then "" else toString stp.payout.toDistr ++ stp.denom}"] else []) ++
      (stp.payout.pays.map fun p => s!"allocval_v={p.v}_{renderDecCoin p.amount stp.denom}_commission={commissionOf stp.consumer p.v}") ++
      (if stp.payout.fundsCP then [s!"fundcp_{if stp.payout.toCP == 0 then "" else toString stp.payout.toCP ++ stp.denom}"] else [])
    let effI := (splitNE ((s.ob "r").get "effects") "|").filter fun t =>
      t.startsWith "banksend_consumer_rewards_pool" || t.startsWith "allocval_" || t.startsWith "fundcp_"
    let a := a.cmp s.lineNo "begin.reward-effects" ("|".intercalate effM) ("|".intercalate effI)
    -- C16 clauses on the implementation's own balances, credits and distribution calls
    let paidI : List (String × Nat × Nat) := effI.filterMap fun t =>
      if t.startsWith "allocval_" then
        match t.splitOn "_" with
        | [_, v, coin, _] =>
          let (amt, dn) := splitCoin coin
          if dn == "" then none else some (dn, nat0 ((v.splitOn "=").getD 1 ""), parseDecStr amt)
        | _ => none
      else none
    let a := ["stake", "photon", "mote"].foldl (fun a dn =>
      let crOf := fun (p : ProvImpl) => ((creditsOf p).filter (·.1.2 == dn)).map (·.2) |>.sum
      let f : Spec.C16.DenomFlow :=
        { denom := dn,
          poolBefore := Rewards.getBal (parseBal (before.g.get "pool")) dn, poolAfter := Rewards.getBal (parseBal (after.g.get "pool")) dn,
          distrDelta := Rewards.getBal (parseBal (after.g.get "distr")) dn - Rewards.getBal (parseBal (before.g.get "distr")) dn,
          cpDelta := Rewards.getBal (parseBal (after.g.get "cp")) dn - Rewards.getBal (parseBal (before.g.get "cp")) dn,
          creditBefore := crOf before, creditAfter := crOf after,
          paid := (paidI.filter (·.1 == dn)).map fun p => ("", p.2.1, p.2.2) }
      let a := a.spec s.lineNo "C16.bank-conserved" (Spec.C16.bankConserved f) s!"{dn} pool {f.poolBefore}->{f.poolAfter} distr+{f.distrDelta} cp+{f.cpDelta}"
      let a := a.spec s.lineNo "C16.credit-conserved" (Spec.C16.creditConserved f) s!"{dn} credit {f.creditBefore}->{f.creditAfter} out {f.distrDelta + f.cpDelta}"
      let a := a.spec s.lineNo "C16.never-overpay" (Spec.C16.neverOverpay f) s!"{dn} paid {(f.paid.map (·.2.2)).sum} moved {f.distrDelta}"
      let a := a.spec s.lineNo "C16.nothing-dangling" (Spec.C16.nothingDangling f) s!"{dn} paid {(f.paid.map (·.2.2)).sum} moved {f.distrDelta}"
      let registered := (splitNE (before.g.get "denoms") ",").contains dn
      let creditsI := rcons.filterMap fun e =>
        if registered || e.2.2.contains dn then some (e.2.1, Rewards.getCredit (creditsOf before) e.1 dn) else none
      let a := a.spec s.lineNo "C16.paid-within-eligible-credits"
        (Spec.C16.paidWithinEligibleCredits ((paidI.filter (·.1 == dn)).map (·.2)) creditsI st.height eligBlocks) s!"{dn} paid {paidI.filter (·.1 == dn)}"
      -- nothing leaves the pool in a denom that is neither registered nor allow-listed by a credited consumer
      let a := a.spec s.lineNo "C16.allowed-denoms-only" (!creditsI.isEmpty || (f.poolAfter == f.poolBefore && f.creditAfter == f.creditBefore)) s!"{dn}"
      -- C13: a consumer's credit in a denom is touched only if the denom is registered or allow-listed by
      -- THAT consumer (another consumer's allow-list has no effect on it)
      let a := after.cs.foldl (fun a e =>
        let own := registered || (splitNE ((before.cfields e.1).get "cdenoms") "+").contains dn
        let cb := Rewards.getCredit (creditsOf before) e.1 dn
        let ca := Rewards.getCredit (creditsOf after) e.1 dn
        a.spec s.lineNo "C13.reward-allowlist-own-only" (own || ca == cb) s!"consumer={e.1} denom={dn} credit {cb}->{ca}") a
      a) a
    let a := if !ar.steps.isEmpty then { (a.tag "rewards-allocated") with nontrivial := a.nontrivial + 1 } else a
    let launched := st3.consumers.filter fun x => x.phase == .launched && (st.get x.id).phase != .launched
    let a := if launched.isEmpty then a else (a.tag "launch-ok")
    let a := if (st3.consumers.filter fun x => x.phase == .deleted && (st.get x.id).phase != .deleted).isEmpty then a else a.tag "deleted"
    let a := if st.spawnQ != st3.spawnQ || st.removeQ != st3.removeQ || st.infrQ != st3.infrQ then { a with nontrivial := a.nontrivial + 1 } else a
    ({ impl := after }, compareState a s.lineNo st3 after lifecycleFields lifecycleGlobals)
  | "assign" =>
    match msgAssignKey st (s.op.get "c") (s.op.nat "v") (s.op.nat "signer") (s.op.nat "key") with
    | none => ({ impl := after }, (a.tag "assign-rejected").cmp s.lineNo "assign.res" "err" res)
    | some st' =>
      let a := { (a.tag "assign-ok").cmp s.lineNo "assign.res" "ok" res with nontrivial := a.nontrivial + 1 }
      ({ impl := after }, if res == "ok" then compareState a s.lineNo st' after lifecycleFields lifecycleGlobals else a)
  | "optin" =>
    let key := if s.op.get "key" == "-" || s.op.get "key" == "" then none else some (s.op.nat "key")
    match msgOptIn st (s.op.get "c") (s.op.nat "v") (s.op.nat "signer") key with
    | none => ({ impl := after }, (a.tag "optin-rejected").cmp s.lineNo "optin.res" "err" res)
    | some st' =>
      let a := { (a.tag "optin-ok").cmp s.lineNo "optin.res" "ok" res with nontrivial := a.nontrivial + 1 }
      ({ impl := after }, if res == "ok" then compareState a s.lineNo st' after lifecycleFields lifecycleGlobals else a)
  | "optout" =>
    match msgOptOut st (s.op.get "c") (s.op.nat "v") (s.op.nat "signer") with
    | none => ({ impl := after }, (a.tag "optout-rejected").cmp s.lineNo "optout.res" "err" res)
    | some st' =>
      let a := { (a.tag "optout-ok").cmp s.lineNo "optout.res" "ok" res with nontrivial := a.nontrivial + 1 }
      ({ impl := after }, if res == "ok" then compareState a s.lineNo st' after lifecycleFields lifecycleGlobals else a)
  | "newval" =>
    let v := s.op.nat "v"
    if valExists st v then ({ impl := after }, a.cmp s.lineNo "newval.res" "err" res)
    else
      let inUse := validatorKeyInUse st v
      let a := (a.tag (if inUse then "newval-blocked" else "newval-ok")).cmp s.lineNo "newval.res" (if inUse then "panic" else "ok") res
      ({ impl := after }, compareState a s.lineNo st after lifecycleFields lifecycleGlobals)
  | "rmval" =>
    if !valExists st (s.op.nat "v") then ({ impl := after }, a.cmp s.lineNo "rmval.res" "err" res)
    else
      let st' := afterValidatorRemoved st (s.op.nat "v")
      let a := (a.tag "rmval-ok").cmp s.lineNo "rmval.res" "ok" res
      ({ impl := after }, compareState a s.lineNo st' after lifecycleFields lifecycleGlobals)
  | "recvslash" =>
    let thr : Throttle := { meter := int0 (before.g.get "meter"), candidate := int0 (before.g.get "cand"),
                            period := int0 (before.envs.get "period"), fracScaled := nat0 (before.envs.get "fracscaled") }
    let inf := match s.op.get "inf" with | "dt" => 2 | "ds" => 1 | _ => 0
    let p : SlashPkt := { key := s.op.nat "key", power := s.op.nat "power", vscId := s.op.nat "vsc", infraction := inf }
    let r := onRecvSlash st thr (parsePairs (before.g.get "vsc2h")) (s.op.get "ch") p
    let ack := (s.ob "r").get "ack"
    let ackM := match r.2.2.2 with
      | .panic => "panic" | .error => "error" | .v1 => "res1" | .handled => "res2" | .bounced => "res3"
    let a := a.tag ("slash-" ++ ackM)
    if ackM == "panic" then ({ impl := after }, a.cmp s.lineNo "recvslash.res" "panic" res)
    else
      let a := a.cmp s.lineNo "recvslash.ack" ackM ack
      let effM := "|".intercalate (r.2.2.1.map fun e => match e with
        | .slash v h pw fr => s!"slash_v={v}_h={h}_power={pw}_frac={fr}_inf=2"
        | .jail v => s!"jail_v={v}"
        | .jailUntil v t => s!"jailuntil_v={v}_t={t}")
      let a := a.cmp s.lineNo "recvslash.effects" effM ((s.ob "r").get "effects")
      let a := a.cmp s.lineNo "recvslash.meter" (toString r.2.1.meter) (after.g.get "meter")
      let a := if !r.2.2.1.isEmpty then { (a.tag "slash-jailed") with nontrivial := a.nontrivial + 1 } else a
      let a := if ackM == "res2" && r.2.2.1.isEmpty then
          match st.chan2c.find? (·.1 == s.op.get "ch") with
          | none => a
          | some e =>
            let x := st.get e.2
            let v := providerOf x p.key
            if x.phase != .launched then a.tag "slash-declined-not-launched"
            else if !(x.valset.any (·.v == v)) then a.tag "slash-declined-not-in-set"
            else match st.stk.find? (·.id == v) with
              | none => a.tag "slash-declined-no-validator"
              | some rr => if rr.jailed then a.tag "slash-declined-already-jailed"
                           else if rr.tomb then a.tag "slash-declined-tombstoned"
                           else if rr.status == 1 then a.tag "slash-declined-unbonded" else a.tag "slash-declined-other"
        else a
      let a := if r.2.2.1.any (fun e => match e with
          | .jail v => (st.stk.find? (·.id == v)).any (·.status == 2)
          | _ => false) then a.tag "slash-jailed-unbonding-validator" else a
      let a := after.cs.foldl (fun a e => a.cmp s.lineNo s!"c{e.1}.acks" (fmtNatList (r.1.get e.1).acks) (e.2.get "acks")) a
      -- Spec.Slash on the IMPLEMENTATION's observations
      let implEff : List StkEffect := (splitNE ((s.ob "r").get "effects") "|").filterMap fun t =>
        let kv := (t.splitOn "_").map fun x => (x.splitOn "=")
        let get := fun (k : String) => match kv.find? (fun p => p.head? == some k) with | some [_, v] => v | _ => ""
        if t.startsWith "slash_" then some (.slash (nat0 (get "v")) (nat0 (get "h")) (nat0 (get "power")) (get "frac"))
        else if t.startsWith "jailuntil_" then some (.jailUntil (nat0 (get "v")) (int0 (get "t")))
        else if t.startsWith "jail_" then some (.jail (nat0 (get "v")))
        else none
      let dl : Spec.Slash.Delivery := {
        before := st, after := after.toState, meterB := thr.meter, meterA := int0 (after.g.get "meter"),
        vsc2h := parsePairs (before.g.get "vsc2h"), chan := s.op.get "ch", pkt := p, ack := ack, effects := implEff }
      let a := a.spec s.lineNo "C08.jail-iff" (Spec.Slash.jailIff dl) s!"effects={(s.ob "r").get "effects"}"
      let a := a.spec s.lineNo "C08.double-sign-noop" (Spec.Slash.doubleSignNoop dl)
      let a := a.spec s.lineNo "C08.ack-cases" (Spec.Slash.ackCases dl)
      let a := a.spec s.lineNo "C09.meter-rule" (Spec.Slash.meterRule dl)
      -- C12: an id the provider never issued (not 0, not in the id -> height map) gets an error ack
      let issued := p.vscId == 0 || (parsePairs (before.g.get "vsc2h")).any (·.1 == p.vscId)
      let a := a.spec s.lineNo "C12.unknown-id-error" (issued || ack == "error") s!"vsc={p.vscId} ack={ack}"
      -- C12: a slash executed for this packet uses the height recorded for the packet's id (for id 0 the
      -- height at which the consumer's channel was opened), nothing else
      let mappedI : Option Nat := match st.chan2c.find? (·.1 == s.op.get "ch") with
        | some e => mappedInfractionHeight (st.get e.2) (parsePairs (before.g.get "vsc2h")) p.vscId
        | none => none
      let a := a.spec s.lineNo "C12.slash-height-is-mapped"
        (implEff.all fun e => match e with | .slash _ h _ _ => mappedI == some h | _ => true)
        s!"vsc={p.vscId} mapped={mappedI} effects={(s.ob "r").get "effects"}"
      ({ impl := after }, compareState a s.lineNo r.1 after lifecycleFields lifecycleGlobals)
  | "dvote" =>
    let c := s.op.get "c"
    let o := s.ob "r"
    let e : Equiv.Evidence :=
      { a := parseVote (s.op.get "a"), b := parseVote (s.op.get "b"),
        hv := if s.op.get "hv" == "nil" then none else some (s.op.natList "hv"), ord := int0 (o.get "ord") }
    let unb := parseUnb (before.g.get "unb")
    let m := Equiv.handleDV st unb c e
    let ok := res == "ok"
    let a := a.cmp s.lineNo "dvote.res" (if m.isSome then "ok" else "err") res
    let a := a.cmp s.lineNo "dvote.stage" (if Equiv.basicOK e then "handler" else "basic") (o.get "stage")
    let effI := splitNE (o.get "effects") "|"
    let a := a.cmp s.lineNo "dvote.effects" ("|".intercalate ((m.getD []).map renderEqEffect)) ("|".intercalate effI)
    let effs := effI.filterMap parseEqEffect
    let x := st.get c
    let stkA := parseStk (after.g.get "stk")
    let a := a.spec s.lineNo "C07.accepted-only-if-valid" (Spec.C07.acceptedOnlyIfValid x e ok) s!"{repr e}"
    let a := a.spec s.lineNo "C07.only-signer" (Spec.C07.onlySigner x e effs) s!"{o.get "effects"}"
    let a := a.spec s.lineNo "C07.punished-per-settings" (Spec.C07.punishedPerSettings x st.stk unb st.now e ok effs) s!"{o.get "effects"}"
    let a := a.spec s.lineNo "C07.frame" (Spec.C07.frame x e ok st.stk stkA) s!"before={before.g.get "stk"} after={after.g.get "stk"}"
    let a := a.spec s.lineNo "C07.tombstoned-never-again" (Spec.C07.tombstonedNeverAgain st.stk effs)
    let a := (a.spec s.lineNo "C07.rejected-changes-nothing" (ok || (after.cs.all fun e2 => e2.2 == (before.cfields e2.1)))).spec s.lineNo "C07.consumer-records-untouched" (after.cs.all fun e2 => e2.2 == (before.cfields e2.1))
    let a := a.spec s.lineNo "C07.valid-is-punished" (Spec.C07.validIsPunished x st.stk e ok) s!"{repr e}"
    let a := if ok then { (a.tag "dvote-accepted") with nontrivial := a.nontrivial + 1 }
             else if Spec.C07.validFor x e then a.tag "dvote-valid-but-unpunishable"
             else if !Equiv.basicOK e then a.tag "dvote-rejected-basic" else a.tag "dvote-rejected"
    ({ impl := after }, a)
  | "misb" =>
    let c := s.op.get "c"
    let o := s.ob "r"
    if o.get "stage" == "badop" then ({ impl := after }, (a.tag "misb-badop").cmp s.lineNo "misb.res" "err" res) else
    let x := st.get c
    let vals := s.op.pairs "vals"
    let tv := if s.op.get "tvals" == "same" then vals else s.op.pairs "tvals"
    let m : Equiv.Misb :=
      { client := if s.op.get "client" == "own" then x.client.getD "07-tendermint-9999" else s.op.get "client",
        h1 := parseHdr (s.op.get "h1") vals (parseNatList (o.get "order1")),
        h2 := parseHdr (s.op.get "h2") (if s.op.has "vals2" then s.op.pairs "vals2" else vals) (parseNatList (o.get "order2")),
        th := s.op.nat "th",
        tvals := (parseNatList (o.get "torder")).filterMap fun k => tv.find? (·.1 == k) }
    let env : Equiv.ClientEnv :=
      { clientChain := o.get "cchain", trustedMatches := s.op.get "trusted" == "1",
        expired := decide (s.op.nat "age" ≥ 1209600000000000) }
    let unb := parseUnb (before.g.get "unb")
    let mres := Equiv.handleMisb st unb env c m
    let ok := res == "ok"
    let a := a.cmp s.lineNo "misb.res" (if mres.isSome then "ok" else "err") res
    let a := a.cmp s.lineNo "misb.stage" (if Equiv.misbBasicOK m then "handler" else "basic") (o.get "stage")
    let effI := splitNE (o.get "effects") "|"
    let a := a.cmp s.lineNo "misb.effects" ("|".intercalate ((mres.getD []).map renderEqEffect)) ("|".intercalate effI)
    let effs := effI.filterMap parseEqEffect
    let stkA := parseStk (after.g.get "stk")
    let a := a.spec s.lineNo "C07.misb-accepted-only-if-valid" (Spec.C07.misbAcceptedOnlyIfValid x env m ok) s!"{repr m}"
    let a := a.spec s.lineNo "C07.misb-only-double-signers" (Spec.C07.misbOnlyDoubleSigners x m effs) s!"{o.get "effects"}"
    let a := a.spec s.lineNo "C07.misb-per-settings" (Spec.C07.misbPerSettings x ok effs) s!"{o.get "effects"}"
    let a := a.spec s.lineNo "C07.misb-frame" (Spec.C07.misbFrame ok effs st.stk stkA) s!"before={before.g.get "stk"} after={after.g.get "stk"}"
    let a := a.spec s.lineNo "C07.tombstoned-never-again" (Spec.C07.tombstonedNeverAgain st.stk effs)
    let a := (a.spec s.lineNo "C07.rejected-changes-nothing" (ok || (after.cs.all fun e2 => e2.2 == (before.cfields e2.1)))).spec s.lineNo "C07.consumer-records-untouched" (after.cs.all fun e2 => e2.2 == (before.cfields e2.1))
    let a := if ok then { (a.tag "misb-accepted") with nontrivial := a.nontrivial + 1 }
             else if !Equiv.misbBasicOK m then a.tag "misb-rejected-basic"
             else if !Equiv.checkMisb x env m then a.tag "misb-rejected-check"
             else if Equiv.byzantine m == some [] then a.tag "misb-nobody-identifiable"
             else if (Equiv.byzantine m).isNone then a.tag "misb-bad-common-signature"
             else a.tag "misb-nobody-punishable"
    ({ impl := after }, a)
  | "cattach" | "relay" =>
    ({ impl := after }, a.cmp s.lineNo s!"{s.op.name}.res" "ok" res)
  | "cblock" =>
    -- two-chain stream: the REAL consumer, fed the provider's packets in order with arbitrary delays,
    -- holds after every block exactly the provider's set of the last packet delivered, and so does
    -- its consensus engine (folded from the updates EndBlock returned)
    let o := s.ob "r"
    let canon := fun (t : String) => fmtPairs (isort (fun (x y : Nat × Nat) => decide (x.1 ≤ y.1)) ((parsePairs t).filter (·.2 != 0)))
    let a := a.cmp s.lineNo "cblock.res" "ok" res
    let a := a.spec s.lineNo "C01.consumer-follows-provider" (canon (o.get "cc") == canon (o.get "expect"))
      s!"consumer={o.get "cc"} provider-at-last-delivered-packet={o.get "expect"}"
    let a := a.spec s.lineNo "C01.engine-follows-consumer" (canon (o.get "engine") == canon (o.get "cc"))
      s!"engine={o.get "engine"} consumer={o.get "cc"}"
    let a := { (a.tag "consumer-block") with nontrivial := a.nontrivial + 1 }
    ({ impl := after }, if nat0 (o.get "waiting") > 0 then a.tag "consumer-block-with-packets-in-flight" else a)
  | "reward" =>
    let c := s.op.get "c"
    let denom := s.op.get "denom"
    let amt := s.op.nat "amt"
    let okT := s.op.get "fail" != "1"
    let a := a.cmp s.lineNo "reward.ack" (if okT then "ok" else "error") ((s.ob "r").get "ack")
    let toPool := s.op.get "to" != "other"
    -- the consumer to credit: the memo's consumer id if the memo is a reward memo, else the
    -- consumer whose client underlies the transfer channel, provided it has a CCV channel
    let viaC : Option String :=
      if s.op.has "via" then
        match (st.get (s.op.get "via")).client with
        | some cl => match st.client2c.find? (·.1 == cl) with
          | some e => if (st.get e.2).channel.isSome then some e.2 else none
          | none => none
        | none => none
      else none
    let c := if c != "-" && s.op.get "memo" != "plain" then c else viaC.getD "-"
    let known := c != "-" && (st.get c).phase != .unspecified
    let pool := parseBal (before.g.get "pool")
    let poolM := if okT && toPool then Rewards.setBal pool denom (Rewards.getBal pool denom + amt) else pool
    let a := a.cmp s.lineNo "reward.pool" (renderBal poolM) (after.g.get "pool")
    let cr := creditsOf before
    let crM := if okT && toPool && known then Rewards.setCredit cr c denom (Rewards.credit (Rewards.getCredit cr c denom) amt) else cr
    let a := after.cs.foldl (fun a e => a.cmp s.lineNo s!"c{e.1}.alloc" (renderAlloc crM e.1) (e.2.get "alloc")) a
    let a := if okT && toPool && known then { (a.tag "reward-credited") with nontrivial := a.nontrivial + 1 } else a.tag "reward-not-credited"
    ({ impl := after }, a)
  | "timeout" | "ackerr" =>
    match timeoutOrErrorAck st (s.op.get "ch") with
    | none => ({ impl := after }, (a.tag "timeout-unknown").cmp s.lineNo "timeout.res" "err" res)
    | some st' =>
      let a := { (a.tag "timeout-stops").cmp s.lineNo "timeout.res" "ok" res with nontrivial := a.nontrivial + 1 }
      ({ impl := after }, compareState a s.lineNo st' after lifecycleFields lifecycleGlobals)
  | "ackok" =>
    ({ impl := after }, compareState (a.cmp s.lineNo "ackok.res" "ok" res) s.lineNo st after lifecycleFields lifecycleGlobals)
  | "chantry" | "chaninit" =>
    let connOf := fun (h : String) =>
      match (before.conns.get h).splitOn "|" with
      | [cl, ch, _] => some ({ client := cl, isTM := ch != "!" } : ConnInfo)
      | _ => none
    let okM := if s.op.name == "chaninit" then chanOpenInit else
      chanOpenTry st (s.op.get "order" == "ORDERED") (s.op.get "port") (s.op.get "cport") (s.op.get "ver")
        (splitNE (s.op.get "hops") ",") connOf
    let a := (a.tag (if okM then "chantry-ok" else "chantry-rejected")).cmp s.lineNo "chantry.res" (if okM then "ok" else "err") res
    let a := if okM then { a with nontrivial := a.nontrivial + 1 } else a
    -- C17: whatever the implementation ACCEPTS is an ordered channel between the provider and consumer
    -- ports with the supported version, one hop, on a tendermint client bound to a channel-less consumer
    let a := if s.op.name == "chantry" then
        a.spec s.lineNo "C17.try-accept-only-if"
          (res != "ok" ||
            (s.op.get "order" == "ORDERED" && s.op.get "port" == "provider" && s.op.get "cport" == "consumer" &&
             s.op.get "ver" == "1" &&
             (match splitNE (s.op.get "hops") "," with
              | [h] => (match connOf h with
                | some ci => ci.isTM && (st.client2c.any fun e => e.1 == ci.client && (st.get e.2).channel.isNone)
                | none => false)
              | _ => false)))
          s!"order={s.op.get "order"} port={s.op.get "port"} cport={s.op.get "cport"} ver='{s.op.get "ver"}' hops={s.op.get "hops"}"
      else a.spec s.lineNo "C17.provider-never-initiates" (res != "ok")
    ({ impl := after }, compareState a s.lineNo st after lifecycleFields lifecycleGlobals)
  | "chanconfirm" =>
    let connOf := fun (h : String) =>
      match (before.conns.get h).splitOn "|" with
      | [cl, ch, _] => some ({ client := cl, isTM := ch != "!" } : ConnInfo)
      | _ => none
    let hops := if before.chans.any (·.1 == s.op.get "ch") then some (splitNE (before.chans.get (s.op.get "ch")) "+") else none
    match chanOpenConfirm st (s.op.get "ch") hops connOf with
    | none => ({ impl := after }, (a.tag "chanconfirm-rejected").cmp s.lineNo "chanconfirm.res" "err" res)
    | some st' =>
      let a := (a.tag "chanconfirm-ok").cmp s.lineNo "chanconfirm.res" "ok" res
      let a := { a with nontrivial := a.nontrivial + 1 }
      ({ impl := after }, if res == "ok" then compareState a s.lineNo st' after lifecycleFields lifecycleGlobals else a)
  | "end" =>
    let g : GlobalVS := { lastProv := parseCVals (before.g.get "lastprov"), vsc2h := parsePairs (before.g.get "vsc2h") }
    match endBlock st g with
    | none => ({ impl := after }, a.cmp s.lineNo "end.res" "err" res)
    | some (st', g', upd, sent) =>
      let a := a.cmp s.lineNo "end.res" "ok" res
      let a := a.cmp s.lineNo "end.valupd" (renderUpd upd ",") ((s.ob "r").get "valupd")
      let a := a.cmp s.lineNo "end.lastprov" (renderCVals (isort (fun (p q : CVal) => decide (p.v ≤ q.v)) g'.lastProv))
        (renderCVals (isort (fun (p q : CVal) => decide (p.v ≤ q.v)) (parseCVals (after.g.get "lastprov"))))
      let a := a.cmp s.lineNo "end.vsc2h" (fmtPairs g'.vsc2h) (after.g.get "vsc2h")
      let a := a.cmp s.lineNo "end.vscid" (toString st'.vscId) (after.g.get "vscid")
      let sentStr := ";".intercalate (sent.map fun e =>
        s!"{((st'.get e.1).channel.getD "-")}/{e.2.id}/{renderUpd e.2.updates "+"}/{"+".intercalate (e.2.acks.map toString)}")
      let implSent := ";".intercalate ((splitNE ((s.ob "r").get "sent") ";").map fun t =>
        match t.splitOn "/" with
        | [ch, _, id, u, ak] => s!"{ch}/{id}/{u}/{ak}"
        | _ => t)
      let a := a.cmp s.lineNo "end.sent" sentStr implSent
      let a := if st.height % st.epoch == 0 then { (a.tag "epoch") with nontrivial := a.nontrivial + 1 } else a
      let a := after.cs.foldl (fun a e =>
        let x := st'.get e.1
        let a := a.cmp s.lineNo s!"c{e.1}.valset" (renderCVals (isort (fun (p q : CVal) => decide (p.v ≤ q.v)) x.valset))
          (renderCVals (isort (fun (p q : CVal) => decide (p.v ≤ q.v)) (parseCVals (e.2.get "valset"))))
        let a := a.cmp s.lineNo s!"c{e.1}.pend" (renderPend x.pend) (e.2.get "pend")
        let a := a.cmp s.lineNo s!"c{e.1}.acks" (fmtNatList x.acks) (e.2.get "acks")
        a) a
      ({ impl := after }, compareState a s.lineNo st' after lifecycleFields lifecycleGlobals)
  | _ => ({ impl := after }, a)

/-- the oracle's view of one consumer after an epoch / launch -/
def viewOf (b : State) (f : Fields) (x : Consumer) : Spec.Epoch.View :=
  let lists := (f.get "pslists").splitOn "|"
  { stk := b.stk, bonded := b.bonded.take b.maxVals, m := b.m, ps := x.ps.getD {},
    allow := parseNatList (lists.getD 0 ""), deny := parseNatList (lists.getD 1 ""), prio := parseNatList (lists.getD 2 ""),
    optin := x.optin, minpow := x.minpow, ka := x.ka, valset := x.valset }

/-- C02 / C03 / C04 on every validator set the implementation computed in this operation -/
def epochSpecs (a : Acc) (lineNo : Nat) (op : Line) (b t : State) (after : ProvImpl) (sentRaw : String := "") : Acc :=
  let isEpoch := op.name == "end" && b.height % b.epoch == 0
  after.cs.foldl (fun a e =>
    let x := t.get e.1
    let xb := b.get e.1
    let computed := (isEpoch && xb.phase == .launched && xb.client.isSome) ||
                    (op.name == "begin" && x.phase == .launched && xb.phase != .launched)
    -- C08: slash acknowledgements waiting for a consumer leave the store only inside a packet
    -- created for that consumer in this block (never dropped)
    let a := if op.name == "end" && x.phase == xb.phase then
        let sentAll : List Packet := (splitNE sentRaw ";").filterMap fun t =>
          match t.splitOn "/" with
          | [ch, _, id, u, ak] =>
            if some ch == x.channel then some { id := nat0 id, updates := parseUpd u "+", acks := (splitNE ak "+").map nat0 } else none
          | _ => none
        let fresh := (sentAll ++ x.pend).filter fun p => !(xb.pend.any (·.id == p.id))
        a.spec lineNo "C08.acks-conserved" (xb.acks == fresh.flatMap (·.acks) ++ x.acks)
          s!"consumer={e.1} acks-before={xb.acks} acks-after={x.acks} carried={fresh.flatMap (·.acks)}"
      else a
    if !computed then a
    else
      let w := viewOf b e.2 x
      let a := a.tag "valset-computed"
      let d := s!"consumer={e.1} valset={renderCVals x.valset} bonded={fmtNatList w.bonded} m={w.m}"
      -- C01: what is queued for the consumer is exactly the difference between its previous and its
      -- new stored set (nothing is queued iff nothing changed); at launch the genesis carries the set
      -- (packets created in this block are either still pending or, with an established channel,
      -- were sent in this same EndBlock together with everything that was pending)
      let sentPk : List Packet := (splitNE sentRaw ";").filterMap fun t =>
        match t.splitOn "/" with
        | [ch, _, id, u, ak] =>
          if some ch == x.channel then some { id := nat0 id, updates := parseUpd u "+", acks := (splitNE ak "+").map nat0 } else none
        | _ => none
      let newPkts := (sentPk ++ x.pend).filter fun p => !(xb.pend.any (·.id == p.id))
      let upd := (newPkts.flatMap (·.updates))
      let a := if op.name == "end" then
          a.spec lineNo "C01.packet-is-diff"
            (Spec.C01.diffOK (Epoch.toVals xb.valset) (Epoch.toVals x.valset) upd &&
             decide (newPkts.length ≤ 1) && (newPkts.all fun p => p.id == b.vscId))
            s!"consumer={e.1} before={renderCVals xb.valset} after={renderCVals x.valset} upd={renderUpd upd ","}"
        else a
      let a := a.spec lineNo "C02.sound" (Spec.Epoch.c02Sound w && Spec.Epoch.c02NoDup w) d
      let a := a.spec lineNo "C02.active-set" (Spec.Epoch.c02Active w) d
      let a := a.spec lineNo "C02.power" (Spec.Epoch.c02Power w) d
      let a := a.spec lineNo "C02.key" (Spec.Epoch.c02Key w) d
      let a := a.spec lineNo "C02.complete" (Spec.Epoch.c02Complete w) d
      let a := a.spec lineNo "C03.threshold" (Spec.Epoch.c03Threshold w) d
      let a := a.spec lineNo "C03.included" (Spec.Epoch.c03Included w) d
      let a := a.spec lineNo "C04.set-cap" (Spec.Epoch.c04SetCap w) d
      a.spec lineNo "C04.power-cap" (Spec.Epoch.c04PowerCap w) d) a


/-- state invariants and transition predicates of Spec/Prov.lean on the implementation's states -/
def provInvariants (a : Acc) (lineNo : Nat) (op : Line) (ok : Bool) (b t : State) : Acc :=
  let target := op.get "c"
  let perConsumer := ["update", "remove", "optin", "optout", "assign", "commission"].contains op.name
  let a := a.spec lineNo "C10.sched-inv" (Spec.Prov.schedInv t)
  let a := a.spec lineNo "C10.phase-edges" (Spec.Prov.phaseEdges b t)
  let a := a.spec lineNo "C10.ids" (Spec.Prov.idsOK t && Spec.Prov.idsMonotone b t)
  let a := a.spec lineNo "C10.launch-artifacts" (Spec.Prov.launchArtifacts b t)
  let a := if op.name == "begin" then a.spec lineNo "C10.launch-when-due" (Spec.Prov.launchWhenDue b t 200) else a
  let a := a.spec lineNo "C11.stop-inv" (Spec.Prov.stopInv t)
  let a := if op.name == "begin" then a.spec lineNo "C11.removal-timing" (Spec.Prov.removalTiming b t 200) else a
  let a := if op.name == "begin" || op.name == "end" then a.spec lineNo "C11.stopped-kept" (Spec.Prov.stoppedKept b t) else a
  let a := a.spec lineNo "C11.no-updates-unless-launched" (Spec.Prov.noUpdatesUnlessLaunched b t)
  let a := a.spec lineNo "C14.topn-owner" (Spec.Prov.topNInv t)
  let a := a.spec lineNo "C14.owner-change" (Spec.Prov.ownerChange b t op.name (op.get "s") target ok)
  let a := a.spec lineNo "C17.binding-inv" (Spec.Prov.bindingInv t)
  let a := a.spec lineNo "C20.infr-inv" (Spec.Prov.infrInv t)
  let a := a.spec lineNo "C20.infr-change" (Spec.Prov.infrChange b t op.name)
  let a := if perConsumer then a.spec lineNo "C13.others-untouched" (Spec.Prov.othersUntouched b t target) else a
  let a := if op.name == "create" then a.spec lineNo "C13.others-untouched" (Spec.Prov.othersUntouched b t ((s!"{b.nextId}"))) else a
  let a := if perConsumer then a.spec lineNo "C13.schedules-untouched" (Spec.Prov.schedulesUntouched b t target) else a
  let a := if op.name == "end" && ok then
      let a := a.spec lineNo "C13.prune-own-only" (Spec.Prov.pruneExact b t)
      a.spec lineNo "C06.prune-exact" (Spec.Prov.pruneExact b t)
    else a
  let a := a.spec lineNo "C06.current-key-resolves" (Spec.Prov.currentKeyResolves t)
  -- (every operation except the removal of a validator, whose assignments are deleted on purpose)
  let a := if op.name != "rmval" then
      (a.spec lineNo "C06.pruned-only-when-due" (Spec.Prov.prunedOnlyWhenDue b t)).spec lineNo "C05.replaced-key-stays-reserved" (Spec.Prov.prunedOnlyWhenDue b t)
    else a
  a.spec lineNo "C05.key-inv" (Spec.Prov.keyInv t)

def stepProv (d : ProvDrv) (a : Acc) (s : Step) : ProvDrv × Acc :=
  let before := d.impl.absorb (s.obs.filter (·.name == "env"))
  if s.op.name == "fail" then ({ d with armed := true }, a.tag "fail-armed") else
  if s.op.name == "clearfail" then
    ({ d with armed := false }, if (s.ob "r").get "fired" == "1" && d.armed then a.tag "fault-fired" else a) else
  -- with a failure armed the model (which knows nothing about it) is not compared; the C19 clauses are
  let r := if d.armed then
      ({ d with impl := before.absorb (s.obs.filter (·.name != "env")) }, a.tag ("faulted-" ++ s.op.name))
    else stepProvCore d a s
  let r := ({ r.1 with armed := d.armed }, r.2)
  let ok := (s.ob "r").get "res" == "ok"
  if s.op.name == "init" then
    ({ r.1 with engine := (parseCVals (r.1.impl.g.get "lastprov")).map fun c => { key := c.key, power := c.power } }, r.2)
  else
    let b := before.toState
    let t := r.1.impl.toState
    let a := provInvariants r.2 s.lineNo s.op ok b t
    -- C02 / C04: the allow / deny / priority INDEXES that validator-set computation reads hold exactly the
    -- addresses of the stored power-shaping parameters (as sets; a deleted consumer keeps its parameters but loses the indexes)
    let a := r.1.impl.cs.foldl (fun a e =>
      let lists := (e.2.get "pslists").splitOn "|"
      let setEq := fun (x y : List Nat) => x.all (y.contains ·) && y.all (x.contains ·)
      let okL := e.2.get "phase" == "5" ||
                 setEq (parseNatList (e.2.get "allow")) (parseNatList (lists.getD 0 "")) &&
                 setEq (parseNatList (e.2.get "deny")) (parseNatList (lists.getD 1 "")) &&
                 setEq (parseNatList (e.2.get "prio")) (parseNatList (lists.getD 2 ""))
      let d := s!"consumer={e.1} index allow={e.2.get "allow"} deny={e.2.get "deny"} prio={e.2.get "prio"} params={e.2.get "pslists"}"
      (a.spec s.lineNo "C02.list-index-in-sync" okL d).spec s.lineNo "C04.list-index-in-sync" okL d) a
    -- C18: replicas of this block hook on throw-away branches of the same state agreed byte for byte
    -- (return value, every key/value of the provider store, packets, calls to the environment)
    -- C19: whatever fails inside reward allocation, every (consumer, denom) step is all or nothing:
    -- per denom, what left the rewards pool reached the distribution module or the community pool,
    -- and the credits went down by exactly that much (evaluated on every BeginBlock, armed or not)
    let a := if s.op.name == "begin" then
        ["stake", "photon", "mote"].foldl (fun a dn =>
          let crOf := fun (p : ProvImpl) => ((creditsOf p).filter (·.1.2 == dn)).map (·.2) |>.sum
          let f : Spec.C16.DenomFlow :=
            { denom := dn,
              poolBefore := Rewards.getBal (parseBal (before.g.get "pool")) dn, poolAfter := Rewards.getBal (parseBal (r.1.impl.g.get "pool")) dn,
              distrDelta := Rewards.getBal (parseBal (r.1.impl.g.get "distr")) dn - Rewards.getBal (parseBal (before.g.get "distr")) dn,
              cpDelta := Rewards.getBal (parseBal (r.1.impl.g.get "cp")) dn - Rewards.getBal (parseBal (before.g.get "cp")) dn,
              creditBefore := crOf before, creditAfter := crOf r.1.impl, paid := [] }
          a.spec s.lineNo "C19.reward-step-all-or-nothing" (Spec.C16.bankConserved f && Spec.C16.creditConserved f)
            s!"{dn} pool {f.poolBefore}->{f.poolAfter} distr+{f.distrDelta} cp+{f.cpDelta} credit {f.creditBefore}->{f.creditAfter}") a
      else a
    let rep := (s.ob "r").get "rep"
    let a := if rep != "" then (a.tag "replicas-compared").spec s.lineNo "C18.replicas-agree" (rep == "same") rep else a
    let a := if ok && !d.armed then epochSpecs a s.lineNo s.op b t r.1.impl ((s.ob "r").get "sent") else a
    -- C11: removal happens one unbonding period after the FIRST stop
    let firstDue := t.consumers.foldl (fun (fd : List (String × Int)) x =>
      if x.phase == .stopped && (b.get x.id).phase == .launched && !fd.any (·.1 == x.id) then fd ++ [(x.id, b.now + b.unbonding)] else fd) d.firstDue
    let a := if s.op.name == "begin" && ok && !d.armed then
        a.spec s.lineNo "C11.removed-after-first-stop"
          (decide (((b.removeQ.filter fun e => decide (e.1 ≤ t.now)).flatMap (·.2)).length > 200) ||
           t.consumers.all fun x =>
            match firstDue.find? (·.1 == x.id) with
            | some e => !(decide (e.2 ≤ t.now)) || x.phase == .deleted
            | none => true)
      else a
    -- C03: a Top-N parameter change recomputes the threshold at once
    let a := if s.op.name == "update" && ok then
        t.consumers.foldl (fun a x =>
          let tb := ((b.get x.id).ps.getD {}).topN
          let ta := (x.ps.getD {}).topN
          if ta != tb && ta > 0 then
            a.spec s.lineNo "C03.threshold-on-param-change"
              (x.minpow == Spec.Epoch.trueThreshold ((b.bonded.take b.maxVals |>.take b.m).map (Epoch.lastPower b.stk)) ta)
              s!"consumer={x.id} minpow={x.minpow} topN={ta}"
          else a) a
      else a
    -- C02: who may be opted in: validators that opted in themselves (and did not opt out since), and
    -- validators that were at or above the Top-N threshold at some epoch / launch since
    let legit0 := d.legit
    let legit1 : List (String × List Nat) :=
      if s.op.name == "optin" && ok then
        let c := s.op.get "c"; let v := s.op.nat "v"
        if legit0.any (·.1 == c) then legit0.map fun e => if e.1 == c then (c, e.2 ++ [v]) else e else legit0 ++ [(c, [v])]
      else if s.op.name == "optout" && ok then
        legit0.map fun e => if e.1 == s.op.get "c" then (e.1, e.2.filter (· != s.op.nat "v")) else e
      else legit0
    let computedNow := fun (x : Consumer) =>
      (s.op.name == "end" && b.height % b.epoch == 0 && (b.get x.id).phase == .launched && (b.get x.id).client.isSome) ||
      (s.op.name == "begin" && x.phase == .launched && (b.get x.id).phase != .launched)
    let legit2 : List (String × List Nat) := t.consumers.foldl (fun lg x =>
      let n := (x.ps.getD {}).topN
      if computedNow x && n > 0 then
        let act := (b.bonded.take b.maxVals).take b.m
        match Spec.Epoch.trueThreshold (act.map (Epoch.lastPower b.stk)) n with
        | some m =>
          let req := act.filter fun v => decide (Epoch.lastPower b.stk v ≥ m)
          if lg.any (·.1 == x.id) then lg.map fun e => if e.1 == x.id then (e.1, e.2 ++ req) else e else lg ++ [(x.id, req)]
        | none => lg
      else lg) legit1
    let a := if ok && !d.armed then
        t.consumers.foldl (fun a x =>
          if x.phase == .deleted || x.phase == .unspecified then a
          else
            let lg := match legit2.find? (·.1 == x.id) with | some e => e.2 | none => []
            a.spec s.lineNo "C02.optin-legit" (x.optin.all fun v => lg.contains v)
              s!"consumer={x.id} optin={fmtNatList x.optin} legit={fmtNatList lg}") a
      else a
    -- C14: a Top-N value is set only by a message from the governance authority
    let a := if s.op.name == "update" && ok then
        a.spec s.lineNo "C14.topn-set-by-gov-only"
          (t.consumers.all fun x =>
            let tb := ((b.get x.id).ps.getD {}).topN
            let ta := (x.ps.getD {}).topN
            ta == 0 || ta == tb || s.op.get "s" == b.authority)
      else a
    -- C19: block processing never fails; failing consumer operations are rolled back
    let a := if s.op.name == "begin" || s.op.name == "end" then
        a.spec s.lineNo "C19.block-ok" ok s!"res={(s.ob "r").get "res"} armed={d.armed}" else a
    let a := if s.op.name == "begin" && ok then
        let a := a.spec s.lineNo "C19.launch-all-or-nothing" (Spec.Prov.launchAllOrNothing b t)
        let a := a.spec s.lineNo "C19.delete-all-or-nothing" (Spec.Prov.deleteAllOrNothing b t)
        a.spec s.lineNo "C19.clients-match-launches" (Spec.Prov.clientsMatchLaunches b t)
      else a
    let a := if s.op.name == "end" && ok then a.spec s.lineNo "C19.send-failure-contained" (Spec.Prov.sendFailureContained b t) else a
    let r := ({ r.1 with firstDue := firstDue, legit := legit2 }, a)
    let a := r.2
    -- C12 / C15 at provider EndBlock
    if s.op.name == "end" && ok then
      let o := s.ob "r"
      let engine := (ValSet.applyCC d.engine (parseUpd (o.get "valupd") ",")).1
      let stored := parseCVals (r.1.impl.g.get "lastprov")
      let a := a.spec s.lineNo "C15.stored-is-top-M" (Spec.C15.storedIsTopM b.bonded b.stk b.m stored)
      let a := a.spec s.lineNo "C15.size" (Spec.C15.sizeOK b.m stored)
      let a := a.spec s.lineNo "C15.engine-equals-stored" (Spec.C15.engineEqualsStored engine stored)
        s!"engine={fmtPairs (engine.map fun v => (v.key, v.power))} stored={renderCVals stored}"
      let a := a.spec s.lineNo "C15.views" (Spec.C15.viewsOK b.bonded b.stk b.m (parseNatList (o.get "viter"))
        (nat0 (o.get "vtotal")) (nat0 (o.get "supply")) (o.get "vratio"))
      let a := a.spec s.lineNo "C12.end-block-ids" (Spec.C12.endBlockIds b.height b.epoch b.vscId t.vscId
        (parsePairs (before.g.get "vsc2h")) (parsePairs (r.1.impl.g.get "vsc2h")))
      let a := a.spec s.lineNo "C12.map-monotone" (Spec.C12.mapMonotone t.vscId (parsePairs (r.1.impl.g.get "vsc2h")))
      let a := t.consumers.foldl (fun a x => a.spec s.lineNo "C12.packet-ids" (Spec.C12.packetIdsOK t.vscId x.pend)) a
      ({ r.1 with engine := engine }, a)
    else ({ r.1 with engine := d.engine }, a)

end ICS.Driver
