import ICS.Driver.Common
import ICS.Spec.C01
namespace ICS.Driver
open ICS ICS.ValSet

def toVals (ps : List (Nat × Nat)) : List Val := ps.map fun p => { key := p.1, power := p.2 }
def ofVals (l : List Val) : List (Nat × Nat) := l.map fun v => (v.key, v.power)

/-- driver state for the valset stream -/
structure VSState where
  rank : List (Nat × Nat) := []     -- key ↦ rank in PublicKey.String() order
  cc   : List Val := []             -- consumer stored set (model)
  ccImpl : List Val := []           -- consumer stored set as last observed on the implementation

def VSState.rankOf (s : VSState) (k : Nat) : Nat :=
  match s.rank.find? (·.1 == k) with
  | some p => p.2
  | none => 0

def canonVals (l : List Val) : List Val := isort (fun a b => decide (a.key ≤ b.key)) l

def stepValSet (st : VSState) (a : Acc) (s : Step) : VSState × Acc :=
  match s.op.name with
  | "keyorder" =>
    ({ st with rank := (s.op.natList "order").zipIdx }, a)
  | "diff" =>
    let cur := toVals (s.op.pairs "cur"); let next := toVals (s.op.pairs "next")
    let impl := toVals ((s.ob "diff").pairs "upd")
    let a := a.cmp s.lineNo "diff.upd" (fmtPairs (ofVals (diff cur next))) (fmtPairs (ofVals impl))
    let a := if cur.length > 0 && next.length > 0 then { a with nontrivial := a.nontrivial + 1 } else a
    (st, (a.tag "diff").spec s.lineNo "C01.diff-applies" (Spec.C01.diffOK cur next impl))
  | "accum" =>
    let cur := toVals (s.op.pairs "cur"); let new := toVals (s.op.pairs "new")
    let impl := toVals ((s.ob "accum").pairs "out")
    let a := a.cmp s.lineNo "accum.out" (fmtPairs (ofVals (accumulate st.rankOf cur new))) (fmtPairs (ofVals impl))
    let a := if cur.length > 0 && new.length > 0 then { a with nontrivial := a.nontrivial + 1 } else a
    let a := (a.tag "accum").spec s.lineNo "C01.accumulate-effect" (Spec.C01.accumOK cur new impl)
    -- C18: 13 executions of the same call gave the same ordered result
    (st, a.spec s.lineNo "C18.accumulate-deterministic" ((s.ob "accum").get "det" != "0") s!"out={(s.ob "accum").get "out"}")
  | "cinit" =>
    let ini := toVals (s.op.pairs "initial")
    let o := s.ob "cinit"
    let r := applyCC [] ini
    let a := a.cmp s.lineNo "cinit.ret" (fmtPairs (ofVals ini)) (o.get "ret")
    let a := a.cmp s.lineNo "cinit.cc" (fmtPairs (ofVals (canonVals r.1))) (o.get "cc")
    ({ st with cc := r.1, ccImpl := toVals (o.pairs "cc") }, a.tag "cinit")
  | "applycc" =>
    let ch := toVals (s.op.pairs "changes")
    let o := s.ob "applycc"
    let r := applyCC st.cc ch
    let implRet := toVals (o.pairs "ret"); let implCC := toVals (o.pairs "cc")
    let a := a.cmp s.lineNo "applycc.ret" (fmtPairs (ofVals r.2)) (o.get "ret")
    let a := a.cmp s.lineNo "applycc.cc" (fmtPairs (ofVals (canonVals r.1))) (o.get "cc")
    let a := if ch.length > 1 then { a with nontrivial := a.nontrivial + 1 } else a
    let a := (a.tag "applycc").spec s.lineNo "C01.applycc-effect" (Spec.C01.applyOK st.ccImpl ch implRet implCC)
    ({ st with cc := r.1, ccImpl := implCC }, a)
  | _ => (st, a)

end ICS.Driver
