/-
  Small utilities shared by the executable model and the driver: key=value line parsing,
  association lists, stable insertion sort.  Core Lean only.
-/
namespace ICS

/-- tolerant numeric parsing: anything that is not a number reads as 0 -/
def nat0 (s : String) : Nat := s.toNat?.getD 0
def int0 (s : String) : Int := s.toInt?.getD 0

/-- one parsed trace line: kind (`hdr`/`op`/`obs`), name, fields -/
structure Line where
  kind : String
  name : String
  kv   : List (String × String)
deriving Repr, Inhabited

def splitKV (tok : String) : String × String :=
  match tok.splitOn "=" with
  | [] => ("", "")
  | [k] => (k, "")
  | k :: rest => (k, "=".intercalate rest)

def parseLine (s : String) : Line :=
  let toks := (s.trimAscii.toString.splitOn " ").filter (· ≠ "")
  match toks with
  | [] => { kind := "", name := "", kv := [] }
  | [k] => { kind := k, name := "", kv := [] }
  | k :: n :: rest =>
    if k == "hdr" then { kind := k, name := "", kv := (n :: rest).map splitKV }
    else { kind := k, name := n, kv := rest.map splitKV }

def Line.get (l : Line) (k : String) : String :=
  match l.kv.find? (·.1 == k) with
  | some p => p.2
  | none => ""

def Line.has (l : Line) (k : String) : Bool := (l.kv.find? (·.1 == k)).isSome

def Line.nat (l : Line) (k : String) : Nat := nat0 (l.get k)

def Line.int (l : Line) (k : String) : Int := int0 (l.get k)

def parseNatList (s : String) : List Nat :=
  if s == "" then [] else (s.splitOn ",").map nat0

def parseIntList (s : String) : List Int :=
  if s == "" then [] else (s.splitOn ",").map int0

def parseStrList (s : String) : List String :=
  if s == "" then [] else s.splitOn ","

/-- `a:b,c:d` -/
def parsePairs (s : String) : List (Nat × Nat) :=
  if s == "" then [] else
  (s.splitOn ",").map fun t =>
    match t.splitOn ":" with
    | [a, b] => (nat0 a, nat0 b)
    | _ => (0, 0)

def fmtNatList (l : List Nat) : String := ",".intercalate (l.map toString)
def fmtIntList (l : List Int) : String := ",".intercalate (l.map toString)
def fmtPairs (l : List (Nat × Nat)) : String :=
  ",".intercalate (l.map fun p => s!"{p.1}:{p.2}")

def Line.natList (l : Line) (k : String) : List Nat := parseNatList (l.get k)
def Line.pairs (l : Line) (k : String) : List (Nat × Nat) := parsePairs (l.get k)


/-- stable insertion sort (structural recursion, so `decide` can evaluate it).  `le` must be a
    total preorder; `x` is placed before the first `y` with `le x y`, i.e. equal elements keep
    their input order — the behaviour of Go's `insertionSortLessFunc`, which `sort.Slice` uses
    for slices of at most 12 elements. -/
def insertBy (le : α → α → Bool) (x : α) : List α → List α
  | [] => [x]
  | y :: ys => if le x y then x :: y :: ys else y :: insertBy le x ys

def isort (le : α → α → Bool) : List α → List α
  | [] => []
  | x :: xs => insertBy le x (isort le xs)


/-- LegacyDec.String(): an 18-decimal fixed point number from its scaled integer -/
def decString (scaled : Nat) : String :=
  let ip := scaled / 10^18
  let fp := scaled % 10^18
  let fs := toString fp
  toString ip ++ "." ++ String.mk (List.replicate (18 - fs.length) '0') ++ fs

end ICS
