/-
  C15 — The provider's own consensus set is the top-M bonded validators.
-/
import ICS.Props.C01
import ICS.Model.Provider
namespace ICS.Props.C15
open ICS ICS.Provider ICS.Epoch ICS.ValSet

/-- the recorded set is the first min(M, n) bonded validators (in staking's power order) with their
    provider keys and current powers -/
theorem stored_is_top_m (s : State) (g : GlobalVS) :
    (providerValUpdates s g).1.lastProv =
      (s.bonded.take s.m).map fun v => { v := v, key := v, power := lastPower s.stk v, join := 0 } := rfl

theorem size_le_m (s : State) (g : GlobalVS) : (providerValUpdates s g).1.lastProv.length ≤ s.m := by
  rw [stored_is_top_m]; simp [List.length_take]; omega

/-- the updates returned to the consensus engine are the diff to the previously recorded set … -/
theorem updates_are_diff (s : State) (g : GlobalVS) :
    (providerValUpdates s g).2 = diff (toVals g.lastProv) (toVals (providerValUpdates s g).1.lastProv) := rfl

theorem toVals_keys (l : List CVal) : (toVals l).map (·.key) = l.map (·.key) := by
  unfold toVals; simp [List.map_map, Function.comp]

/-- … so an engine that held the previously recorded set holds exactly the newly recorded set after
    applying them: engine set and recorded set never diverge -/
theorem engine_follows_stored (s : State) (g : GlobalVS)
    (hold : (g.lastProv.map (·.key)).Nodup) (hb : s.bonded.Nodup) (k : Nat) :
    applyF (providerValUpdates s g).2 (lookup (toVals g.lastProv)) k
      = lookup (toVals (providerValUpdates s g).1.lastProv) k := by
  rw [updates_are_diff]
  apply C01.apply_diff
  · rw [toVals_keys]; exact hold
  · rw [toVals_keys, stored_is_top_m]
    have : (List.map (fun (x : CVal) => x.key) (List.map (fun v => ({ v := v, key := v, power := lastPower s.stk v, join := 0 } : CVal)) (List.take s.m s.bonded))) = List.take s.m s.bonded := by
      rw [List.map_map]; exact List.map_id'' (fun _ => rfl) _
    rw [this]
    exact (List.take_sublist _ _).nodup hb

/-- and the newly recorded set again has distinct keys, so the argument repeats every block -/
theorem stored_keys_nodup (s : State) (g : GlobalVS) (hb : s.bonded.Nodup) :
    ((providerValUpdates s g).1.lastProv.map (·.key)).Nodup := by
  rw [stored_is_top_m]
  have : (List.map (fun (x : CVal) => x.key) (List.map (fun v => ({ v := v, key := v, power := lastPower s.stk v, join := 0 } : CVal)) (List.take s.m s.bonded))) = List.take s.m s.bonded := by
    rw [List.map_map]; exact List.map_id'' (fun _ => rfl) _
  rw [this]
  exact (List.take_sublist _ _).nodup hb

/-! ### non-vacuity -/
example :
    let s : State := { stk := [{ id := 0, tokens := 9, status := 3, jailed := false, lastPower := 9 },
                               { id := 1, tokens := 5, status := 3, jailed := false, lastPower := 5 },
                               { id := 2, tokens := 3, status := 3, jailed := false, lastPower := 3 }],
                       bonded := [0, 1, 2], m := 2 }
    let g : GlobalVS := { lastProv := [{ v := 1, key := 1, power := 4, join := 0 }, { v := 2, key := 2, power := 3, join := 0 }] }
    (providerValUpdates s g).2 = [⟨1, 5⟩, ⟨2, 0⟩, ⟨0, 9⟩] := by decide

end ICS.Props.C15
