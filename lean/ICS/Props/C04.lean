/-
  C04 — Validator-set cap, priority list and power cap shape the set as documented.
  Property theorems only (helper lemmas live in ICS/Lemmas).  Every theorem is about the
  executable model in ICS/Model/Shaping.lean, which the correspondence check runs against
  NoMoreThanPercentOfTheSum / CapValidatorSet / PartitionBasedOnPriorityList of /repo.
-/
import ICS.Lemmas.CapLookup
namespace ICS.Props.C04
open ICS.Shaping ICS.Spec.C04

/-! ### power cap -/

/-- the cap only changes powers: same validators -/
theorem pc_same_ids (vals : List CV) (p : Nat) :
    ((noMoreThanPercentOfTheSum vals p).map (·.id)).Perm (vals.map (·.id)) := by
  unfold noMoreThanPercentOfTheSum
  simp only [capLoop_ids]
  exact (sortDesc_perm vals).map _

/-- no validator ends above `maxPower = max 1 ⌊s·p/100⌋` (holds even when infeasible) -/
theorem pc_cap_bound (vals : List CV) (p : Nat) :
    ∀ o ∈ noMoreThanPercentOfTheSum vals p, o.power ≤ maxPower (sumPower vals) p := by
  unfold noMoreThanPercentOfTheSum
  exact capLoop_le _ _ _ _

/-- when `⌊s·p/100⌋ ≥ 1` the bound is the documented floor of p percent of the total -/
theorem pc_floor (s p : Nat) (h : 1 ≤ s * p / 100) : maxPower s p = s * p / 100 := by
  unfold maxPower
  have : ¬ (s * p / 100 = 0) := by omega
  simp [this]

theorem maxPower_pos (s p : Nat) : 0 < maxPower s p := by
  unfold maxPower
  by_cases h : s * p / 100 = 0 <;> simp [h]; omega

/-- feasible (`s ≤ n·maxPower`): the total power is exactly preserved -/
theorem pc_sum_kept (vals : List CV) (p : Nat)
    (hf : sumPower vals ≤ vals.length * maxPower (sumPower vals) p) :
    sumPower (noMoreThanPercentOfTheSum vals p) = sumPower vals := by
  unfold noMoreThanPercentOfTheSum
  have hperm := sortDesc_perm vals
  have hsum := sumPower_perm hperm
  have hlen := hperm.length_eq
  have hsre := sum_rooms_excess (maxPower (sumPower vals) p) (sortDesc vals)
  have hR : excess (maxPower (sumPower vals) p) (sortDesc vals)
      ≤ rooms (maxPower (sumPower vals) p) (sortDesc vals) := by
    rw [hsum, hlen] at hsre; omega
  have := capLoop_sum _ _ _ (sortDesc_desc vals) hR
  simp only; omega

/-- nobody is reduced to zero -/
theorem pc_nobody_zero (vals : List CV) (p : Nat) (hpos : ∀ v ∈ vals, 0 < v.power) :
    ∀ o ∈ noMoreThanPercentOfTheSum vals p, 0 < o.power := by
  unfold noMoreThanPercentOfTheSum
  apply capLoop_pos _ (maxPower_pos _ _)
  intro v hv
  exact hpos v ((sortDesc_perm vals).mem_iff.mp hv)

/-- infeasible (`s > n·maxPower`): everybody receives the same power `maxPower` -/
theorem pc_infeasible_equal (vals : List CV) (p : Nat)
    (hinf : vals.length * maxPower (sumPower vals) p < sumPower vals) :
    ∀ o ∈ noMoreThanPercentOfTheSum vals p, o.power = maxPower (sumPower vals) p := by
  unfold noMoreThanPercentOfTheSum
  have hperm := sortDesc_perm vals
  have hsum := sumPower_perm hperm
  have hlen := hperm.length_eq
  have hsre := sum_rooms_excess (maxPower (sumPower vals) p) (sortDesc vals)
  apply capLoop_infeasible _ _ _ (sortDesc_desc vals)
  rw [hsum, hlen] at hsre; omega

/-- relative order by power is kept: strictly more power before ⇒ not less power after -/
theorem pc_order_kept (vals : List CV) (p : Nat) (hnd : (vals.map (·.id)).Nodup) :
    ∀ a ∈ vals, ∀ b ∈ vals, a.power > b.power →
      lookupPower (noMoreThanPercentOfTheSum vals p) a.id
        ≥ lookupPower (noMoreThanPercentOfTheSum vals p) b.id := by
  intro a ha b hb hgt
  have hperm := sortDesc_perm vals
  unfold noMoreThanPercentOfTheSum
  apply zip_pairwise_lookup (sortDesc vals) _ (capLoop_ids _ _ _ _)
    ((hperm.map _).nodup_iff.mpr hnd) (sortDesc_desc vals) (capLoop_order _ _ _ (sortDesc_desc vals))
  · exact hperm.mem_iff.mpr ha
  · exact hperm.mem_iff.mpr hb
  · exact hgt

/-- the decidable specification that the driver evaluates on the implementation's outputs holds
    of the model for every input -/
theorem powercap_spec_holds (vals : List CV) (p : Nat) (hnd : (vals.map (·.id)).Nodup) :
    powerCapOK vals p (noMoreThanPercentOfTheSum vals p) = true := by
  unfold powerCapOK
  simp only [Bool.and_eq_true]
  refine ⟨⟨⟨⟨⟨?_, ?_⟩, ?_⟩, ?_⟩, ?_⟩, ?_⟩
  · unfold sameIds
    rw [List.isPerm_iff]; exact (pc_same_ids vals p).symm
  · unfold capBound
    simp only [Bool.or_eq_true, List.all_eq_true, decide_eq_true_eq]
    right; exact pc_cap_bound vals p
  · unfold sumKept feasible
    by_cases hf : sumPower vals ≤ vals.length * maxPower (sumPower vals) p
    · simp [hf, pc_sum_kept vals p hf]
    · simp [hf]
  · unfold nobodyZero
    by_cases hpos : ∀ v ∈ vals, 0 < v.power
    · have := pc_nobody_zero vals p hpos
      simp only [Bool.or_eq_true, List.all_eq_true, decide_eq_true_eq]
      right; exact this
    · simp only [Bool.or_eq_true, Bool.not_eq_true', List.all_eq_false]
      left
      apply Classical.byContradiction
      intro hc
      apply hpos
      intro v hv
      apply Classical.byContradiction
      intro hn
      exact hc ⟨v, hv, by simpa using hn⟩
  · unfold orderKept
    simp only [Bool.or_eq_true, List.all_eq_true]
    right
    intro a ha b hb
    by_cases hgt : a.power > b.power
    · simp [hgt]; exact pc_order_kept vals p hnd a ha b hb hgt
    · simp [hgt]
  · unfold infeasibleEqual feasible
    by_cases hf : sumPower vals ≤ vals.length * maxPower (sumPower vals) p
    · simp [hf]
    · have := pc_infeasible_equal vals p (by omega)
      simp only [hf, decide_false, Bool.false_or, List.all_eq_true, beq_iff_eq]
      exact this

/-! ### validator-set cap and priority list -/

/-- an opt-in consumer with cap `k ≠ 0` has at most `k` validators -/
theorem cap_len (k : Nat) (vals : List CV) (hk : k ≠ 0) :
    (capValidatorSet 0 k vals).length ≤ k := by
  unfold capValidatorSet
  simp only [Nat.lt_irrefl, if_false]
  split
  · simp [List.length_take]; omega
  · rename_i h; simp only [not_and, Nat.not_lt] at h; exact h hk

/-- Top-N consumers are not capped -/
theorem cap_topn_noop (n k : Nat) (vals : List CV) (hn : 0 < n) : capValidatorSet n k vals = vals := by
  unfold capValidatorSet; simp [hn]

/-- the ranked list: priority-listed validators first, each part by descending power;
    nobody later in the list strictly outranks somebody earlier -/
theorem ranked_pairwise (isPrio : Nat → Bool) (vals : List CV) :
    (rankByPriority isPrio vals).Pairwise (fun a b => outranks isPrio b a = false) := by
  unfold rankByPriority partitionPriority
  simp only
  rw [List.pairwise_append]
  refine ⟨?_, ?_, ?_⟩
  · refine (sortDesc_desc _).imp_of_mem ?_
    intro a b ha hb h
    have hpa := (List.mem_filter.mp ((sortDesc_perm _).mem_iff.mp ha)).2
    have hpb := (List.mem_filter.mp ((sortDesc_perm _).mem_iff.mp hb)).2
    unfold outranks
    simp only [hpa, hpb] at *
    simp; omega
  · refine (sortDesc_desc _).imp_of_mem ?_
    intro a b ha hb h
    have hpa := (List.mem_filter.mp ((sortDesc_perm _).mem_iff.mp ha)).2
    have hpb := (List.mem_filter.mp ((sortDesc_perm _).mem_iff.mp hb)).2
    unfold outranks
    simp only [Bool.not_eq_true'] at hpa hpb
    simp [hpa, hpb]; omega
  · intro a ha b hb
    have hpa := (List.mem_filter.mp ((sortDesc_perm _).mem_iff.mp ha)).2
    have hpb := (List.mem_filter.mp ((sortDesc_perm _).mem_iff.mp hb)).2
    unfold outranks
    simp only [Bool.not_eq_true'] at hpb
    simp [hpa, hpb]

/-- the ranked list is a permutation of the eligible validators -/
theorem ranked_perm (isPrio : Nat → Bool) (vals : List CV) :
    (rankByPriority isPrio vals).Perm vals := by
  unfold rankByPriority partitionPriority
  simp only
  have h1 := sortDesc_perm (vals.filter fun v => isPrio v.id)
  have h2 := sortDesc_perm (vals.filter fun v => !isPrio v.id)
  exact (h1.append h2).trans (List.filter_append_perm _ _)

/-- no excluded eligible validator strictly outranks an included one -/
theorem cap_rank (isPrio : Nat → Bool) (topN k : Nat) (eligible : List CV) :
    ∀ e ∈ eligible, e ∉ capValidatorSet topN k (rankByPriority isPrio eligible) →
      ∀ o ∈ capValidatorSet topN k (rankByPriority isPrio eligible), outranks isPrio e o = false := by
  intro e he hne o ho
  have hmem : e ∈ rankByPriority isPrio eligible := (ranked_perm isPrio eligible).mem_iff.mpr he
  unfold capValidatorSet at hne ho
  split at hne
  · exact absurd hmem hne
  · split at hne
    · rename_i h1 h2
      rw [if_neg h1, if_pos h2] at ho
      have hpw := ranked_pairwise isPrio eligible
      rw [← List.take_append_drop k (rankByPriority isPrio eligible), List.pairwise_append] at hpw
      have hed : e ∈ (rankByPriority isPrio eligible).drop k := by
        have := hmem
        rw [← List.take_append_drop k (rankByPriority isPrio eligible), List.mem_append] at this
        rcases this with h | h
        · exact absurd h hne
        · exact h
      exact hpw.2.2 o ho e hed
    · exact absurd hmem hne

/-! ### non-vacuity: the hypotheses are met by concrete non-trivial inputs, and the model
    reproduces the example in the code's own comment -/

example : noMoreThanPercentOfTheSum [⟨0, 60⟩, ⟨1, 138⟩, ⟨2, 559⟩] 35
    = [⟨2, 264⟩, ⟨1, 264⟩, ⟨0, 229⟩] := by decide

example : sumPower [⟨0, 60⟩, ⟨1, 138⟩, ⟨2, 559⟩] ≤ 3 * maxPower (sumPower [⟨0, 60⟩, ⟨1, 138⟩, ⟨2, 559⟩]) 35 := by
  decide

-- infeasible instance: 10 validators, 5 %
example : (List.range 10).length * maxPower (sumPower ((List.range 10).map fun i => ⟨i, 10⟩)) 5
    < sumPower ((List.range 10).map fun i => ⟨i, 10⟩) := by decide

example : capValidatorSet 0 2 (rankByPriority (fun i => i == 3) [⟨1, 50⟩, ⟨2, 70⟩, ⟨3, 5⟩])
    = [⟨3, 5⟩, ⟨2, 70⟩] := by decide

end ICS.Props.C04
