/-
  C09 — Jail throttling bounds consumer-initiated jailing; bounced reports are retried.
-/
import ICS.Model.Provider
import ICS.Model.Consumer
namespace ICS.Props.C09
open ICS ICS.Provider

/-! ### provider: the slash meter -/

theorem clamp_meter (t : Throttle) (now : Time) (a : Nat) :
    (clampStep t now a).meter = if t.meter ≥ a then (a : Int) else t.meter := by
  unfold clampStep; split <;> rfl

theorem replenish_meter (t : Throttle) (now : Time) (a : Nat) :
    (replenishStep t now a).meter =
      if now ≥ t.candidate then (if t.meter + a > a then (a : Int) else t.meter + a) else t.meter := by
  unfold replenishStep; split <;> rfl

theorem replenish_period (t : Throttle) (now : Time) (a : Nat) : (replenishStep t now a).period = t.period := by
  unfold replenishStep; split <;> rfl

/-- after every BeginBlock the meter is at most the current allowance -/
theorem meter_le_allowance (t : Throttle) (now : Time) (a : Nat) :
    (checkReplenish t now a).meter ≤ a := by
  unfold checkReplenish
  rw [clamp_meter]
  split <;> omega

/-- it is replenished by at most one allowance per BeginBlock … -/
theorem replenish_at_most_allowance (t : Throttle) (now : Time) (a : Nat) :
    (checkReplenish t now a).meter ≤ t.meter + a := by
  unfold checkReplenish
  rw [clamp_meter, replenish_meter]
  split <;> split <;> (try split) <;> omega

/-- … and not at all before the replenish candidate time -/
theorem no_replenish_before_candidate (t : Throttle) (now : Time) (a : Nat) (h : now < t.candidate) :
    (checkReplenish t now a).meter ≤ t.meter := by
  unfold checkReplenish
  have hn : ¬ now ≥ t.candidate := Int.not_le.mpr h
  rw [clamp_meter, replenish_meter]
  simp only [hn, if_false]
  split <;> omega

/-- a replenishment moves the candidate one full period ahead: at most one allowance per period -/
theorem candidate_after_replenish (t : Throttle) (now : Time) (a : Nat) (h : now ≥ t.candidate) :
    (checkReplenish t now a).candidate = now + t.period := by
  unfold checkReplenish clampStep
  split
  · simp only; rw [replenish_period]
  · unfold replenishStep; simp [h]

/-- the allowance is at least 1 -/
theorem allowance_pos (t : Throttle) (total : Nat) : 1 ≤ allowance t total := by
  unfold allowance
  simp only
  split
  · omega
  · rename_i h
    have : TopN.chopRound (t.fracScaled * total) ≠ 0 := by simpa using h
    omega

/-! ### provider: handling only while the meter is non-negative -/

/-- a packet that reaches the meter check while the meter is negative is bounced and changes nothing -/
theorem bounced_when_negative (s : State) (t : Throttle) (vsc2h : List (Nat × Nat)) (chan : String) (p : SlashPkt)
    (c : CId) (hc : s.chan2c.find? (·.1 == chan) = some (chan, c))
    (hpow : p.power ≠ 0) (hdt : p.infraction = 2)
    (hid : (mappedInfractionHeight (s.get c) vsc2h p.vscId).isNone = false)
    (hl : (s.get c).phase = .launched)
    (hm : (s.get c).valset.any (·.v == providerOf (s.get c) p.key) = true)
    (hneg : t.meter < 0) :
    onRecvSlash s t vsc2h chan p = (s, t, [], .bounced) := by
  unfold onRecvSlash
  simp [hc, hpow, hdt, hid, hl, hm, hneg]

/-- a handled packet deducts the validator's voting power from the meter BEFORE handling -/
theorem handled_deducts (s : State) (t : Throttle) (vsc2h : List (Nat × Nat)) (chan : String) (p : SlashPkt)
    (c : CId) (hc : s.chan2c.find? (·.1 == chan) = some (chan, c))
    (hpow : p.power ≠ 0) (hdt : p.infraction = 2)
    (hid : (mappedInfractionHeight (s.get c) vsc2h p.vscId).isNone = false)
    (hl : (s.get c).phase = .launched)
    (hm : (s.get c).valset.any (·.v == providerOf (s.get c) p.key) = true)
    (hpos : 0 ≤ t.meter) :
    (onRecvSlash s t vsc2h chan p).2.1.meter = t.meter - effectivePower s (providerOf (s.get c) p.key) ∧
    (onRecvSlash s t vsc2h chan p).2.2.2 = .handled := by
  unfold onRecvSlash
  have : ¬ t.meter < 0 := by omega
  simp [hc, hpow, hdt, hid, hl, hm, this]

/-- staking effects (slash, jail) occur only on the handled path, hence only with a non-negative meter -/
theorem effects_only_nonneg (s : State) (t : Throttle) (vsc2h : List (Nat × Nat)) (chan : String) (p : SlashPkt)
    (h : (onRecvSlash s t vsc2h chan p).2.2.1 ≠ []) : 0 ≤ t.meter := by
  unfold onRecvSlash at h
  split at h
  · simp at h
  · simp only at h
    split at h
    · simp at h
    · split at h
      · simp at h
      · split at h
        · simp at h
        · split at h
          · simp at h
          · split at h
            · simp at h
            · split at h
              · simp at h
              · split at h
                · simp at h
                · rename_i hneg; omega

/-! ### the window bound: an abstract trace of meter events -/

inductive Ev
  | replenish (a : Nat)      -- BeginBlock with a replenishment of allowance `a`
  | clamp (a : Nat)          -- BeginBlock that only clamps to the allowance `a`
  | jail (p : Nat)           -- a handled slash packet for a validator of power `p` (needs meter ≥ 0)

/-- meter after an event; `none` = the event is not enabled (a packet is bounced when meter < 0) -/
def stepEv (m : Int) : Ev → Option Int
  | .replenish a => some (if m + a > a then a else m + a)
  | .clamp a => some (if m ≥ a then a else m)
  | .jail p => if m < 0 then none else some (m - p)

/-- run a trace: (final meter, total jailed power, total allowance accrued, largest jailed power) -/
def run : Int → List Ev → Option (Int × Nat × Nat × Nat)
  | m, [] => some (m, 0, 0, 0)
  | m, e :: es =>
    match stepEv m e with
    | none => none
    | some m' =>
      match run m' es with
      | none => none
      | some (mf, s, a, pm) =>
        match e with
        | .replenish al => some (mf, s, a + al, pm)
        | .clamp _ => some (mf, s, a, pm)
        | .jail p => some (mf, s + p, a, max pm p)

/-- potential: jailed power + final meter ≤ start meter + accrued allowances -/
theorem run_potential (m : Int) (es : List Ev) (mf : Int) (s a pm : Nat) (h : run m es = some (mf, s, a, pm)) :
    (s : Int) + mf ≤ m + a := by
  induction es generalizing m mf s a pm with
  | nil => simp [run] at h; omega
  | cons e es ih =>
    simp only [run] at h
    cases hs : stepEv m e with
    | none => simp [hs] at h
    | some m' =>
      simp only [hs] at h
      cases hr : run m' es with
      | none => simp [hr] at h
      | some r =>
        obtain ⟨mf', s', a', pm'⟩ := r
        simp only [hr] at h
        have := ih m' mf' s' a' pm' hr
        cases e with
        | replenish al =>
          simp only [Option.some.injEq, Prod.mk.injEq] at h
          obtain ⟨h1, h2, h3, h4⟩ := h
          simp only [stepEv, Option.some.injEq] at hs
          subst h1 h2 h3
          split at hs <;> omega
        | clamp al =>
          simp only [Option.some.injEq, Prod.mk.injEq] at h
          obtain ⟨h1, h2, h3, h4⟩ := h
          simp only [stepEv, Option.some.injEq] at hs
          subst h1 h2 h3
          split at hs <;> omega
        | jail p =>
          simp only [Option.some.injEq, Prod.mk.injEq] at h
          obtain ⟨h1, h2, h3, h4⟩ := h
          simp only [stepEv] at hs
          split at hs
          · cases hs
          · simp only [Option.some.injEq] at hs
            subst h1 h2 h3
            omega

/-- the meter never falls below −(largest jailed power) (when it starts non-negative) -/
theorem run_lower (m : Int) (es : List Ev) (mf : Int) (s a pm : Nat) (h : run m es = some (mf, s, a, pm))
    (hm : 0 ≤ m) : -(pm : Int) ≤ mf := by
  induction es generalizing m mf s a pm with
  | nil => simp [run] at h; omega
  | cons e es ih =>
    simp only [run] at h
    cases hs : stepEv m e with
    | none => simp [hs] at h
    | some m' =>
      simp only [hs] at h
      cases hr : run m' es with
      | none => simp [hr] at h
      | some r =>
        obtain ⟨mf', s', a', pm'⟩ := r
        simp only [hr] at h
        cases e with
        | replenish al =>
          simp only [Option.some.injEq, Prod.mk.injEq] at h
          obtain ⟨h1, h2, h3, h4⟩ := h
          simp only [stepEv, Option.some.injEq] at hs
          have hm' : 0 ≤ m' := by split at hs <;> omega
          have := ih m' mf' s' a' pm' hr hm'
          omega
        | clamp al =>
          simp only [Option.some.injEq, Prod.mk.injEq] at h
          obtain ⟨h1, h2, h3, h4⟩ := h
          simp only [stepEv, Option.some.injEq] at hs
          have hm' : 0 ≤ m' := by split at hs <;> omega
          have := ih m' mf' s' a' pm' hr hm'
          omega
        | jail p =>
          simp only [Option.some.injEq, Prod.mk.injEq] at h
          obtain ⟨h1, h2, h3, h4⟩ := h
          simp only [stepEv] at hs
          split at hs
          · cases hs
          · simp only [Option.some.injEq] at hs
            -- after the jail the meter may be negative: bound the rest generically
            subst h1 h2 h3 h4
            by_cases hneg : 0 ≤ m'
            · have := ih m' mf' s' a' pm' hr hneg
              omega
            · -- meter negative: no further jail is enabled until it is non-negative again;
              -- use the general lower bound lemma below
              have := run_lower_aux m' es mf' s' a' pm' hr
              omega
where
  /-- from any start, the final meter is at least min(start, −largest jailed power) -/
  run_lower_aux (m : Int) (es : List Ev) (mf : Int) (s a pm : Nat) (h : run m es = some (mf, s, a, pm)) :
      min m (-(pm : Int)) ≤ mf := by
    induction es generalizing m mf s a pm with
    | nil => simp [run] at h; omega
    | cons e es ih =>
      simp only [run] at h
      cases hs : stepEv m e with
      | none => simp [hs] at h
      | some m' =>
        simp only [hs] at h
        cases hr : run m' es with
        | none => simp [hr] at h
        | some r =>
          obtain ⟨mf', s', a', pm'⟩ := r
          simp only [hr] at h
          have := ih m' mf' s' a' pm' hr
          cases e with
          | replenish al =>
            simp only [Option.some.injEq, Prod.mk.injEq] at h
            obtain ⟨h1, h2, h3, h4⟩ := h
            simp only [stepEv, Option.some.injEq] at hs
            split at hs <;> omega
          | clamp al =>
            simp only [Option.some.injEq, Prod.mk.injEq] at h
            obtain ⟨h1, h2, h3, h4⟩ := h
            simp only [stepEv, Option.some.injEq] at hs
            split at hs <;> omega
          | jail p =>
            simp only [Option.some.injEq, Prod.mk.injEq] at h
            obtain ⟨h1, h2, h3, h4⟩ := h
            simp only [stepEv] at hs
            split at hs
            · cases hs
            · simp only [Option.some.injEq] at hs
              omega

/-- **Window bound.**  Over any trace segment that starts with a non-negative meter, the voting
    power jailed on behalf of consumers is at most the start meter plus the allowances accrued in
    the segment plus one (the largest) jailed validator's power. -/
theorem window_bound (m : Int) (es : List Ev) (mf : Int) (s a pm : Nat) (h : run m es = some (mf, s, a, pm))
    (hm : 0 ≤ m) : (s : Int) ≤ m + a + pm := by
  have h1 := run_potential m es mf s a pm h
  have h2 := run_lower m es mf s a pm h hm
  omega

/-! ### consumer: the retry state machine -/
open ICS.Consumer in
/-- while the slash packet is in flight (waiting for its acknowledgement) sending is not permitted -/
theorem no_send_while_waiting (s : Consumer.State) (r : Consumer.SlashRecord) (h : s.record = some r) (hw : r.waiting = true) :
    Consumer.sendingPermitted s = false := by
  unfold Consumer.sendingPermitted; simp [h, hw]

open ICS.Consumer in
/-- after a bounce the retry is not sent before the retry delay has elapsed -/
theorem retry_not_before_delay (s : Consumer.State) (r : Consumer.SlashRecord) (h : s.record = some r)
    (hnow : s.now ≤ r.sendTime + s.retryDelay) : Consumer.sendingPermitted s = false := by
  unfold Consumer.sendingPermitted
  simp only [h]
  split
  · rfl
  · simp; omega

open ICS.Consumer in
/-- a bounce keeps the slash packet at the head of the queue (not dropped, not duplicated) and only
    clears the waiting flag; a handled / v1 acknowledgement removes exactly the head -/
theorem ack_queue_effect (s s' : Consumer.State) (k : Consumer.AckKind) (h : Consumer.onAck s true k = some s') :
    (k = .bounced → s'.queue = s.queue ∧ ∃ r, s.record = some r ∧ s'.record = some { r with waiting := false }) ∧
    ((k = .handled ∨ k = .v1) → s'.queue = s.queue.drop 1 ∧ s'.record = none) := by
  cases k with
  | error => simp [Consumer.onAck] at h
  | handled => simp [Consumer.onAck] at h; subst h; simp
  | v1 => simp [Consumer.onAck] at h; subst h; simp
  | bounced =>
    simp only [Consumer.onAck] at h
    cases hr : s.record with
    | none => simp [hr] at h
    | some r =>
      simp [hr] at h; subst h
      simp

open ICS.Consumer in
/-- with nothing permitted, EndBlock sends nothing and leaves queue and record alone -/
theorem blocked_sends_nothing (s : Consumer.State) (h : Consumer.sendingPermitted s = false) (p : Consumer.CPacket)
    (q : List Consumer.CPacket) (hq : s.queue = p :: q) (hc : s.pchan.isSome) (ho : s.chanOpen = true) :
    Consumer.sendPackets s = (s, []) := by
  unfold Consumer.sendPackets
  cases hp : s.pchan with
  | none => simp [hp] at hc
  | some ch =>
    simp only [ho, Bool.not_true, Bool.false_eq_true, if_false, hq, List.length_cons]
    simp [Consumer.sendPackets.go, h]

/-! ### non-vacuity -/
example : run 3 [.jail 5, .replenish 4, .jail 2, .clamp 4] = some (0, 7, 4, 5) := by decide
example : run (-1) [.jail 5] = none := by decide

end ICS.Props.C09
