/-
  C03 — Top-N consumers are validated by every validator in the top N% of power.
-/
import ICS.Model.TopN
import ICS.Model.Epoch
import ICS.Model.Provider
import ICS.Lemmas.Sort
namespace ICS.Props.C03
open ICS ICS.TopN

/-- the scan returns the LAST power of the SHORTEST prefix of the list whose cumulative share
    reaches the threshold: there is a split `pre ++ p :: post` with the prefix through `p` reaching
    it and no shorter prefix doing so -/
theorem scan_spec (total thr : Nat) (l : List Nat) (acc p : Nat) (h : scan total thr l acc = some p) :
    ∃ pre post, l = pre ++ p :: post ∧
      decQuo (acc + pre.sum + p) total ≥ thr ∧
      ∀ pre' q rest, pre = pre' ++ q :: rest → decQuo (acc + pre'.sum + q) total < thr := by
  induction l generalizing acc with
  | nil => simp [scan] at h
  | cons a t ih =>
    simp only [scan] at h
    split at h
    · rename_i hge
      simp only [Option.some.injEq] at h
      subst h
      refine ⟨[], t, rfl, by simpa using hge, ?_⟩
      intro pre' q rest hp
      simp at hp
    · rename_i hlt
      obtain ⟨pre, post, hl, hr, hmin⟩ := ih (acc + a) h
      refine ⟨a :: pre, post, by rw [hl]; rfl, ?_, ?_⟩
      · simp only [List.sum_cons]; rw [← Nat.add_assoc]; exact hr
      · intro pre' q rest hp
        cases pre' with
        | nil =>
          simp only [List.nil_append, List.cons.injEq] at hp
          obtain ⟨rfl, _⟩ := hp
          simpa using Nat.lt_of_not_le hlt
        | cons b pre'' =>
          simp only [List.cons_append, List.cons.injEq] at hp
          obtain ⟨rfl, hp⟩ := hp
          have := hmin pre'' q rest hp
          simpa [List.sum_cons, Nat.add_assoc] using this

/-- the returned threshold is one of the powers (so "power ≥ m" is met by at least one validator) -/
theorem threshold_is_member (powers : List Nat) (topN m : Nat) (h : computeMinPowerInTopN powers topN = some m) :
    m ∈ powers := by
  unfold computeMinPowerInTopN at h
  split at h
  · cases h
  · simp only at h
    split at h
    · cases h
    · obtain ⟨pre, post, hl, _, _⟩ := scan_spec _ _ _ _ _ h
      have : m ∈ sortDescNat powers := by rw [hl]; simp
      exact (isort_perm _ _).mem_iff.mp this

/-- Top-N values outside (0, 100] are rejected -/
theorem invalid_topn_rejected (powers : List Nat) (topN : Nat) (h : topN = 0 ∨ topN > 100) :
    computeMinPowerInTopN powers topN = none := by
  unfold computeMinPowerInTopN
  rcases h with h | h
  · simp [h]
  · have : (topN == 0 || decide (topN > 100)) = true := by simp [h]
    simp [this]

/-- the scan runs over the powers in descending order -/
theorem scan_order_desc (powers : List Nat) : (sortDescNat powers).Pairwise (fun a b => a ≥ b) := by
  have := isort_pairwise (fun (a b : Nat) => decide (a ≥ b)) (by intro a b c; simp; omega) (by intro a b; simp; omega) powers
  exact this.imp (by intro a b h; simpa using h)

/-- a validator at or above the stored threshold cannot opt out of a Top-N consumer -/
theorem optout_blocked_at_threshold (s : Provider.State) (c : Provider.CId) (v : Nat) (mp : Nat)
    (htop : ((s.get c).ps.getD {}).topN > 0) (hmp : (s.get c).minpow = some mp)
    (hpow : Epoch.lastPower s.stk v ≥ mp) : Provider.msgOptOut s c v v = none := by
  unfold Provider.msgOptOut
  simp only [hmp, htop]
  split
  · rfl
  · split
    · rfl
    · split
      · rfl
      · simp [hpow]

/-- … while a validator strictly below it may -/
theorem optout_allowed_below (s : Provider.State) (c : Provider.CId) (v : Nat) (mp : Nat)
    (hc : Provider.validConsumerId c = true) (hv : Provider.valExists s v = true)
    (hl : (s.get c).phase = .launched) (hmp : (s.get c).minpow = some mp)
    (hpow : Epoch.lastPower s.stk v < mp) : (Provider.msgOptOut s c v v).isSome = true := by
  unfold Provider.msgOptOut
  simp only [hc, hv, hl, hmp]
  have : ¬ Epoch.lastPower s.stk v ≥ mp := by omega
  by_cases ht : ((s.get c).ps.getD {}).topN > 0 <;> simp [ht, this]

/-- every active validator at or above the threshold is opted in after the epoch computation -/
theorem topn_auto_optin (inp : Epoch.Input) (mp v : Nat) (hv : v ∈ Epoch.active inp)
    (hp : Epoch.lastPower inp.stk v ≥ mp) : v ∈ Epoch.optinAfter inp mp := by
  unfold Epoch.optinAfter
  -- generalise the fold over the active list
  have key : ∀ (l : List Nat) (acc : List Nat), (v ∈ acc ∨ v ∈ l) →
      v ∈ l.foldl (fun acc v => if Epoch.lastPower inp.stk v ≥ mp ∧ ¬ acc.contains v then acc ++ [v] else acc) acc := by
    intro l
    induction l with
    | nil => intro acc h; rcases h with h | h; exact h; cases h
    | cons a t ih =>
      intro acc h
      simp only [List.foldl_cons]
      apply ih
      rcases h with h | h
      · left; split
        · exact List.mem_append_left _ h
        · exact h
      · rcases List.mem_cons.mp h with rfl | h
        · left
          by_cases hc : acc.contains v = true
          · have : v ∈ acc := by simpa using hc
            split
            · exact List.mem_append_left _ this
            · exact this
          · have : (Epoch.lastPower inp.stk v ≥ mp ∧ ¬ acc.contains v = true) := ⟨hp, hc⟩
            rw [if_pos this]; simp
        · right; exact h
  exact key _ _ (Or.inr hv)

/-- validators that opted in themselves stay opted in -/
theorem optin_kept (inp : Epoch.Input) (mp v : Nat) (hv : v ∈ inp.optin) : v ∈ Epoch.optinAfter inp mp := by
  unfold Epoch.optinAfter
  have key : ∀ (l : List Nat) (acc : List Nat), v ∈ acc →
      v ∈ l.foldl (fun acc v => if Epoch.lastPower inp.stk v ≥ mp ∧ ¬ acc.contains v then acc ++ [v] else acc) acc := by
    intro l
    induction l with
    | nil => intro acc h; exact h
    | cons a t ih =>
      intro acc h
      simp only [List.foldl_cons]
      apply ih
      split
      · exact List.mem_append_left _ h
      · exact h
  exact key _ _ hv

/-! ### non-vacuity -/
example : computeMinPowerInTopN [40, 30, 20, 6, 4] 75 = some 20 := by decide
example : computeMinPowerInTopN [40, 30, 20] 75 = some 30 := by decide
example : computeMinPowerInTopN [5, 5, 5, 5] 50 = some 5 := by decide
example : computeMinPowerInTopN [1, 1, 1] 100 = some 1 := by decide

/-! ### bridge: the LegacyDec comparison IS the exact rational comparison (total < 2·10^16) -/

/-- banker's rounding of `x / 10^18` reaches an EVEN integer `t` exactly when `x` reaches `t - 1/2` -/
theorem chopRound_ge_even (x t' : Nat) :
    chopRound x ≥ 2 * t' ↔ x + 500000000000000000 ≥ 2 * t' * 1000000000000000000 := by
  unfold chopRound prec
  have e : (10 : Nat) ^ 18 = 1000000000000000000 := by decide
  simp only [e]
  split
  · omega
  · split
    · omega
    · split
      · rename_i h; have := Nat.mod_two_eq_zero_or_one (x / 1000000000000000000); simp at h; omega
      · rename_i h; simp at h; omega

/-- `LegacyNewDec(a).Quo(LegacyNewDec(b)) ≥ LegacyNewDec(N).QuoInt64(100)` holds exactly when
    `100·a ≥ N·b`, for every total below 2·10^16 (the rounding of the quotient can change the
    comparison only for larger totals; the property's "at least N %" is the exact comparison) -/
theorem decQuo_ge_threshold_iff (a b n : Nat) (hb : 0 < b) (hlt : b < 20000000000000000) (hn : 1 ≤ n) :
    decQuo a b ≥ threshold n ↔ 100 * a ≥ n * b := by
  have e : (10 : Nat) ^ 18 = 1000000000000000000 := by decide
  have hthr : threshold n = 2 * (n * 5000000000000000) := by
    unfold threshold prec; rw [e]; omega
  have hX : a * prec * (prec * prec) / (b * prec) = a * 1000000000000000000000000000000000000 / b := by
    unfold prec; rw [e]
    have : a * 1000000000000000000 * (1000000000000000000 * 1000000000000000000)
        = a * 1000000000000000000000000000000000000 * 1000000000000000000 := by
      rw [Nat.mul_assoc, Nat.mul_assoc]
    rw [this, Nat.mul_div_mul_right _ _ (by decide : 0 < 1000000000000000000)]
  unfold decQuo
  rw [hX, hthr, chopRound_ge_even]
  -- X + 5·10^17 ≥ n·10^34  ⇔  X ≥ n·10^34 - 5·10^17  ⇔  (n·10^34 - 5·10^17)·b ≤ a·10^36
  generalize hm : n * b = m
  have hdiv : ∀ K, K ≤ a * 1000000000000000000000000000000000000 / b ↔ K * b ≤ a * 1000000000000000000000000000000000000 :=
    fun K => Nat.le_div_iff_mul_le hb
  constructor
  · intro h
    have hK : n * 10000000000000000000000000000000000 - 500000000000000000
        ≤ a * 1000000000000000000000000000000000000 / b := by omega
    have := (hdiv _).mp hK
    rw [Nat.sub_mul] at this
    have hnb : n * 10000000000000000000000000000000000 * b = 10000000000000000000000000000000000 * m := by
      rw [← hm, Nat.mul_right_comm, Nat.mul_comm]
    rw [hnb] at this
    omega
  · intro h
    have hK : (n * 10000000000000000000000000000000000 - 500000000000000000) * b
        ≤ a * 1000000000000000000000000000000000000 := by
      rw [Nat.sub_mul]
      have hnb : n * 10000000000000000000000000000000000 * b = 10000000000000000000000000000000000 * m := by
        rw [← hm, Nat.mul_right_comm, Nat.mul_comm]
      rw [hnb]; omega
    have := (hdiv _).mpr hK
    omega

/-- the scan with the exact comparison -/
def scanExact (total n : Nat) : List Nat → Nat → Option Nat
  | [], _ => none
  | p :: ps, acc => if 100 * (acc + p) ≥ n * total then some p else scanExact total n ps (acc + p)

/-- for totals below 2·10^16 the implementation's scan is the exact scan -/
theorem scan_eq_exact (total n : Nat) (ht : 0 < total) (hlt : total < 20000000000000000) (hn : 1 ≤ n)
    (l : List Nat) (acc : Nat) : scan total (threshold n) l acc = scanExact total n l acc := by
  induction l generalizing acc with
  | nil => rfl
  | cons p ps ih =>
    simp only [scan, scanExact]
    by_cases h : 100 * (acc + p) ≥ n * total
    · rw [if_pos ((decQuo_ge_threshold_iff _ _ _ ht hlt hn).mpr h), if_pos h]
    · rw [if_neg (fun hh => h ((decQuo_ge_threshold_iff _ _ _ ht hlt hn).mp hh)), if_neg h]
      exact ih _

end ICS.Props.C03
