/-
  C11 — Stopped consumers get no updates and are removed after the unbonding period.
-/
import ICS.Props.C10
namespace ICS.Props.C11
open ICS ICS.Provider ICS.Spec.Prov

/-- every stop path ends in StopAndPrepareForConsumerRemoval, which marks the consumer stopped and
    schedules the removal one unbonding period later -/
theorem stop_schedules_removal (s : State) (c : CId) :
    ((stopConsumer s c).get c).phase = .stopped ∧
    ((stopConsumer s c).get c).removal = some (s.now + s.unbonding) ∧
    (stopConsumer s c).removeQ = tqAppend s.removeQ (s.now + s.unbonding) c :=
  ⟨(C10.stop_sets_stopped s c).1, (C10.stop_sets_stopped s c).2, rfl⟩

/-- stopping leaves key assignments, client binding, validator set and evidence state in place -/
theorem stop_keeps_state (s : State) (c : CId) :
    ((stopConsumer s c).get c).ka = (s.get c).ka ∧ ((stopConsumer s c).get c).byaddr = (s.get c).byaddr ∧
    ((stopConsumer s c).get c).client = (s.get c).client ∧ ((stopConsumer s c).get c).valset = (s.get c).valset ∧
    ((stopConsumer s c).get c).evmin = (s.get c).evmin ∧ ((stopConsumer s c).get c).infr = (s.get c).infr := by
  have h : (stopConsumer s c).get c = stopRecord (s.now + s.unbonding) (s.get c) :=
    get_set_upd s c (stopRecord (s.now + s.unbonding)) (C10.stopRecord_id _)
  rw [h]; exact ⟨rfl, rfl, rfl, rfl, rfl, rfl⟩

/-- a consumer that is not launched gets no validator-set computation and no queued packet -/
theorem queue_skips_unlaunched (s : State) (c : CId) (h : (s.get c).phase ≠ .launched) :
    queueOne s c = some s := by
  unfold queueOne
  simp [h]

/-- … and nothing is sent for it -/
theorem send_skips_unlaunched (acc : State × List (CId × Packet)) (c : CId)
    (h : (acc.1.get c).phase ≠ .launched) : sendOne acc c = acc := by
  unfold sendOne
  simp [h]

/-- deletion leaves only descriptive records: every piece of protocol state is cleared -/
theorem delete_clears (s s' : State) (c : CId) (h : deleteConsumerChain s c = some s') :
    let x := s'.get c
    x.phase = .deleted ∧ x.client = none ∧ x.channel = none ∧ x.genesis = none ∧ x.valset = [] ∧
    x.optin = [] ∧ x.ka = [] ∧ x.byaddr = [] ∧ x.prune = [] ∧ x.pend = [] ∧ x.acks = [] ∧ x.allow = [] ∧
    x.deny = [] ∧ x.prio = [] ∧ x.commission = [] ∧ x.minpow = none ∧ x.qinfr = none ∧ x.removal = none ∧
    x.initH = none ∧
    -- descriptive records are retained
    x.owner = (s.get c).owner ∧ x.chain = (s.get c).chain ∧ x.ps = (s.get c).ps := by
  unfold deleteConsumerChain at h
  simp only at h
  split at h
  · cases h
  · simp only [Option.some.injEq] at h
    subst h
    have : ∀ (t : State) (a : List (String × CId)) (b : List (String × CId)) (q : TimeQueue),
        State.get { t with client2c := a, chan2c := b, infrQ := q } c = t.get c := fun _ _ _ _ => rfl
    simp only [this, get_set_upd s c clearRecord C10.clearRecord_id]
    refine ⟨rfl, rfl, rfl, rfl, rfl, rfl, rfl, rfl, rfl, rfl, rfl, rfl, rfl, rfl, rfl, rfl, rfl, rfl, rfl, rfl, rfl, rfl⟩

/-- removal is not early: BeginBlock only takes consumers whose removal time has been reached -/
theorem removal_not_early (s : State) :
    ∀ c ∈ (tqConsume s.removeQ s.now 200).1, ∃ e ∈ s.removeQ, e.1 ≤ s.now ∧ c ∈ e.2 :=
  tqConsume_due _ _ _

/-- a repeated stop only adds a later queue entry; processing an entry of an already deleted
    consumer fails harmlessly (nothing changes) -/
theorem delete_twice_noop (s : State) (c : CId) (h : (s.get c).phase = .deleted) :
    deleteConsumerChain s c = none := by
  unfold deleteConsumerChain
  simp [h]

/-! ### non-vacuity -/
example :
    let s : State := { consumers := [{ id := "0", phase := .stopped, client := some "07-tendermint-0", ka := [(1, 40)],
                                       byaddr := [(40, 1)], removal := some 10 }],
                       client2c := [("07-tendermint-0", "0")], removeQ := [(10, ["0"])], now := 10 }
    ((beginBlockRemove s).get "0").phase = .deleted ∧ (beginBlockRemove s).client2c = [] ∧
    ((beginBlockRemove { s with now := 9 }).get "0").phase = .stopped := by decide

/-! ### the removal schedule, per consumer -/

theorem set_removeQ (s : State) (x : Consumer) : (s.set x).removeQ = s.removeQ := by
  unfold State.set; split <;> rfl

theorem delete_removeQ (s s' : State) (c : CId) (h : deleteConsumerChain s c = some s') :
    s'.removeQ = s.removeQ := by
  unfold deleteConsumerChain at h
  by_cases hp : ((s.get c).phase != Phase.stopped) = true
  · simp only [hp, if_true] at h; cases h
  · simp only [hp, Bool.false_eq_true, if_false, Option.some.injEq] at h
    rw [← h]; exact set_removeQ _ _

theorem removeLoop_removeQ (ids : List CId) (s : State) :
    (ids.foldl (fun s c => match deleteConsumerChain s c with | some s' => s' | none => s) s).removeQ
      = s.removeQ := by
  induction ids generalizing s with
  | nil => rfl
  | cons c rest ih =>
    simp only [List.foldl_cons]
    rw [ih]
    cases hd : deleteConsumerChain s c with
    | none => rfl
    | some s1 => exact delete_removeQ s s1 c hd

/-- the deletion loop never touches the removal schedule: after BeginBlock it is exactly what the
    consumption left -/
theorem beginBlockRemove_removeQ (s : State) :
    (beginBlockRemove s).removeQ = (tqConsume s.removeQ s.now 200).2 := by
  unfold beginBlockRemove
  exact removeLoop_removeQ _ _

/-- per consumer: removals attempted in this block plus removals still scheduled are the removals
    that were scheduled — a stopped consumer is neither forgotten nor removed twice -/
theorem removal_counts_conserved (s : State) (c : CId) :
    ((tqConsume s.removeQ s.now 200).1.filter (· == c)).length + countIn (beginBlockRemove s).removeQ c
      = countIn s.removeQ c := by
  rw [beginBlockRemove_removeQ]
  have h := congrArg (fun l => (l.filter (· == c)).length) (tqConsume_conserves s.removeQ s.now 200)
  simp only [List.filter_append, List.length_append] at h
  exact h

/-- stopping schedules the removal exactly once more for that consumer and for nobody else -/
theorem stop_schedules_once (s : State) (c c' : CId) (hs : sortedQ s.removeQ = true) :
    countIn (stopConsumer s c).removeQ c' = countIn s.removeQ c' + (if c' = c then 1 else 0) :=
  C10.countIn_tqAppend s.removeQ (s.now + s.unbonding) c c' hs

/-- one iteration of BeginBlockRemoveConsumers -/
def rmStep (s : State) (c : CId) : State :=
  match deleteConsumerChain s c with | some s' => s' | none => s

theorem beginBlockRemove_eq (s : State) :
    beginBlockRemove s =
      (tqConsume s.removeQ s.now 200).1.foldl rmStep { s with removeQ := (tqConsume s.removeQ s.now 200).2 } := rfl

theorem delete_other (s s' : State) (c c' : CId) (h : deleteConsumerChain s c = some s') (hne : c' ≠ c) :
    s'.get c' = s.get c' := by
  unfold deleteConsumerChain at h
  simp only at h
  split at h
  · cases h
  · simp only [Option.some.injEq] at h
    subst h
    have : ∀ (t : State) (a : List (String × CId)) (b : List (String × CId)) (q : TimeQueue),
        State.get { t with client2c := a, chan2c := b, infrQ := q } c' = t.get c' := fun _ _ _ _ => rfl
    rw [this]
    exact get_set_upd_other s c c' clearRecord C10.clearRecord_id hne

theorem rmStep_other (s : State) (c c' : CId) (hne : c' ≠ c) : (rmStep s c).get c' = s.get c' := by
  unfold rmStep
  cases hd : deleteConsumerChain s c with
  | none => rfl
  | some s1 => exact delete_other s s1 c c' hd hne

/-- the deletion loop touches only the consumers it took from the removal queue -/
theorem rmLoop_not_mem (ids : List CId) (s : State) (c : CId) (h : ¬ c ∈ ids) :
    (ids.foldl rmStep s).get c = s.get c := by
  induction ids generalizing s with
  | nil => rfl
  | cons d rest ih =>
    simp only [List.foldl_cons]
    rw [ih _ (fun hm => h (List.mem_cons_of_mem _ hm))]
    exact rmStep_other s d c (fun e => h (by rw [e]; exact List.mem_cons_self))

/-- a consumer whose removal is not due in this block (or that has none scheduled) is left exactly
    as it was by BeginBlock's removals: launched consumers are never deleted by somebody else's removal -/
theorem beginBlockRemove_others (s : State) (c : CId) (h : ¬ c ∈ (tqConsume s.removeQ s.now 200).1) :
    (beginBlockRemove s).get c = s.get c := by
  rw [beginBlockRemove_eq, rmLoop_not_mem _ _ c h]
  rfl

end ICS.Props.C11
