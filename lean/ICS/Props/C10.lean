/-
  C10 — Consumer lifecycle follows the phase machine and the launch schedule.
-/
import ICS.Lemmas.Prov
namespace ICS.Props.C10
open ICS ICS.Provider ICS.Spec.Prov

/-! ### the phase machine -/

/-- order of the phases along the only permitted direction -/
def rank : Phase → Nat
  | .unspecified => 0 | .registered => 1 | .initialized => 1 | .launched => 2 | .stopped => 3 | .deleted => 4

/-- every permitted edge is weakly forward: a launched consumer never returns to a pre-launch
    phase and a deleted one never becomes active again -/
theorem edge_forward (p q : Phase) (h : edgeOK p q = true) : rank p ≤ rank q := by
  cases p <;> cases q <;> simp_all [edgeOK, rank]

theorem no_return_from_launched (q : Phase) (h : edgeOK .launched q = true) :
    q = .launched ∨ q = .stopped := by
  cases q <;> simp_all [edgeOK]

theorem deleted_is_final (q : Phase) (h : edgeOK .deleted q = true) : q = .deleted := by
  cases q <;> simp_all [edgeOK]

/-- a history of phases of one consumer, each step a permitted edge -/
def pathOK : List Phase → Bool
  | p :: q :: rest => edgeOK p q && pathOK (q :: rest)
  | _ => true

/-- along any history the rank never decreases: once launched never pre-launch again, once
    deleted never anything else -/
theorem path_forward (p : Phase) (ps : List Phase) (h : pathOK (p :: ps) = true) :
    ∀ q ∈ ps, rank p ≤ rank q := by
  induction ps generalizing p with
  | nil => intro q hq; cases hq
  | cons a t ih =>
    simp only [pathOK, Bool.and_eq_true] at h
    intro q hq
    have h1 := edge_forward p a h.1
    rcases List.mem_cons.mp hq with rfl | hq
    · exact h1
    · exact Nat.le_trans h1 (ih a h.2 q hq)

/-! ### ids -/

theorem initializeAndPrepare_nextId (s s' : State) (c : CId) (t : Time)
    (h : initializeAndPrepare s c t = some s') : s'.nextId = s.nextId := by
  unfold initializeAndPrepare at h
  simp only at h
  split at h
  · simp only [Option.some.injEq] at h; subst h; rfl
  · split at h
    · cases h
    · simp only [Option.some.injEq] at h; subst h; simp [set_nextId]

/-- each consumer id is issued once, in increasing order -/
theorem create_issues_next_id (s : State) (a : CreateArgs) (s' : State) (c : CId)
    (h : createConsumer s a = some (s', c)) : c = toString s.nextId ∧ s'.nextId = s.nextId + 1 := by
  unfold createConsumer at h
  split at h
  · simp only at h
    split at h
    · cases h
    · rename_i s2 hs2
      simp only [Option.some.injEq, Prod.mk.injEq] at h
      obtain ⟨h1, h2⟩ := h
      subst h1
      refine ⟨h2.symm, ?_⟩
      rw [initializeAndPrepare_nextId _ _ _ _ hs2]
  · cases h

/-- a rejected create changes nothing (the function returns no state at all) and an accepted one
    passed every check -/
theorem create_checked (s : State) (a : CreateArgs) (r : State × CId) (h : createConsumer s a = some r) :
    createOK a = true := by
  unfold createConsumer at h
  split at h
  · assumption
  · cases h

/-! ### stop / delete edges -/

theorem stopRecord_id (t : Time) (x : Consumer) : (stopRecord t x).id = x.id := rfl
theorem clearRecord_id (x : Consumer) : (clearRecord x).id = x.id := rfl

/-- every way of stopping goes through StopAndPrepareForConsumerRemoval: the phase becomes stopped
    and the removal time is one unbonding period from now -/
theorem stop_sets_stopped (s : State) (c : CId) :
    ((stopConsumer s c).get c).phase = .stopped ∧
    ((stopConsumer s c).get c).removal = some (s.now + s.unbonding) := by
  have h : (stopConsumer s c).get c = stopRecord (s.now + s.unbonding) (s.get c) :=
    get_set_upd s c (stopRecord (s.now + s.unbonding)) (stopRecord_id _)
  rw [h]; exact ⟨rfl, rfl⟩

theorem stop_leaves_others (s : State) (c c' : CId) (h : c' ≠ c) : (stopConsumer s c).get c' = s.get c' :=
  get_set_upd_other s c c' (stopRecord (s.now + s.unbonding)) (stopRecord_id _) h

/-- MsgRemoveConsumer succeeds only for the owner of a launched consumer and stops it -/
theorem remove_requires_owner_launched (s s' : State) (sender : String) (c : CId)
    (h : removeConsumer s sender c = some s') :
    sender = (s.get c).owner ∧ (s.get c).phase = .launched ∧ s' = stopConsumer s c := by
  unfold removeConsumer at h
  split at h
  · cases h
  · simp only at h
    split at h
    · cases h
    · split at h
      · cases h
      · split at h
        · cases h
        · rename_i h1 h2 h3
          simp only [Option.some.injEq] at h
          exact ⟨by simpa using h2, by simpa using h3, h.symm⟩

/-- DeleteConsumerChain only deletes stopped consumers, and marks them deleted -/
theorem delete_requires_stopped (s s' : State) (c : CId) (h : deleteConsumerChain s c = some s') :
    (s.get c).phase = .stopped ∧ (s'.get c).phase = .deleted := by
  unfold deleteConsumerChain at h
  simp only at h
  split at h
  · cases h
  · rename_i hp
    simp only [Option.some.injEq] at h
    subst h
    refine ⟨by simpa using hp, ?_⟩
    have : ∀ (t : State) (a : List (String × CId)) (b : List (String × CId)) (q : TimeQueue),
        State.get { t with client2c := a, chan2c := b, infrQ := q } c = t.get c := fun _ _ _ _ => rfl
    rw [this, get_set_upd s c clearRecord clearRecord_id]
    rfl

/-! ### the schedule -/

/-- BeginBlock consumes from the spawn queue: nothing lost or duplicated, at most 200 per block,
    only consumers whose spawn time has come -/
theorem launch_queue_conserved (s : State) :
    (tqConsume s.spawnQ s.now 200).1 ++ flatQ (tqConsume s.spawnQ s.now 200).2 = flatQ s.spawnQ :=
  tqConsume_conserves _ _ _

theorem launch_at_most_200 (s : State) : (tqConsume s.spawnQ s.now 200).1.length ≤ 200 :=
  tqConsume_limit _ _ _

theorem launch_only_due (s : State) :
    ∀ c ∈ (tqConsume s.spawnQ s.now 200).1, ∃ e ∈ s.spawnQ, e.1 ≤ s.now ∧ c ∈ e.2 :=
  tqConsume_due _ _ _

/-! ### non-vacuity -/

example : tqConsume [(1, ["a", "b"]), (2, ["c"]), (9, ["d"])] 5 2 = (["a", "b"], [(2, ["c"]), (9, ["d"])]) := by decide
example : tqConsume [(1, ["a", "b", "x"]), (2, ["c"])] 5 2 = (["a", "b"], [(1, ["x"]), (2, ["c"])]) := by decide
example : edgeOK .initialized .launched = true ∧ edgeOK .launched .registered = false := by decide

/-! ### "scheduled exactly once": how the time-queue operations change the number of entries of a consumer
    (used for the launch, removal and infraction-parameter schedules alike) -/

section Queue

theorem countIn_nil (c : CId) : countIn [] c = 0 := rfl

theorem countIn_cons (e : Time × List CId) (q : TimeQueue) (c : CId) :
    countIn (e :: q) c = (e.2.filter (· == c)).length + countIn q c := by
  simp [countIn, flatQ, List.flatMap_cons, List.filter_append]

theorem countIn_append (a b : TimeQueue) (c : CId) : countIn (a ++ b) c = countIn a c + countIn b c := by
  induction a with
  | nil => simp [countIn_nil]
  | cons e a ih => rw [List.cons_append, countIn_cons, countIn_cons, ih]; omega

/-- splitting a queue at a time that does not occur in it loses nothing -/
theorem countIn_split (q : TimeQueue) (t : Time) (c : CId) (h : q.any (·.1 == t) = false) :
    countIn (q.filter (fun e => decide (e.1 < t))) c + countIn (q.filter (fun e => decide (t < e.1))) c = countIn q c := by
  induction q with
  | nil => rfl
  | cons e q ih =>
    have hq : q.any (·.1 == t) = false := by
      simp only [List.any_cons, Bool.or_eq_false_iff] at h; exact h.2
    have he : e.1 ≠ t := by
      simp only [List.any_cons, Bool.or_eq_false_iff, beq_eq_false_iff_ne] at h; exact h.1
    have := ih hq
    by_cases hlt : e.1 < t
    · have h2 : ¬ (t < e.1) := Int.not_lt.mpr (Int.le_of_lt hlt)
      rw [List.filter_cons_of_pos (p := fun (e : Time × List CId) => decide (e.1 < t)) (by simpa using hlt),
          List.filter_cons_of_neg (p := fun (e : Time × List CId) => decide (t < e.1)) (by simpa using h2), countIn_cons, countIn_cons]
      rw [← this]; simp only [Nat.add_assoc]
    · have h2 : t < e.1 := by have h3 := Int.not_lt.mp hlt; have h4 : t ≠ e.1 := Ne.symm he; exact Int.lt_iff_le_and_ne.mpr ⟨h3, h4⟩
      rw [List.filter_cons_of_neg (p := fun (e : Time × List CId) => decide (e.1 < t)) (by simpa using hlt),
          List.filter_cons_of_pos (p := fun (e : Time × List CId) => decide (t < e.1)) (by simpa using h2), countIn_cons, countIn_cons]
      rw [← this]; simp only [Nat.add_assoc, Nat.add_left_comm]

theorem sortedQ_cons (e : Time × List CId) (q : TimeQueue) (h : sortedQ (e :: q) = true) :
    (∀ f ∈ q, e.1 < f.1) ∧ sortedQ q = true := by
  simp only [sortedQ, Bool.and_eq_true, List.all_eq_true, decide_eq_true_eq] at h
  exact h

theorem count_singleton (c c' : CId) : ([c].filter (· == c')).length = if c' = c then 1 else 0 := by
  by_cases h : c' = c
  · subst h; simp
  · have : (c == c') = false := by simp; exact fun e => h e.symm
    simp [this, h]

/-- appending to the entries of time `t` (there is at most one in a sorted queue) -/
theorem countIn_map_append (q : TimeQueue) (t : Time) (c c' : CId) (hs : sortedQ q = true)
    (h : q.any (·.1 == t) = true) :
    countIn (q.map fun e => if e.1 == t then (e.1, e.2 ++ [c]) else e) c' = countIn q c' + (if c' = c then 1 else 0) := by
  induction q with
  | nil => simp at h
  | cons e q ih =>
    obtain ⟨hlt, hsq⟩ := sortedQ_cons e q hs
    rw [List.map_cons, countIn_cons, countIn_cons]
    by_cases he : (e.1 == t) = true
    · -- no later entry has time t
      have hnone : q.any (·.1 == t) = false := by
        rw [Bool.eq_false_iff]; intro hq
        rcases List.any_eq_true.mp hq with ⟨f, hf, hft⟩
        have hl := hlt f hf
        have e1 : e.1 = t := by simpa using he
        have e2 : f.1 = t := by simpa using hft
        rw [e1, e2] at hl
        exact absurd hl (Int.lt_irrefl _)
      have hsame : (q.map fun e => if e.1 == t then (e.1, e.2 ++ [c]) else e) = q := by
        have : (q.map fun e => if e.1 == t then (e.1, e.2 ++ [c]) else e) = q.map id := by
          apply List.map_congr_left
          intro f hf
          have : (f.1 == t) = false := by
            rw [Bool.eq_false_iff]; intro hft; rw [Bool.eq_false_iff] at hnone
            exact hnone (List.any_eq_true.mpr ⟨f, hf, hft⟩)
          simp [this]
        rw [this, List.map_id]
      rw [hsame]
      simp only [he, if_true, List.filter_append, List.length_append, count_singleton]
      omega
    · have hq : q.any (·.1 == t) = true := by
        simp only [List.any_cons, Bool.or_eq_true] at h
        rcases h with h | h
        · exact absurd h he
        · exact h
      have := ih hsq hq
      simp only [he, Bool.false_eq_true, if_false]
      omega

/-- SCHEDULED ONCE MORE: appending `c` raises its count by exactly one and nobody else's -/
theorem countIn_tqAppend (q : TimeQueue) (t : Time) (c c' : CId) (hs : sortedQ q = true) :
    countIn (tqAppend q t c) c' = countIn q c' + (if c' = c then 1 else 0) := by
  unfold tqAppend
  by_cases h : q.any (·.1 == t) = true
  · simp only [h, if_true]
    exact countIn_map_append q t c c' hs h
  · have hf : q.any (·.1 == t) = false := (Bool.not_eq_true _).mp h
    simp only [h, Bool.false_eq_true, if_false]
    rw [countIn_append, countIn_append, countIn_cons, countIn_nil]
    have := countIn_split q t c' hf
    simp only [count_singleton]
    omega

theorem filter_len_eq_count (l : List CId) (c : CId) : (l.filter (· == c)).length = l.count c := by
  rw [List.count_eq_countP, List.countP_eq_length_filter]

theorem count_erase' (l : List CId) (c c' : CId) (h : c ∈ l) :
    (l.erase c).count c' + (if c' = c then 1 else 0) = l.count c' := by
  by_cases hc : c' = c
  · subst hc
    simp only [if_true, List.count_erase_self]
    have := List.count_pos_iff.mpr h
    omega
  · simp only [hc, if_false, Nat.add_zero]
    exact List.count_erase_of_ne hc

/-- removing `c` from the (unique) entry of time `t` -/
theorem countIn_map_erase (q : TimeQueue) (t : Time) (c c' : CId) (e : Time × List CId) (hs : sortedQ q = true)
    (hf : q.find? (·.1 == t) = some e) (hc : c ∈ e.2) :
    countIn (q.map fun x => if x.1 == t then (x.1, x.2.erase c) else x) c' + (if c' = c then 1 else 0) = countIn q c' := by
  induction q with
  | nil => simp at hf
  | cons x q ih =>
    obtain ⟨hlt, hsq⟩ := sortedQ_cons x q hs
    rw [List.map_cons, countIn_cons, countIn_cons]
    by_cases hx : (x.1 == t) = true
    · have hxe : x = e := by
        simp only [List.find?_cons, hx] at hf; injection hf
      subst hxe
      have hnone : ∀ f ∈ q, (f.1 == t) = false := by
        intro f hf'
        rw [Bool.eq_false_iff]; intro hft
        have hl := hlt f hf'
        have e1 : x.1 = t := by simpa using hx
        have e2 : f.1 = t := by simpa using hft
        rw [e1, e2] at hl
        exact absurd hl (Int.lt_irrefl _)
      have hsame : (q.map fun y => if y.1 == t then (y.1, y.2.erase c) else y) = q := by
        have : (q.map fun y => if y.1 == t then (y.1, y.2.erase c) else y) = q.map id := by
          apply List.map_congr_left
          intro f hf'; simp [hnone f hf']
        rw [this, List.map_id]
      rw [hsame]
      simp only [hx, if_true, filter_len_eq_count]
      have := count_erase' x.2 c c' hc
      omega
    · have hq : q.find? (·.1 == t) = some e := by
        simp only [List.find?_cons, hx] at hf; exact hf
      have := ih hsq hq
      simp only [hx, Bool.false_eq_true, if_false]
      omega

/-- dropping the (unique) entry of time `t`, which holds exactly `[c]` -/
theorem countIn_filter_drop (q : TimeQueue) (t : Time) (c c' : CId) (e : Time × List CId) (hs : sortedQ q = true)
    (hf : q.find? (·.1 == t) = some e) (he : e.2 = [c]) :
    countIn (q.filter fun x => x.1 != t) c' + (if c' = c then 1 else 0) = countIn q c' := by
  induction q with
  | nil => simp at hf
  | cons x q ih =>
    obtain ⟨hlt, hsq⟩ := sortedQ_cons x q hs
    by_cases hx : (x.1 == t) = true
    · have hxe : x = e := by
        simp only [List.find?_cons, hx] at hf; injection hf
      subst hxe
      have hkeep : q.filter (fun y => y.1 != t) = q := by
        apply List.filter_eq_self.mpr
        intro f hf'
        have hl := hlt f hf'
        have e1 : x.1 = t := by simpa using hx
        simp only [bne_iff_ne, ne_eq]
        intro e2; rw [e1, e2] at hl; exact absurd hl (Int.lt_irrefl _)
      have hxn : ¬ ((x.1 != t) = true) := by
        have e1 : x.1 = t := by simpa using hx
        simp [e1]
      rw [List.filter_cons_of_neg (p := fun (y : Time × List CId) => y.1 != t) hxn, hkeep, countIn_cons, he, count_singleton]
      omega
    · have hq : q.find? (·.1 == t) = some e := by
        simp only [List.find?_cons, hx] at hf; exact hf
      have := ih hsq hq
      have hxp : (x.1 != t) = true := by
        have e1 : ¬ x.1 = t := by simpa using hx
        simp [e1]
      rw [List.filter_cons_of_pos (p := fun (y : Time × List CId) => y.1 != t) hxp, countIn_cons, countIn_cons]
      omega

/-- SCHEDULED ONCE LESS: a successful removal lowers the count of `c` by exactly one, nobody else's -/
theorem countIn_tqRemove (q q' : TimeQueue) (t : Time) (c c' : CId) (hs : sortedQ q = true)
    (h : tqRemove q t c = some q') :
    countIn q' c' + (if c' = c then 1 else 0) = countIn q c' := by
  unfold tqRemove at h
  cases hf : q.find? (·.1 == t) with
  | none => simp [hf] at h
  | some e =>
    simp only [hf] at h
    by_cases hc : e.2.contains c = true
    · simp only [hc, Bool.not_true, Bool.false_eq_true, if_false] at h
      have hmem : c ∈ e.2 := by simpa using hc
      by_cases hl : (e.2.length == 1) = true
      · simp only [hl, if_true, Option.some.injEq] at h
        subst h
        have he : e.2 = [c] := by
          have hl' : e.2.length = 1 := by simpa using hl
          match hh : e.2, hl', hmem with
          | [x], _, hm => simp at hm; rw [hm]
        exact countIn_filter_drop q t c c' e hs hf he
      · simp only [hl, Bool.false_eq_true, if_false, Option.some.injEq] at h
        subst h
        exact countIn_map_erase q t c c' e hs hf hmem
    · have hcf : e.2.contains c = false := (Bool.not_eq_true _).mp hc
      simp only [hcf, Bool.not_false, if_true] at h
      cases h

theorem sortedQ_filter (q : TimeQueue) (p : Time × List CId → Bool) (hs : sortedQ q = true) : sortedQ (q.filter p) = true := by
  induction q with
  | nil => rfl
  | cons x q ih =>
    obtain ⟨hlt, hsq⟩ := sortedQ_cons x q hs
    rw [List.filter_cons]
    split
    · simp only [sortedQ, Bool.and_eq_true, List.all_eq_true, decide_eq_true_eq]
      exact ⟨fun f hf => hlt f (List.mem_filter.mp hf).1, ih hsq⟩
    · exact ih hsq

theorem sortedQ_map_snd (q : TimeQueue) (g : Time × List CId → Time × List CId) (hg : ∀ x, (g x).1 = x.1)
    (hs : sortedQ q = true) : sortedQ (q.map g) = true := by
  induction q with
  | nil => rfl
  | cons x q ih =>
    obtain ⟨hlt, hsq⟩ := sortedQ_cons x q hs
    simp only [List.map_cons, sortedQ, Bool.and_eq_true, List.all_eq_true, decide_eq_true_eq]
    refine ⟨?_, ih hsq⟩
    intro f hf
    rcases List.mem_map.mp hf with ⟨f0, hf0, rfl⟩
    rw [hg, hg]; exact hlt f0 hf0

theorem sortedQ_tqRemove (q q' : TimeQueue) (t : Time) (c : CId) (hs : sortedQ q = true)
    (h : tqRemove q t c = some q') : sortedQ q' = true := by
  unfold tqRemove at h
  cases hf : q.find? (·.1 == t) with
  | none => simp [hf] at h
  | some e =>
    simp only [hf] at h
    split at h
    · cases h
    · split at h
      · injection h with h; subst h; exact sortedQ_filter q _ hs
      · injection h with h; subst h
        exact sortedQ_map_snd q _ (by intro x; split <;> rfl) hs

/-- RE-SCHEDULING KEEPS "EXACTLY ONCE": moving `c` from time `t` to time `t'` (MsgUpdateConsumer with a
    new spawn time; a changed infraction-parameter request) leaves every consumer's number of
    schedule entries as it was -/
theorem reschedule_keeps_counts (q q1 : TimeQueue) (t t' : Time) (c c' : CId) (hs : sortedQ q = true)
    (h : tqRemove q t c = some q1) : countIn (tqAppend q1 t' c) c' = countIn q c' := by
  have h1 := countIn_tqRemove q q1 t c c' hs h
  have h2 := countIn_tqAppend q1 t' c c' (sortedQ_tqRemove q q1 t c hs h)
  omega

/-- (RE-)SCHEDULING A LAUNCH: when InitializeConsumer + PrepareConsumerForLaunch act (the consumer is
    pre-launch, has initialization parameters and a non-zero spawn time), the consumer ends up
    initialized and in the launch schedule exactly once — whether it was scheduled before (at
    `prevSpawn ≠ 0`) or not — and nobody else's entries change -/
theorem prepare_scheduled_once (s s' : State) (c : CId) (prevSpawn : Time)
    (hs : sortedQ s.spawnQ = true)
    (hcount : countIn s.spawnQ c = if prevSpawn ≠ 0 then 1 else 0)
    (hact : (!(isPrelaunched (s.get c).phase) || !(s.get c).hasInit || (s.get c).spawn == 0) = false)
    (h : initializeAndPrepare s c prevSpawn = some s') :
    countIn s'.spawnQ c = 1 ∧ (∀ c', c' ≠ c → countIn s'.spawnQ c' = countIn s.spawnQ c') ∧
    (s'.get c).phase = .initialized := by
  unfold initializeAndPrepare at h
  simp only [hact, Bool.false_eq_true, if_false] at h
  have hq : (s.set { s.get c with phase := Phase.initialized }).spawnQ = s.spawnQ := by
    unfold State.set; split <;> rfl
  rw [hq] at h
  have hget : ∀ (t : State) (q : TimeQueue), State.get { t with spawnQ := q } c = t.get c := fun _ _ => rfl
  by_cases hp : prevSpawn ≠ 0
  · have hp' : (prevSpawn != 0) = true := by simpa using hp
    simp only [hp', if_true] at h
    cases hr : tqRemove s.spawnQ prevSpawn c with
    | none => simp [hr] at h
    | some q1 =>
      simp only [hr, Option.some.injEq] at h
      subst h
      rw [if_pos hp] at hcount
      have h1 := countIn_tqRemove s.spawnQ q1 prevSpawn c c hs hr
      have hs1 := sortedQ_tqRemove s.spawnQ q1 prevSpawn c hs hr
      refine ⟨?_, ?_, ?_⟩
      · show countIn (tqAppend q1 (s.get c).spawn c) c = 1
        rw [countIn_tqAppend _ _ _ _ hs1]; simp only [if_true] at h1 ⊢; omega
      · intro c' hc'
        show countIn (tqAppend q1 (s.get c).spawn c) c' = countIn s.spawnQ c'
        have h2 := countIn_tqRemove s.spawnQ q1 prevSpawn c c' hs hr
        rw [countIn_tqAppend _ _ _ _ hs1]; simp only [hc', if_false] at h2 ⊢; omega
      · rw [hget]
        rw [get_set_upd s c (fun x => { x with phase := Phase.initialized }) (fun _ => rfl)]
  · have hp0 : prevSpawn = 0 := by simpa using hp
    have hp' : (prevSpawn != 0) = false := by simp [hp0]
    simp only [hp', Bool.false_eq_true, if_false, Option.some.injEq] at h
    subst h
    rw [if_neg hp] at hcount
    refine ⟨?_, ?_, ?_⟩
    · show countIn (tqAppend s.spawnQ (s.get c).spawn c) c = 1
      rw [countIn_tqAppend _ _ _ _ hs, hcount]; simp
    · intro c' hc'
      show countIn (tqAppend s.spawnQ (s.get c).spawn c) c' = countIn s.spawnQ c'
      rw [countIn_tqAppend _ _ _ _ hs]; simp [hc']
    · rw [hget]
      rw [get_set_upd s c (fun x => { x with phase := Phase.initialized }) (fun _ => rfl)]

/-! ### BeginBlock's consumption of the launch queue, per consumer -/

theorem sortedQ_tail (e : Time × List CId) (q : TimeQueue) (h : sortedQ (e :: q) = true) : sortedQ q = true := by
  unfold sortedQ at h
  simp only [Bool.and_eq_true] at h
  exact h.2

theorem sortedQ_replace_head (t : Time) (ids ids' : List CId) (q : TimeQueue)
    (h : sortedQ ((t, ids) :: q) = true) : sortedQ ((t, ids') :: q) = true := by
  unfold sortedQ at h ⊢
  exact h

theorem tqConsume_go_sorted (q : TimeQueue) (now : Time) (limit : Nat) (res : List CId)
    (hs : sortedQ q = true) : sortedQ (tqConsume.go now limit q res).2 = true := by
  induction q generalizing res with
  | nil => simp [tqConsume.go, sortedQ]
  | cons e rest ih =>
    obtain ⟨t, ids⟩ := e
    simp only [tqConsume.go]
    split
    · exact hs
    · split
      · exact hs
      · split
        · exact ih _ (sortedQ_tail _ _ hs)
        · exact sortedQ_replace_head t ids _ rest hs

/-- what stays queued after a block's launches is still ordered by time -/
theorem launch_keeps_sorted (s : State) (hs : sortedQ s.spawnQ = true) :
    sortedQ (tqConsume s.spawnQ s.now 200).2 = true := by
  unfold tqConsume
  exact tqConsume_go_sorted _ _ _ _ hs

/-- per consumer: the entries handed to the launch loop plus the entries left in the queue are the
    entries there were — a consumer scheduled once is either launched (attempted) once or still
    scheduled once, never both and never neither -/
theorem launch_counts_conserved (s : State) (c : CId) :
    ((tqConsume s.spawnQ s.now 200).1.filter (· == c)).length + countIn (tqConsume s.spawnQ s.now 200).2 c
      = countIn s.spawnQ c := by
  have h := congrArg (fun l => (l.filter (· == c)).length) (launch_queue_conserved s)
  simp only [List.filter_append, List.length_append] at h
  exact h

theorem launch_once_either (s : State) (c : CId) (h : countIn s.spawnQ c = 1) :
    (((tqConsume s.spawnQ s.now 200).1.filter (· == c)).length = 1 ∧ countIn (tqConsume s.spawnQ s.now 200).2 c = 0) ∨
    (((tqConsume s.spawnQ s.now 200).1.filter (· == c)).length = 0 ∧ countIn (tqConsume s.spawnQ s.now 200).2 c = 1) := by
  have := launch_counts_conserved s c
  omega

example : sortedQ (tqConsume [(1, ["a", "b", "x"]), (2, ["c"])] 5 2).2 = true ∧
    countIn (tqConsume [(1, ["a", "b", "x"]), (2, ["c"])] 5 2).2 "x" = 1 ∧
    ((tqConsume [(1, ["a", "b", "x"]), (2, ["c"])] 5 2).1.filter (· == "x")).length = 0 := by decide

/-! ### the launch loop leaves the schedule alone -/

theorem launchBind_spawnQ (s s' : State) (c : CId) (x : Consumer) (env : LaunchEnv)
    (h : launchBind s c x env = some s') : s'.spawnQ = s.spawnQ := by
  unfold launchBind at h
  split at h
  · split at h
    · cases h
    · split at h
      · cases h
      · injection h with h; subst h; exact set_spawnQ _ _
  · split at h
    · cases h
    · split at h
      · cases h
      · split at h
        · cases h
        · injection h with h; subst h; exact set_spawnQ _ _

theorem launchConsumer_spawnQ (s s' : State) (c : CId) (env : LaunchEnv)
    (h : launchConsumer s c env = some s') : s'.spawnQ = s.spawnQ := by
  unfold launchConsumer at h
  split at h
  · cases h
  · exact launchBind_spawnQ _ _ _ _ _ h

theorem launchFallback_spawnQ (s s' : State) (c : CId)
    (h : launchFallback s c = some s') : s'.spawnQ = s.spawnQ := by
  unfold launchFallback at h
  by_cases hc : ((s.get c).initRev != (s.get c).chainRev) = true
  · simp only [hc, if_true] at h; cases h
  · simp only [hc, Bool.false_eq_true, if_false, Option.some.injEq] at h
    rw [← h]; exact set_spawnQ _ _

theorem launchLoop_spawnQ (envOf : CId → LaunchEnv) (ids : List CId) (s s' : State)
    (h : ids.foldl (fun (acc : Option State) c =>
      match acc with
      | none => none
      | some s =>
        match launchConsumer s c (envOf c) with
        | some s' => some s'
        | none => launchFallback s c) (some s) = some s') : s'.spawnQ = s.spawnQ := by
  induction ids generalizing s with
  | nil => simp only [List.foldl_nil, Option.some.injEq] at h; rw [h]
  | cons c rest ih =>
    simp only [List.foldl_cons] at h
    cases hl : launchConsumer s c (envOf c) with
    | some s1 =>
      rw [hl] at h
      rw [ih s1 h, launchConsumer_spawnQ _ _ _ _ hl]
    | none =>
      rw [hl] at h
      cases hf : launchFallback s c with
      | some s1 =>
        rw [hf] at h
        rw [ih s1 h, launchFallback_spawnQ _ _ _ hf]
      | none =>
        rw [hf] at h
        exfalso
        clear ih hl hf
        induction rest with
        | nil => simp at h
        | cons d r ihr => simp only [List.foldl_cons] at h; exact ihr h

/-- the launch loop itself never touches the schedule: after BeginBlock the launch queue is exactly
    what the consumption left, whatever succeeded or failed -/
theorem beginBlockLaunch_spawnQ (s s' : State) (envOf : CId → LaunchEnv)
    (h : beginBlockLaunch? s envOf = some s') :
    s'.spawnQ = (tqConsume s.spawnQ s.now 200).2 := by
  unfold beginBlockLaunch? at h
  exact launchLoop_spawnQ envOf _ _ _ h

/-- over a whole BeginBlock: a consumer scheduled once is either attempted once in this block and no
    longer scheduled afterwards, or not attempted and still scheduled once; the queue stays ordered -/
theorem beginBlock_once (s s' : State) (envOf : CId → LaunchEnv) (c : CId)
    (h : beginBlockLaunch? s envOf = some s') (hs : sortedQ s.spawnQ = true) (h1 : countIn s.spawnQ c = 1) :
    sortedQ s'.spawnQ = true ∧
    ((((tqConsume s.spawnQ s.now 200).1.filter (· == c)).length = 1 ∧ countIn s'.spawnQ c = 0) ∨
     (((tqConsume s.spawnQ s.now 200).1.filter (· == c)).length = 0 ∧ countIn s'.spawnQ c = 1)) := by
  rw [beginBlockLaunch_spawnQ s s' envOf h]
  exact ⟨launch_keeps_sorted s hs, launch_once_either s c h1⟩

/-- … and a consumer that was not scheduled is neither attempted nor scheduled afterwards -/
theorem beginBlock_unscheduled (s s' : State) (envOf : CId → LaunchEnv) (c : CId)
    (h : beginBlockLaunch? s envOf = some s') (h0 : countIn s.spawnQ c = 0) :
    ((tqConsume s.spawnQ s.now 200).1.filter (· == c)).length = 0 ∧ countIn s'.spawnQ c = 0 := by
  rw [beginBlockLaunch_spawnQ s s' envOf h]
  have := launch_counts_conserved s c
  omega

/-! ### what the launch loop does to the consumers it takes -/

theorem launchRecord_id (s : State) (c : CId) (env : LaunchEnv) (x : Consumer)
    (h : launchRecord s c env = some x) : x.id = c := by
  unfold launchRecord at h
  simp only [] at h
  repeat' (split at h)
  all_goals first
    | (injection h with h; rw [← h]; exact get_id s c)
    | cases h

/-- a successful launch leaves the consumer launched and nobody else's record touched -/
theorem launchBind_effect (s s' : State) (c : CId) (x : Consumer) (env : LaunchEnv) (hid : x.id = c)
    (h : launchBind s c x env = some s') :
    (s'.get c).phase = .launched ∧ ∀ c', c' ≠ c → s'.get c' = s.get c' := by
  unfold launchBind at h
  split at h
  · split at h
    · cases h
    · split at h
      · cases h
      · injection h with h; subst h
        constructor
        · show ((s.set _).get c).phase = _
          rw [get_set_id]; exact hid
        · intro c' hc'
          show (s.set _).get c' = _
          rw [get_set_other]; exact fun e => hc' (e.trans hid)
  · split at h
    · cases h
    · split at h
      · cases h
      · split at h
        · cases h
        · injection h with h; subst h
          constructor
          · show ((s.set _).get c).phase = _
            rw [get_set_id]; exact hid
          · intro c' hc'
            show (s.set _).get c' = _
            rw [get_set_other]; exact fun e => hc' (e.trans hid)

/-- what an attempted launch leaves: launched, or back to registered with the spawn time cleared -/
def Attempted (x : Consumer) : Prop := x.phase = .launched ∨ (x.phase = .registered ∧ x.spawn = 0)

/-- one iteration of BeginBlockLaunchConsumers -/
def launchStep (envOf : CId → LaunchEnv) (s : State) (c : CId) : Option State :=
  match launchConsumer s c (envOf c) with
  | some s' => some s'
  | none => launchFallback s c

theorem launchStep_effect (envOf : CId → LaunchEnv) (s s' : State) (c : CId)
    (h : launchStep envOf s c = some s') :
    Attempted (s'.get c) ∧ ∀ c', c' ≠ c → s'.get c' = s.get c' := by
  unfold launchStep at h
  cases hl : launchConsumer s c (envOf c) with
  | some s1 =>
    rw [hl] at h
    injection h with h; subst h
    unfold launchConsumer at hl
    cases hr : launchRecord s c (envOf c) with
    | none => rw [hr] at hl; cases hl
    | some x =>
      rw [hr] at hl
      have := launchBind_effect s s1 c x (envOf c) (launchRecord_id s c _ x hr) hl
      exact ⟨Or.inl this.1, this.2⟩
  | none =>
    rw [hl] at h
    unfold launchFallback at h
    by_cases hc : ((s.get c).initRev != (s.get c).chainRev) = true
    · simp only [hc, if_true] at h; cases h
    · simp only [hc, Bool.false_eq_true, if_false, Option.some.injEq] at h
      subst h
      constructor
      · right
        rw [get_set_id]
        · exact ⟨rfl, rfl⟩
        · exact get_id s c
      · intro c' hc'
        rw [get_set_other]
        exact fun e => hc' (e.trans (get_id s c))

abbrev launchLoop (envOf : CId → LaunchEnv) (ids : List CId) (acc : Option State) : Option State :=
  ids.foldl (fun (acc : Option State) c =>
    match acc with
    | none => none
    | some s => launchStep envOf s c) acc

theorem launchLoop_none (envOf : CId → LaunchEnv) (ids : List CId) : launchLoop envOf ids none = none := by
  induction ids with
  | nil => rfl
  | cons d r ih => exact ih

theorem launchLoop_effect (envOf : CId → LaunchEnv) (ids : List CId) (s s' : State) (c : CId)
    (h : launchLoop envOf ids (some s) = some s') :
    (c ∈ ids → Attempted (s'.get c)) ∧ (¬ c ∈ ids → s'.get c = s.get c) ∧
    (Attempted (s.get c) → Attempted (s'.get c)) := by
  induction ids generalizing s with
  | nil =>
    have : s = s' := by simpa [launchLoop] using h
    subst this
    exact ⟨fun hm => (by cases hm), fun _ => rfl, id⟩
  | cons d rest ih =>
    have hstep : launchLoop envOf (d :: rest) (some s) = launchLoop envOf rest (launchStep envOf s d) := rfl
    rw [hstep] at h
    cases hs : launchStep envOf s d with
    | none => rw [hs, launchLoop_none] at h; cases h
    | some s1 =>
      rw [hs] at h
      obtain ⟨hA, hO⟩ := launchStep_effect envOf s s1 d hs
      obtain ⟨i1, i2, i3⟩ := ih s1 h
      have keep : Attempted (s.get c) → Attempted (s1.get c) := by
        intro ha
        by_cases hcd : c = d
        · rw [hcd]; exact hA
        · rw [hO c hcd]; exact ha
      refine ⟨?_, ?_, fun ha => i3 (keep ha)⟩
      · intro hm
        rcases List.mem_cons.mp hm with rfl | hm'
        · exact i3 hA
        · exact i1 hm'
      · intro hn
        have hcd : c ≠ d := fun e => hn (by rw [e]; exact List.mem_cons_self)
        rw [i2 (fun hm => hn (List.mem_cons_of_mem _ hm)), hO c hcd]

theorem beginBlockLaunch_eq (s : State) (envOf : CId → LaunchEnv) :
    beginBlockLaunch? s envOf =
      launchLoop envOf (tqConsume s.spawnQ s.now 200).1 (some { s with spawnQ := (tqConsume s.spawnQ s.now 200).2 }) := rfl

/-- over a whole BeginBlock: every consumer taken from the launch queue ends launched or back in
    the registered phase with its spawn time cleared (never left initialized without a schedule
    entry); every other consumer's record is untouched -/
theorem beginBlock_attempted (s s' : State) (envOf : CId → LaunchEnv) (c : CId)
    (h : beginBlockLaunch? s envOf = some s') :
    (c ∈ (tqConsume s.spawnQ s.now 200).1 → Attempted (s'.get c)) ∧
    (¬ c ∈ (tqConsume s.spawnQ s.now 200).1 → s'.get c = s.get c) := by
  rw [beginBlockLaunch_eq] at h
  have := launchLoop_effect envOf _ _ s' c h
  exact ⟨this.1, this.2.1⟩

end Queue

end ICS.Props.C10
