/-
  C10 — Consumer lifecycle follows the phase machine and the launch schedule.
-/
import ICS.Lemmas.Prov
namespace ICS.Props.C10
open ICS ICS.Provider ICS.Spec.Prov

/-! ### the phase machine -/

/-- order of the phases along the only permitted direction -/
def rank : Phase → Nat
  | .unspecified => 0 | .registered => 1 | .initialized => 1 | .launched => 2 | .stopped => 3 | .deleted => 4

/-- every permitted edge is weakly forward: a launched consumer never returns to a pre-launch
    phase and a deleted one never becomes active again -/
theorem edge_forward (p q : Phase) (h : edgeOK p q = true) : rank p ≤ rank q := by
  cases p <;> cases q <;> simp_all [edgeOK, rank]

theorem no_return_from_launched (q : Phase) (h : edgeOK .launched q = true) :
    q = .launched ∨ q = .stopped := by
  cases q <;> simp_all [edgeOK]

theorem deleted_is_final (q : Phase) (h : edgeOK .deleted q = true) : q = .deleted := by
  cases q <;> simp_all [edgeOK]

/-- a history of phases of one consumer, each step a permitted edge -/
def pathOK : List Phase → Bool
  | p :: q :: rest => edgeOK p q && pathOK (q :: rest)
  | _ => true

/-- along any history the rank never decreases: once launched never pre-launch again, once
    deleted never anything else -/
theorem path_forward (p : Phase) (ps : List Phase) (h : pathOK (p :: ps) = true) :
    ∀ q ∈ ps, rank p ≤ rank q := by
  induction ps generalizing p with
  | nil => intro q hq; cases hq
  | cons a t ih =>
    simp only [pathOK, Bool.and_eq_true] at h
    intro q hq
    have h1 := edge_forward p a h.1
    rcases List.mem_cons.mp hq with rfl | hq
    · exact h1
    · exact Nat.le_trans h1 (ih a h.2 q hq)

/-! ### ids -/

theorem initializeAndPrepare_nextId (s s' : State) (c : CId) (t : Time)
    (h : initializeAndPrepare s c t = some s') : s'.nextId = s.nextId := by
  unfold initializeAndPrepare at h
  simp only at h
  split at h
  · simp only [Option.some.injEq] at h; subst h; rfl
  · split at h
    · cases h
    · simp only [Option.some.injEq] at h; subst h; simp [set_nextId]

/-- each consumer id is issued once, in increasing order -/
theorem create_issues_next_id (s : State) (a : CreateArgs) (s' : State) (c : CId)
    (h : createConsumer s a = some (s', c)) : c = toString s.nextId ∧ s'.nextId = s.nextId + 1 := by
  unfold createConsumer at h
  split at h
  · simp only at h
    split at h
    · cases h
    · rename_i s2 hs2
      simp only [Option.some.injEq, Prod.mk.injEq] at h
      obtain ⟨h1, h2⟩ := h
      subst h1
      refine ⟨h2.symm, ?_⟩
      rw [initializeAndPrepare_nextId _ _ _ _ hs2]
  · cases h

/-- a rejected create changes nothing (the function returns no state at all) and an accepted one
    passed every check -/
theorem create_checked (s : State) (a : CreateArgs) (r : State × CId) (h : createConsumer s a = some r) :
    createOK a = true := by
  unfold createConsumer at h
  split at h
  · assumption
  · cases h

/-! ### stop / delete edges -/

theorem stopRecord_id (t : Time) (x : Consumer) : (stopRecord t x).id = x.id := rfl
theorem clearRecord_id (x : Consumer) : (clearRecord x).id = x.id := rfl

/-- every way of stopping goes through StopAndPrepareForConsumerRemoval: the phase becomes stopped
    and the removal time is one unbonding period from now -/
theorem stop_sets_stopped (s : State) (c : CId) :
    ((stopConsumer s c).get c).phase = .stopped ∧
    ((stopConsumer s c).get c).removal = some (s.now + s.unbonding) := by
  have h : (stopConsumer s c).get c = stopRecord (s.now + s.unbonding) (s.get c) :=
    get_set_upd s c (stopRecord (s.now + s.unbonding)) (stopRecord_id _)
  rw [h]; exact ⟨rfl, rfl⟩

theorem stop_leaves_others (s : State) (c c' : CId) (h : c' ≠ c) : (stopConsumer s c).get c' = s.get c' :=
  get_set_upd_other s c c' (stopRecord (s.now + s.unbonding)) (stopRecord_id _) h

/-- MsgRemoveConsumer succeeds only for the owner of a launched consumer and stops it -/
theorem remove_requires_owner_launched (s s' : State) (sender : String) (c : CId)
    (h : removeConsumer s sender c = some s') :
    sender = (s.get c).owner ∧ (s.get c).phase = .launched ∧ s' = stopConsumer s c := by
  unfold removeConsumer at h
  split at h
  · cases h
  · simp only at h
    split at h
    · cases h
    · split at h
      · cases h
      · split at h
        · cases h
        · rename_i h1 h2 h3
          simp only [Option.some.injEq] at h
          exact ⟨by simpa using h2, by simpa using h3, h.symm⟩

/-- DeleteConsumerChain only deletes stopped consumers, and marks them deleted -/
theorem delete_requires_stopped (s s' : State) (c : CId) (h : deleteConsumerChain s c = some s') :
    (s.get c).phase = .stopped ∧ (s'.get c).phase = .deleted := by
  unfold deleteConsumerChain at h
  simp only at h
  split at h
  · cases h
  · rename_i hp
    simp only [Option.some.injEq] at h
    subst h
    refine ⟨by simpa using hp, ?_⟩
    have : ∀ (t : State) (a : List (String × CId)) (b : List (String × CId)) (q : TimeQueue),
        State.get { t with client2c := a, chan2c := b, infrQ := q } c = t.get c := fun _ _ _ _ => rfl
    rw [this, get_set_upd s c clearRecord clearRecord_id]
    rfl

/-! ### the schedule -/

/-- BeginBlock consumes from the spawn queue: nothing lost or duplicated, at most 200 per block,
    only consumers whose spawn time has come -/
theorem launch_queue_conserved (s : State) :
    (tqConsume s.spawnQ s.now 200).1 ++ flatQ (tqConsume s.spawnQ s.now 200).2 = flatQ s.spawnQ :=
  tqConsume_conserves _ _ _

theorem launch_at_most_200 (s : State) : (tqConsume s.spawnQ s.now 200).1.length ≤ 200 :=
  tqConsume_limit _ _ _

theorem launch_only_due (s : State) :
    ∀ c ∈ (tqConsume s.spawnQ s.now 200).1, ∃ e ∈ s.spawnQ, e.1 ≤ s.now ∧ c ∈ e.2 :=
  tqConsume_due _ _ _

/-! ### non-vacuity -/

example : tqConsume [(1, ["a", "b"]), (2, ["c"]), (9, ["d"])] 5 2 = (["a", "b"], [(2, ["c"]), (9, ["d"])]) := by decide
example : tqConsume [(1, ["a", "b", "x"]), (2, ["c"])] 5 2 = (["a", "b"], [(1, ["x"]), (2, ["c"])]) := by decide
example : edgeOK .initialized .launched = true ∧ edgeOK .launched .registered = false := by decide

end ICS.Props.C10
