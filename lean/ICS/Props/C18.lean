/-
  C18 — Provider and consumer state machines are deterministic.
  (1) order-independence of the one place where the code enumerates a Go map (AccumulateChanges):
      whatever order the map is iterated in, and whatever (correct) sort is used, the result is
      the same list;
  (2) regenerated facts: the set of map-range / wall-clock / goroutine / rand sites in consensus
      code equals the audited set; block-hook call orders are as audited.
  (3) replicas are compared bit-for-bit by the harness (see evidence) — the Go runtime itself is
      not modelled.
-/
import ICS.Lemmas.ValSet
import ICS.Generated.Facts
namespace ICS.Props.C18
open ICS ICS.ValSet ICS.Generated

/-- **Order independence.**  For ANY enumeration `m'` of the Go map (any permutation of its
    entries) and ANY algorithm producing a permutation sorted by the comparator, the output equals
    the model's `accumulate`.  `rank` (the order of `PubKey.String()`) only needs to be injective
    on the keys present. -/
theorem accumulate_order_independent (rank : Nat → Nat) (cur new m' out : List Update)
    (hinj : ∀ a ∈ toMap (cur ++ new), ∀ b ∈ toMap (cur ++ new), rank a.key = rank b.key → a.key = b.key)
    (hm : m'.Perm (toMap (cur ++ new)))
    (hperm : out.Perm m') (hsorted : out.Pairwise (fun a b => accLE rank a b)) :
    out = accumulate rank cur new := by
  unfold accumulate
  have hnd := toMap_nodup (cur ++ new)
  have hp : out.Perm (isort (accLE rank) (toMap (cur ++ new))) :=
    (hperm.trans hm).trans (isort_perm _ _).symm
  have hs2 := isort_pairwise (accLE rank) (accLE_trans rank) (accLE_total rank) (toMap (cur ++ new))
  refine List.Perm.eq_of_pairwise (le := fun a b => accLE rank a b = true) ?_ hsorted hs2 hp
  intro a b ha hb hab hba
  have ha' : a ∈ toMap (cur ++ new) := (hperm.trans hm).mem_iff.mp ha
  have hb' : b ∈ toMap (cur ++ new) := (isort_perm _ _).mem_iff.mp hb
  obtain ⟨_, hr⟩ := accLE_antisymm rank a b hab hba
  exact eq_of_key_eq hnd ha' hb' (hinj a ha' b hb' hr)

/-- in particular the result does not depend on the iteration order of the map -/
theorem accumulate_map_order_irrelevant (rank : Nat → Nat) (cur new m' : List Update)
    (hinj : ∀ a ∈ toMap (cur ++ new), ∀ b ∈ toMap (cur ++ new), rank a.key = rank b.key → a.key = b.key)
    (hm : m'.Perm (toMap (cur ++ new))) :
    isort (accLE rank) m' = accumulate rank cur new :=
  accumulate_order_independent rank cur new m' _ hinj hm (isort_perm _ _)
    (isort_pairwise _ (accLE_trans rank) (accLE_total rank) _)

/-! ### regenerated facts -/

/-- the only `range`-over-map sites in x/ccv/{provider,consumer,types} (non-test, non-generated):
    the two test-only key-name helpers (which sort afterwards) and AccumulateChanges (covered by
    the theorem above); no goroutines, `select`, wall-clock reads or `rand` in consensus code -/
theorem det_sites_audited : detSites =
    [("range-map", "x/ccv/provider/types/keys.go:GetAllKeyNames", "prefixMap"),
     ("range-map", "x/ccv/provider/types/keys.go:GetAllKeyPrefixes", "prefixMap"),
     ("range-map", "x/ccv/consumer/types/keys.go:GetAllKeyNames", "prefixMap"),
     ("range-map", "x/ccv/consumer/types/keys.go:GetAllKeyPrefixes", "prefixMap"),
     ("range-map", "x/ccv/types/utils.go:AccumulateChanges", "m")] := by decide +kernel

theorem provider_block_order :
    providerBeginBlock = ["BeginBlockLaunchConsumers", "BeginBlockRemoveConsumers",
      "BeginBlockUpdateInfractionParameters", "BeginBlockCIS", "BeginBlockRD"] ∧
    providerEndBlock = ["EndBlockCIS", "EndBlockVSU"] := by decide +kernel

/-! ### non-vacuity -/
example : isort (accLE id) [⟨2, 0⟩, ⟨3, 5⟩, ⟨1, 5⟩] = isort (accLE id) [⟨1, 5⟩, ⟨2, 0⟩, ⟨3, 5⟩] := by decide

end ICS.Props.C18
