/-
  C01 — Consumer validator sets replicate the provider's decisions, in order.
  Set-algebra part: the provider sends `diff cur next`; the consumer accumulates the packets it
  receives in a block, applies them at EndBlock and forwards them to the consensus engine.
  The theorems say that, whatever the batching, the consumer ends exactly at the provider's set.
-/
import ICS.Lemmas.ValSet
import ICS.Spec.C01
namespace ICS.Props.C01
open ICS ICS.ValSet

/-- applying the provider's diff to the current set yields the next set (every key) -/
theorem apply_diff (cur next : List Val)
    (hc : (cur.map (·.key)).Nodup) (hn : (next.map (·.key)).Nodup) (k : Nat) :
    applyF (diff cur next) (lookup cur) k = lookup next k := by
  rcases applyF_cases (diff cur next) (lookup cur) k with ⟨hno, heq⟩ | ⟨u, hu, hk, heq⟩
  · rw [heq]
    cases hfc : cur.find? (fun c => c.key == k) with
    | none =>
      have hck := find?_key_none hfc
      rw [lookup_eq_zero_of_not_mem cur k hck]
      cases hfn : next.find? (fun n => n.key == k) with
      | none => rw [lookup_eq_zero_of_not_mem next k (find?_key_none hfn)]
      | some n =>
        obtain ⟨hnm, hnk⟩ := find?_key_some hfn
        exfalso
        refine hno ⟨n.key, n.power⟩ ((mem_diff_iff _ _ _).mpr (Or.inr ⟨n, hnm, ?_, rfl⟩)) hnk
        rw [hnk]; exact hfc
    | some c =>
      obtain ⟨hcm, hck⟩ := find?_key_some hfc
      have hlc : lookup cur k = c.power := by rw [← hck]; exact lookup_eq_of_mem cur c hc hcm
      rw [hlc]
      cases hfn : next.find? (fun n => n.key == c.key) with
      | none =>
        exfalso
        exact hno ⟨c.key, 0⟩ ((mem_diff_iff _ _ _).mpr (Or.inl ⟨c, hcm, Or.inl ⟨hfn, rfl⟩⟩)) hck
      | some n =>
        obtain ⟨hnm, hnk⟩ := find?_key_some hfn
        have hln : lookup next k = n.power := by
          rw [← hck, ← hnk]; exact lookup_eq_of_mem next n hn hnm
        rw [hln]
        by_cases hp : c.power = n.power
        · exact hp
        · exfalso
          refine hno ⟨n.key, n.power⟩ ((mem_diff_iff _ _ _).mpr
            (Or.inl ⟨c, hcm, Or.inr ⟨n, hfn, hp, rfl⟩⟩)) (by simp [hnk, hck])
  · rw [heq]
    rcases (mem_diff_iff _ _ _).mp hu with ⟨c, hcm, h⟩ | ⟨n, hnm, hnone, hue⟩
    · rcases h with ⟨hnone, hue⟩ | ⟨n, hsome, hne, hue⟩
      · subst hue
        simp only at hk ⊢
        rw [lookup_eq_zero_of_not_mem next k (by rw [← hk]; exact find?_key_none hnone)]
      · subst hue
        obtain ⟨hnm, hnk⟩ := find?_key_some hsome
        simp only at hk ⊢
        rw [← hk]; exact (lookup_eq_of_mem next n hn hnm).symm
    · subst hue
      simp only at hk ⊢
      rw [← hk]; exact (lookup_eq_of_mem next n hn hnm).symm

/-- an empty diff means the sets agree: nothing is sent only if nothing changed -/
theorem diff_nil_iff_same (cur next : List Val)
    (hc : (cur.map (·.key)).Nodup) (hn : (next.map (·.key)).Nodup) (h : diff cur next = []) :
    ∀ k, lookup cur k = lookup next k := by
  intro k
  have := apply_diff cur next hc hn k
  rw [h] at this
  simpa [applyF] using this

theorem applyF_congr (us : List Update) (g g' : Nat → Nat) (h : ∀ k, g k = g' k) (k : Nat) :
    applyF us g k = applyF us g' k := by
  have : g = g' := funext h
  rw [this]

/-- AccumulateChanges has the effect of the older list followed by the newer one -/
theorem accumulate_effect (rank : Nat → Nat) (cur new : List Update) (f : Nat → Nat) (k : Nat) :
    applyF (accumulate rank cur new) f k = applyF new (applyF cur f) k := by
  unfold accumulate
  rw [← applyF_perm _ _ f k (toMap_nodup _) (isort_perm _ _).symm, toMap_effect, applyF_append]

/-- the accumulated list mentions every key at most once -/
theorem accumulate_nodup (rank : Nat → Nat) (cur new : List Update) :
    ((accumulate rank cur new).map (·.key)).Nodup := by
  unfold accumulate
  exact ((isort_perm _ _).map _).nodup_iff.mpr (toMap_nodup _)

/-- ApplyCCValidatorChanges: (i) the stored set stays well formed, (ii) it is the old set overridden
    by the changes, later entries winning, (iii) the updates handed to the consensus engine have the
    same effect on the old set, so engine and store never diverge -/
theorem applyCC_fold (changes : List Update) (cc : List Val) (hwf : CCWF cc) (acc : List Update)
    (e : Nat → Nat) (he : ∀ k, applyF acc e k = lookup cc k) :
    let r := changes.foldl (fun (st : List Val × List Update) ch =>
      let r := applyOne st.1 ch
      (r.1, if r.2 then st.2 ++ [ch] else st.2)) (cc, acc)
    CCWF r.1 ∧ (∀ k, lookup r.1 k = applyF changes (lookup cc) k) ∧ (∀ k, applyF r.2 e k = lookup r.1 k) := by
  induction changes generalizing cc acc with
  | nil => exact ⟨hwf, fun k => rfl, he⟩
  | cons ch rest ih =>
    simp only [List.foldl_cons]
    obtain ⟨hwf1, hl1, hskip⟩ := applyOne_spec cc ch hwf
    have he' : ∀ k, applyF (if (applyOne cc ch).2 then acc ++ [ch] else acc) e k
        = lookup (applyOne cc ch).1 k := by
      intro k
      by_cases hf : (applyOne cc ch).2 = true
      · simp only [hf, if_true]
        rw [applyF_append, hl1]
        simp only [applyF, List.foldl_cons, List.foldl_nil]
        by_cases hk : k = ch.key
        · simp [hk]
        · simp only [hk, if_false]; exact he k
      · have hf' : (applyOne cc ch).2 = false := by simpa using hf
        obtain ⟨hp0, hl0⟩ := hskip hf'
        simp only [hf', Bool.false_eq_true, if_false]
        rw [he, hl1]
        by_cases hk : k = ch.key
        · simp [hk, hp0, hl0]
        · simp [hk]
    obtain ⟨h1, h2, h3⟩ := ih (applyOne cc ch).1 hwf1 _ he'
    refine ⟨h1, ?_, h3⟩
    intro k
    rw [h2, applyF_cons]
    exact applyF_congr rest _ _ hl1 k

theorem applyCC_wf (cc : List Val) (hwf : CCWF cc) (changes : List Update) : CCWF (applyCC cc changes).1 :=
  (applyCC_fold changes cc hwf [] (lookup cc) (fun _ => rfl)).1

theorem applyCC_effect (cc : List Val) (hwf : CCWF cc) (changes : List Update) (k : Nat) :
    lookup (applyCC cc changes).1 k = applyF changes (lookup cc) k :=
  (applyCC_fold changes cc hwf [] (lookup cc) (fun _ => rfl)).2.1 k

theorem applyCC_engine (cc : List Val) (hwf : CCWF cc) (changes : List Update) (k : Nat) :
    applyF (applyCC cc changes).2 (lookup cc) k = lookup (applyCC cc changes).1 k :=
  (applyCC_fold changes cc hwf [] (lookup cc) (fun _ => rfl)).2.2 k

/-- pending changes after receiving packets `ps` (oldest first) in one consumer block -/
def pendingAfter (rank : Nat → Nat) (ps : List (List Update)) : List Update :=
  ps.foldl (fun pend p => accumulate rank pend p) []

theorem pendingAfter_effect (rank : Nat → Nat) (ps : List (List Update)) (pend : List Update)
    (f : Nat → Nat) (k : Nat) :
    applyF (ps.foldl (fun pend p => accumulate rank pend p) pend) f k
      = ps.foldl (fun g p => applyF p g) (applyF pend f) k := by
  induction ps generalizing pend with
  | nil => rfl
  | cons p ps ih =>
    simp only [List.foldl_cons]
    rw [ih]
    have : applyF (accumulate rank pend p) f = applyF p (applyF pend f) :=
      funext (accumulate_effect rank pend p f)
    rw [this]

/-- the provider's history: `sets[0]` is the set the consumer currently holds, each later set was
    sent as the diff to its predecessor -/
def packetsOf : List (List Val) → List (List Update)
  | [] => []
  | [_] => []
  | a :: b :: rest => diff a b :: packetsOf (b :: rest)

theorem chain_effect (sets : List (List Val)) (s0 : List Val)
    (hnd : ∀ s ∈ s0 :: sets, (s.map (·.key)).Nodup) (g : Nat → Nat) (hg : ∀ k, g k = lookup s0 k) (k : Nat) :
    (packetsOf (s0 :: sets)).foldl (fun g p => applyF p g) g k = lookup ((s0 :: sets).getLast (by simp)) k := by
  induction sets generalizing s0 g with
  | nil => simp [packetsOf, hg]
  | cons s1 rest ih =>
    simp only [packetsOf, List.foldl_cons]
    have h0 := hnd s0 (by simp)
    have h1 := hnd s1 (by simp)
    have := ih s1 (fun s hs => hnd s (by simp at hs ⊢; right; exact hs))
      (applyF (diff s0 s1) g) (fun k => by
        rw [applyF_congr _ g (lookup s0) hg k]; exact apply_diff s0 s1 h0 h1 k)
    rw [this]
    simp

/-- **Replication, one consumer block, any batching.**  If the consumer holds the provider's set
    `s0` and receives, in one block, the packets leading through `sets` (any number, in order),
    then after EndBlock it holds exactly the last of these sets and has handed the consensus
    engine updates with exactly that effect. -/
theorem replication_block (rank : Nat → Nat) (cc : List Val) (hwf : CCWF cc)
    (s0 : List Val) (sets : List (List Val))
    (hnd : ∀ s ∈ s0 :: sets, (s.map (·.key)).Nodup) (hcc : ∀ k, lookup cc k = lookup s0 k) :
    let pend := pendingAfter rank (packetsOf (s0 :: sets))
    (∀ k, lookup (applyCC cc pend).1 k = lookup ((s0 :: sets).getLast (by simp)) k) ∧
    (∀ k, applyF (applyCC cc pend).2 (lookup cc) k = lookup ((s0 :: sets).getLast (by simp)) k) := by
  intro pend
  have key : ∀ k, lookup (applyCC cc pend).1 k = lookup ((s0 :: sets).getLast (by simp)) k := by
    intro k
    rw [applyCC_effect cc hwf]
    show applyF (pendingAfter rank (packetsOf (s0 :: sets))) (lookup cc) k = _
    unfold pendingAfter
    rw [pendingAfter_effect]
    simp only [applyF, List.foldl_nil]
    exact chain_effect sets s0 hnd (lookup cc) hcc k
  exact ⟨key, fun k => by rw [applyCC_engine cc hwf]; exact key k⟩


/-! ### any delivery schedule -/

/-- the last element of a non-empty history -/
def lastSet (s0 : List Val) (sets : List (List Val)) : List Val := sets.getLastD s0

theorem lastSet_eq (s0 : List Val) (sets : List (List Val)) : lastSet s0 sets = (s0 :: sets).getLast (by simp) :=
  (List.getLast_eq_getLastD _).symm

/-- a delivery schedule: consumer blocks, each receiving (in order) the packets that lead through the
    provider sets listed for it — none, one or many.  Returns the consumer's stored set and the
    provider set it should have reached. -/
def runBlocks (rank : Nat → Nat) : List Val → List Val → List (List (List Val)) → List Val × List Val
  | cc, prev, [] => (cc, prev)
  | cc, prev, b :: bs =>
    runBlocks rank (applyCC cc (pendingAfter rank (packetsOf (prev :: b)))).1 (lastSet prev b) bs

theorem lastSet_mem (s0 : List Val) (sets : List (List Val)) : lastSet s0 sets ∈ s0 :: sets :=
  List.getLastD_mem_cons

theorem getLastD_append (a : List Val) (l m : List (List Val)) : (l ++ m).getLastD a = m.getLastD (l.getLastD a) := by
  induction l generalizing a with
  | nil => rfl
  | cons x xs ih => simp only [List.cons_append, List.getLastD_cons, ih]

/-- **Replication under any schedule.**  However the ordered packet stream is cut into consumer
    blocks (empty blocks, one packet, many packets per block, arbitrarily long delays), after every
    block the consumer's stored validator set is exactly the provider set of the last packet
    delivered so far. -/
theorem replication_schedule (rank : Nat → Nat) (blocks : List (List (List Val)))
    (cc s0 : List Val) (hwf : CCWF cc) (hcc : ∀ k, lookup cc k = lookup s0 k)
    (hnd0 : (s0.map (·.key)).Nodup) (hnd : ∀ b ∈ blocks, ∀ s ∈ b, (s.map (·.key)).Nodup) :
    CCWF (runBlocks rank cc s0 blocks).1 ∧
    ∀ k, lookup (runBlocks rank cc s0 blocks).1 k = lookup (runBlocks rank cc s0 blocks).2 k := by
  induction blocks generalizing cc s0 with
  | nil => exact ⟨hwf, hcc⟩
  | cons b bs ih =>
    simp only [runBlocks]
    have hb : ∀ s ∈ s0 :: b, (s.map (·.key)).Nodup := by
      intro s hs
      rcases List.mem_cons.mp hs with rfl | h
      · exact hnd0
      · exact hnd b List.mem_cons_self s h
    have hr := (replication_block rank cc hwf s0 b hb hcc).1
    apply ih
    · exact applyCC_wf cc hwf _
    · intro k; rw [lastSet_eq]; exact hr k
    · exact hb _ (lastSet_mem s0 b)
    · intro b' hb' s hs; exact hnd b' (List.mem_cons_of_mem _ hb') s hs

/-- the set the schedule should reach is the last provider set that was delivered -/
theorem runBlocks_target (rank : Nat → Nat) (blocks : List (List (List Val))) (cc s0 : List Val) :
    (runBlocks rank cc s0 blocks).2 = lastSet s0 blocks.flatten := by
  induction blocks generalizing cc s0 with
  | nil => rfl
  | cons b bs ih =>
    simp only [runBlocks, List.flatten_cons]
    rw [ih]
    unfold lastSet
    rw [getLastD_append]

example : runBlocks id [⟨1, 5⟩] [⟨1, 5⟩] [[], [[⟨1, 5⟩, ⟨2, 3⟩], [⟨2, 4⟩]], [], [[⟨2, 4⟩, ⟨3, 1⟩]]]
    = ([⟨2, 4⟩, ⟨3, 1⟩], [⟨2, 4⟩, ⟨3, 1⟩]) := by decide

/-! ### non-vacuity -/

example : diff [⟨1, 5⟩, ⟨2, 7⟩, ⟨3, 1⟩] [⟨2, 9⟩, ⟨3, 1⟩, ⟨4, 2⟩] = [⟨1, 0⟩, ⟨2, 9⟩, ⟨4, 2⟩] := by decide

example : (applyCC [⟨1, 5⟩, ⟨2, 7⟩] [⟨1, 0⟩, ⟨9, 0⟩, ⟨2, 9⟩, ⟨4, 2⟩]) =
    ([⟨2, 9⟩, ⟨4, 2⟩], [⟨1, 0⟩, ⟨2, 9⟩, ⟨4, 2⟩]) := by decide

example : CCWF [⟨1, 5⟩, ⟨2, 7⟩] := by
  constructor
  · decide
  · intro v hv; simp at hv; rcases hv with rfl | rfl <;> decide

example : accumulate id [⟨1, 5⟩, ⟨2, 7⟩] [⟨2, 0⟩, ⟨3, 5⟩] = [⟨3, 5⟩, ⟨1, 5⟩, ⟨2, 0⟩] := by decide

end ICS.Props.C01
