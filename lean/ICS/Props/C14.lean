/-
  C14 — Only owners, governance and the validator itself can change what is theirs.
-/
import ICS.Lemmas.Prov
import ICS.Props.C05
namespace ICS.Props.C14
open ICS ICS.Provider ICS.Epoch

/-- the message's sender must be the consumer's current owner (and the consumer active) -/
theorem update_requires_owner (s : State) (a : UpdateArgs) (r : State × Time) (h : updateCore s a = some r) :
    a.sender = (s.get a.c).owner ∧ isActive (s.get a.c).phase = true := by
  have hg : updateGuard s a = true := by
    unfold updateCore at h
    split at h
    · cases h
    · rename_i hn; simpa using hn
  unfold updateGuard at hg
  simp only [Bool.and_eq_true, beq_iff_eq] at hg
  exact ⟨hg.2, hg.1.2⟩

theorem update_requires_owner' (s s' : State) (a : UpdateArgs) (h : updateConsumer s a = some s') :
    a.sender = (s.get a.c).owner := by
  unfold updateConsumer at h
  split at h
  · cases h
  · rename_i s1 p hc
    exact (update_requires_owner s a _ hc).1

/-- InitializeConsumer/PrepareConsumerForLaunch never touch owner or power-shaping parameters -/
theorem initializeAndPrepare_keeps (s s' : State) (c : CId) (t : Time)
    (h : initializeAndPrepare s c t = some s') :
    (s'.get c).owner = (s.get c).owner ∧ (s'.get c).ps = (s.get c).ps ∧ s'.authority = s.authority := by
  unfold initializeAndPrepare at h
  simp only at h
  split at h
  · simp only [Option.some.injEq] at h; subst h; exact ⟨rfl, rfl, rfl⟩
  · split at h
    · cases h
    · simp only [Option.some.injEq] at h
      subst h
      have hid : ∀ (q : TimeQueue) (t : State), State.get { t with spawnQ := q } c = t.get c := fun _ _ => rfl
      have hau : ∀ (t : State) (x : Consumer), (t.set x).authority = t.authority := by
        intro t x; unfold State.set; split <;> rfl
      rw [hid, get_set_upd s c (fun x => { x with phase := Phase.initialized }) (fun _ => rfl)]
      exact ⟨rfl, rfl, by simp [hau]⟩

/-- **Top-N needs governance ownership.**  After any accepted MsgUpdateConsumer — including one
    that changes owner and Top-N together — a consumer with a non-zero Top-N is owned by the
    governance authority. -/
theorem update_topn_owner (s s' : State) (a : UpdateArgs) (h : updateConsumer s a = some s') :
    ((s'.get a.c).ps.getD {}).topN ≠ 0 → (s'.get a.c).owner = s'.authority := by
  unfold updateConsumer at h
  split at h
  · cases h
  · rename_i s1 prev hc
    split at h
    · cases h
    · rename_i hchk
      obtain ⟨ho, hp, ha⟩ := initializeAndPrepare_keeps _ _ _ _ h
      intro htop
      rw [hp] at htop
      rw [ho, ha]
      simp only [Bool.and_eq_true, bne_iff_ne, ne_eq, not_and, Decidable.not_not] at hchk
      exact hchk htop

/-- a validated Top-N value is 0 or within 50..100 -/
theorem validPS_range (p : PS) (h : validPS p = true) : p.topN = 0 ∨ (50 ≤ p.topN ∧ p.topN ≤ 100) := by
  unfold validPS at h
  simp only [Bool.and_eq_true, Bool.or_eq_true, beq_iff_eq, decide_eq_true_eq] at h
  rcases h.1 with h0 | h1
  · left; exact h0
  · right; exact h1

/-- permissionless creation yields opt-in consumers only -/
theorem create_is_optin (a : CreateArgs) (p : PSArgs) (h : createOK a = true) (hp : a.ps = some p) :
    p.ps.topN = 0 := by
  unfold createOK at h
  simp only [hp, Bool.and_eq_true, beq_iff_eq] at h
  exact h.1.2.1

theorem createRecord_topn (c : CId) (a : CreateArgs) (h : createOK a = true) :
    ((createRecord c a).ps.getD {}).topN = 0 := by
  unfold createRecord
  cases hp : a.ps with
  | none => simp
  | some p => simp [create_is_optin a p h hp]

/-- opt-in, opt-out and key assignment are accepted only from the operator of the validator they
    name (ValidateBasic, run by the message router) -/
theorem optin_signed_by_validator (s s' : State) (c : CId) (v signer : Nat) (k : Option Nat)
    (h : msgOptIn s c v signer k = some s') : signer = v := by
  unfold msgOptIn at h
  split at h
  · cases h
  · rename_i hh; simp only [Bool.or_eq_true, bne_iff_ne, ne_eq, not_or, Decidable.not_not] at hh; exact hh.2

theorem optout_signed_by_validator (s s' : State) (c : CId) (v signer : Nat)
    (h : msgOptOut s c v signer = some s') : signer = v := by
  unfold msgOptOut at h
  split at h
  · cases h
  · rename_i hh; simp only [Bool.or_eq_true, bne_iff_ne, ne_eq, not_or, Decidable.not_not] at hh; exact hh.2

theorem assign_signed_by_validator (s s' : State) (c : CId) (v signer key : Nat)
    (h : msgAssignKey s c v signer key = some s') : signer = v := by
  unfold msgAssignKey at h
  split at h
  · cases h
  · rename_i hh; simp only [Bool.or_eq_true, bne_iff_ne, ne_eq, not_or, Decidable.not_not] at hh; exact hh.2

/-- MsgRemoveConsumer: owner only -/
theorem remove_requires_owner (s s' : State) (sender : String) (c : CId)
    (h : removeConsumer s sender c = some s') : sender = (s.get c).owner := by
  unfold removeConsumer at h
  split at h
  · cases h
  · simp only at h
    split at h
    · cases h
    · split at h
      · cases h
      · rename_i h1 h2 h3; simpa using h3

/-! ### non-vacuity: one message that makes gov the owner and sets Top-N is rejected (the check
    uses the OLD owner), two messages succeed -/
example :
    let s : State := { consumers := [{ id := "0", phase := .registered, owner := "u1", chain := "c-1", chainRev := 1,
                                       hasInit := true, ps := some {} }],
                       nextId := 1, stk := [{ id := 0, tokens := 5, status := 3, jailed := false, lastPower := 5 }],
                       bonded := [0] }
    let both : UpdateArgs := { sender := "u1", c := "0", newOwner := some "gov", newChain := "", newChainRev := 0,
                               init := none, ps := some { ps := { topN := 60 }, allow := [], deny := [], prio := [] }, infr := none }
    let first : UpdateArgs := { both with ps := none }
    let second : UpdateArgs := { both with sender := "gov", newOwner := none }
    (updateConsumer s both).isNone ∧
    ((updateConsumer s first).bind fun s1 => updateConsumer s1 second).isSome := by decide

end ICS.Props.C14
