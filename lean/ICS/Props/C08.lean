/-
  C08 — Downtime reports jail exactly the right validator and are acknowledged.
-/
import ICS.Model.Provider
import ICS.Model.Consumer
namespace ICS.Props.C08
open ICS ICS.Provider

/-- double-sign slash packets never punish anyone: no staking effect, state and meter unchanged -/
theorem doublesign_noop (s : State) (t : Throttle) (vsc2h : List (Nat × Nat)) (chan : String) (p : SlashPkt)
    (h : p.infraction = 1) :
    (onRecvSlash s t vsc2h chan p).2.2.1 = [] ∧ (onRecvSlash s t vsc2h chan p).2.1 = t := by
  unfold onRecvSlash
  split
  · exact ⟨rfl, rfl⟩
  · simp only
    split
    · exact ⟨rfl, rfl⟩
    · split
      · exact ⟨rfl, rfl⟩
      · split
        · exact ⟨rfl, rfl⟩
        · simp [h]

/-- the staking effects of HandleSlashPacket are exactly: nothing, or slash + jail + jail-until of
    the validator described by `jailPlan` -/
theorem handleSlash_effects (s : State) (x : Consumer) (vsc2h : List (Nat × Nat)) (p : SlashPkt) :
    (handleSlash s x vsc2h p).2 =
      match jailPlan s x vsc2h p with
      | some (v, ih, dt) => [.slash v ih p.power dt.frac, .jail v, .jailUntil v (s.now + dt.jail)]
      | none => [] := by
  unfold handleSlash jailPlan
  simp only
  cases hf : s.stk.find? (·.id == providerOf x p.key) with
  | none => simp
  | some r =>
    simp only
    by_cases h1 : (r.status == 1) = true
    · simp [h1]
    · by_cases h2 : r.tomb = true
      · simp [h1, h2]
      · simp only [h1, h2, Bool.false_eq_true, if_false, Bool.false_or]
        cases hm : mappedInfractionHeight x vsc2h p.vscId with
        | none => by_cases h3 : r.jailed = true <;> simp [h3]
        | some ih =>
          cases hi : x.infr with
          | none => by_cases h3 : r.jailed = true <;> simp [h3]
          | some ip =>
            cases hd : ip.dt with
            | none => by_cases h3 : r.jailed = true <;> simp [h3, hd]
            | some dt => by_cases h3 : r.jailed = true <;> simp [h3, hd]

/-- jailing happens exactly for the validator that owns the reported key (assigned key, replaced but
    not yet pruned key, or provider key by identity), which must exist, be neither unbonded nor
    tombstoned nor already jailed; the slash uses the consumer's OWN downtime parameters in force at
    handling time (C20) and the infraction height the update id resolves to (C12) -/
theorem jail_plan_spec (s : State) (x : Consumer) (vsc2h : List (Nat × Nat)) (p : SlashPkt)
    (v ih : Nat) (dt : SlashJail) (h : jailPlan s x vsc2h p = some (v, ih, dt)) :
    v = providerOf x p.key ∧
    (∃ r, s.stk.find? (·.id == v) = some r ∧ r.status ≠ 1 ∧ r.tomb = false ∧ r.jailed = false) ∧
    mappedInfractionHeight x vsc2h p.vscId = some ih ∧
    (∃ ip, x.infr = some ip ∧ ip.dt = some dt) := by
  unfold jailPlan at h
  simp only at h
  cases hf : s.stk.find? (·.id == providerOf x p.key) with
  | none => simp [hf] at h
  | some r =>
    simp only [hf] at h
    split at h
    · cases h
    · rename_i hex
      simp only [Bool.or_eq_true, beq_iff_eq, not_or] at hex
      cases hm : mappedInfractionHeight x vsc2h p.vscId with
      | none => simp [hm] at h
      | some ih' =>
        cases hi : x.infr with
        | none => simp [hm, hi] at h
        | some ip =>
          cases hd : ip.dt with
          | none => simp [hm, hi, hd] at h
          | some dt' =>
            simp only [hm, hi, hd, Option.bind_some, Option.some.injEq, Prod.mk.injEq] at h
            obtain ⟨rfl, rfl, rfl⟩ := h
            refine ⟨rfl, ⟨r, hf, hex.1.1, by simpa using hex.1.2, by simpa using hex.2⟩, rfl, ⟨ip, rfl, hd⟩⟩

/-- no other validator is ever affected: every effect names the planned validator -/
theorem effects_hit_only_planned (s : State) (x : Consumer) (vsc2h : List (Nat × Nat)) (p : SlashPkt) :
    ∀ e ∈ (handleSlash s x vsc2h p).2,
      (match e with | .slash v _ _ _ => v | .jail v => v | .jailUntil v _ => v) = providerOf x p.key := by
  intro e he
  rw [handleSlash_effects] at he
  cases hj : jailPlan s x vsc2h p with
  | none => simp [hj] at he
  | some pl =>
    obtain ⟨v, ih, dt⟩ := pl
    simp only [hj, List.mem_cons, List.mem_nil_iff, or_false] at he
    have hv := (jail_plan_spec s x vsc2h p v ih dt hj).1
    rcases he with rfl | rfl | rfl <;> exact hv

/-- the report is acknowledged (slash ack appended) when the consumer is not launched or the
    validator is not in the consumer's validator set -/
theorem ack_when_declined (s : State) (t : Throttle) (vsc2h : List (Nat × Nat)) (chan : String) (p : SlashPkt)
    (c : CId) (hc : s.chan2c.find? (·.1 == chan) = some (chan, c))
    (hpow : p.power ≠ 0) (hdt : p.infraction = 2)
    (hid : (mappedInfractionHeight (s.get c) vsc2h p.vscId).isNone = false)
    (hdecl : (s.get c).phase ≠ .launched ∨
             (s.get c).valset.any (·.v == providerOf (s.get c) p.key) = false) :
    (onRecvSlash s t vsc2h chan p).1 = s.set { s.get c with acks := (s.get c).acks ++ [p.key] } ∧
    (onRecvSlash s t vsc2h chan p).2.2.2 = .handled ∧ (onRecvSlash s t vsc2h chan p).2.2.1 = [] := by
  unfold onRecvSlash
  rcases hdecl with h | h
  · simp [hc, hpow, hdt, hid, h]
  · by_cases hl : (s.get c).phase = .launched
    · simp [hc, hpow, hdt, hid, hl, h]
    · simp [hc, hpow, hdt, hid, hl]

/-- packets carrying an update id the provider never issued are answered with an error
    acknowledgement and change nothing (C12) -/
theorem unknown_id_error (s : State) (t : Throttle) (vsc2h : List (Nat × Nat)) (chan : String) (p : SlashPkt)
    (c : CId) (hc : s.chan2c.find? (·.1 == chan) = some (chan, c))
    (hpow : p.power ≠ 0) (hinf : p.infraction = 1 ∨ p.infraction = 2)
    (hid : (mappedInfractionHeight (s.get c) vsc2h p.vscId).isNone = true) :
    onRecvSlash s t vsc2h chan p = (s, t, [], .error) := by
  unfold onRecvSlash
  rcases hinf with h | h <;> simp [hc, hpow, h, hid]

/-! ### consumer side: one outstanding downtime report per validator -/
open ICS.Consumer in
theorem downtime_once (s : Consumer.State) (key power ih : Nat) (h : s.outstanding.contains key = true) :
    Consumer.slash s key power ih 2 = s := by
  unfold Consumer.slash
  simp only [h]
  simp

open ICS.Consumer in
theorem downtime_sets_flag (s : Consumer.State) (key power ih : Nat) (h : s.outstanding.contains key = false) :
    key ∈ (Consumer.slash s key power ih 2).outstanding ∧
    (Consumer.slash s key power ih 2).queue = s.queue ++ [.slash key power (Consumer.getH2V s.h2v ih) 2] := by
  unfold Consumer.slash
  simp only [h]
  constructor
  · simp only [beq_self_eq_true, Bool.true_and, Bool.false_eq_true, if_false, if_true]
    apply (isort_perm' _ _).mem_iff.mpr
    simp
  · simp
where
  isort_perm' (le : Nat → Nat → Bool) (l : List Nat) : (isort le l).Perm l := by
    induction l with
    | nil => simp [isort]
    | cons x xs ih =>
      simp only [isort]
      exact (insertBy_perm' le x _).trans (List.Perm.cons x ih)
  insertBy_perm' (le : Nat → Nat → Bool) (x : Nat) (l : List Nat) : (insertBy le x l).Perm (x :: l) := by
    induction l with
    | nil => simp [insertBy]
    | cons y ys ih =>
      simp only [insertBy]
      split
      · exact List.Perm.refl _
      · exact (List.Perm.cons y ih).trans (List.Perm.swap x y ys)

open ICS.Consumer in
/-- slash acknowledgements in a VSC packet clear exactly the named flags -/
theorem acks_clear_flags (rank : Nat → Nat) (s : Consumer.State) (chan : String) (id : Nat) (ups : List ValSet.Update)
    (acks : List Nat) (hid : id ≠ 0) (hch : s.pchan = some chan ∨ s.pchan = none) :
    (Consumer.onRecvVSC rank s chan id (some ups) acks).1.outstanding =
      s.outstanding.filter (fun k => !acks.contains k) := by
  unfold Consumer.onRecvVSC
  have : (id == 0) = false := by simp [hid]
  rcases hch with h | h <;> simp [this, h]

end ICS.Props.C08
