/-
  C13 — Consumers are isolated from one another (store-layout part).
  Theorems about the byte layout, instantiated on the key-space table REGENERATED from
  x/ccv/provider/types/keys.go and on the iterator sites regenerated from the keeper sources.
-/
import ICS.Model.Keys
namespace ICS.Props.C13
open ICS.Keys ICS.Generated

theorem be64_inj {a b : Nat} (ha : a < 2^64) (hb : b < 2^64) (h : be64 a = be64 b) : a = b := by
  simp only [be64, List.cons.injEq, and_true] at h
  obtain ⟨h1, h2, h3, h4, h5, h6, h7, h8⟩ := h
  omega

theorem be64_length (n : Nat) : (be64 n).length = 8 := by simp [be64]

theorem ofBe64_be64 (n : Nat) (h : n < 2^64) : ofBe64 (be64 n) = n := by
  simp only [be64, ofBe64]; omega

theorem prefix_eq_of_length {a b s : List Nat} (hl : a.length = b.length) (h : a <+: b ++ s) : a = b := by
  obtain ⟨t, ht⟩ := h
  have := List.append_inj ht (by simpa using hl)
  exact this.1

/-- a length-prefixed key of consumer `id1` is never a prefix of (a key that starts with) the
    length-prefixed key of another consumer — so iterating the keys of "1" never meets "10" -/
theorem lenKey_prefix_free (p : Nat) (id1 id2 s : List Nat)
    (h1 : id1.length < 2^64) (h2 : id2.length < 2^64)
    (h : lenKey p id1 <+: lenKey p id2 ++ s) : id1 = id2 := by
  unfold lenKey at h
  simp only [List.cons_append, List.cons_prefix_cons, true_and] at h
  obtain ⟨t, ht⟩ := h
  rw [List.append_assoc, List.append_assoc] at ht
  have hb := List.append_inj ht (by simp [be64_length])
  have hlen : id1.length = id2.length := be64_inj h1 h2 hb.1
  exact prefix_eq_of_length hlen ⟨t, by simpa [List.append_assoc] using hb.2⟩

/-- different key spaces never collide: keys of different prefixes are not prefixes of each other -/
theorem lenKey_prefix_ne (p q : Nat) (id1 id2 s : List Nat) (h : lenKey p id1 <+: lenKey q id2 ++ s) : p = q := by
  unfold lenKey at h
  simp only [List.cons_append, List.cons_prefix_cons] at h
  exact h.1

/-- the owner of a length-prefixed key (with any suffix: address, timestamp, denom) is its consumer -/
theorem ownerOf_lenKey (p : Nat) (id s : List Nat) (hid : id.length < 2^64)
    (hs : shapeOf p = some "len") : ownerOf (lenKey p id ++ s) = some (p, id) := by
  unfold ownerOf lenKey
  simp only [List.cons_append, hs]
  have h8 : (be64 id.length ++ id ++ s).take 8 = be64 id.length := by
    rw [List.append_assoc, List.take_append_of_le_length (by simp [be64_length])]
    rw [List.take_of_length_le (by simp [be64_length])]
  have hd : (be64 id.length ++ id ++ s).drop 8 = id ++ s := by
    rw [List.append_assoc, List.drop_append_of_le_length (by simp [be64_length])]
    rw [List.drop_of_length_le (by simp [be64_length])]; simp
  rw [h8, hd, ofBe64_be64 _ hid]
  have : ¬ (be64 id.length ++ id ++ s).length < 8 + id.length := by
    simp [be64_length]
  simp only [this, if_false]
  rw [List.take_append_of_le_length (by omega), List.take_of_length_le (by omega)]

theorem ownerOf_legacyKey (p : Nat) (id : List Nat) (hs : shapeOf p = some "legacy") :
    ownerOf (legacyKey p id) = some (p, id) := by
  unfold ownerOf legacyKey; simp only [hs]

/-! ### obligations on the regenerated tables -/

/-- all provider key prefixes are pairwise distinct (table regenerated from getKeyPrefixes()) -/
theorem provider_prefixes_distinct : (providerPrefixes.map (·.2)).Nodup := by decide +kernel

theorem consumer_prefixes_distinct : (consumerPrefixes.map (·.2)).Nodup := by decide +kernel

/-- every prefix is a byte -/
theorem provider_prefixes_bytes : providerPrefixes.all (fun e => decide (e.2 < 256)) = true := by decide +kernel

/-- every per-consumer key constructor has a recognised layout and a known prefix byte -/
theorem spaces_classified :
    providerSpaces.all (fun e => (e.2.1 == "len" || e.2.1 == "legacy") && decide (e.2.2 < 256)) = true := by
  decide +kernel

/-- the legacy (`prefix|id`, not prefix-free) spaces are exactly the audited ones … -/
theorem legacy_spaces :
    (providerSpaces.filter (fun e => e.2.1 == "legacy")).map (·.1) =
      ["ConsumerGenesisKey", "ConsumerIdToChannelIdKey", "ConsumerIdToClientIdKey",
       "EquivocationEvidenceMinHeightKey", "InitChainHeightKey", "PendingVSCsKey", "SlashAcksKey"] := by
  decide +kernel

/-- … and no iterator ever walks a per-consumer sub-range of them: every iterator in the provider
    keeper is either over a length-prefixed per-consumer prefix, or over a whole key space, or one
    of the two audited helpers that receive a length-prefixed prefix from their callers -/
theorem iterators_classified :
    providerIterKinds.all (fun e =>
      e.2 == "len-per-consumer" || e.2 == "len-per-consumer-range" || e.2 == "whole-space" ||
      ((e.1 == "getValSet" || e.1 == "deleteValSet") && e.2 == "other:prefix")) = true := by
  decide +kernel

/-! ### non-vacuity: ids "1" and "10" -/

example : ¬ (lenKey 36 [49] <+: lenKey 36 [49, 48] ++ [7, 7]) := by decide
example : legacyKey 14 [49] <+: legacyKey 14 [49, 48] := by decide   -- why legacy spaces need exact access
example : ownerOf (lenKey 36 [49, 48] ++ [1, 2, 3]) = some (36, [49, 48]) := by decide
example : shapeOf 36 = some "len" := by decide
example : shapeOf 14 = some "legacy" := by decide

end ICS.Props.C13
