/-
  C12 — Validator-set update ids and infraction heights line up across chains.
-/
import ICS.Lemmas.Prov
import ICS.Model.Consumer
import ICS.Spec.C12
namespace ICS.Props.C12
open ICS ICS.Provider

theorem find_setV2H (m : List (Nat × Nat)) (id h : Nat) : (setV2H m id h).find? (·.1 == id) = some (id, h) := by
  unfold setV2H
  by_cases ha : m.any (·.1 == id) = true
  · simp only [ha, if_true]
    induction m with
    | nil => simp at ha
    | cons a t ih =>
      simp only [List.map_cons, List.find?_cons]
      by_cases hx : a.1 = id
      · simp [hx]
      · have hf : (a.1 == id) = false := by simp [hx]
        simp only [hf, Bool.false_eq_true, if_false]
        apply ih
        simpa [List.any_cons, hf] using ha
  · simp only [ha]
    simp only [Bool.false_eq_true, if_false]
    -- the new entry is somewhere in the sorted list, and no other entry has this id
    have hmem : (id, h) ∈ isort (fun a b => decide (a.1 ≤ b.1)) (m ++ [(id, h)]) :=
      (isort_perm' _ _).mem_iff.mpr (by simp)
    have huniq : ∀ e ∈ isort (fun (a b : Nat × Nat) => decide (a.1 ≤ b.1)) (m ++ [(id, h)]), e.1 = id → e = (id, h) := by
      intro e he hid
      have := (isort_perm' _ _).mem_iff.mp he
      rcases List.mem_append.mp this with h1 | h1
      · exfalso; apply ha; rw [List.any_eq_true]; exact ⟨e, h1, by simp [hid]⟩
      · simpa using h1
    generalize isort (fun (a b : Nat × Nat) => decide (a.1 ≤ b.1)) (m ++ [(id, h)]) = l at hmem huniq
    induction l with
    | nil => cases hmem
    | cons a t ih =>
      simp only [List.find?_cons]
      by_cases hx : a.1 = id
      · have := huniq a (by simp) hx
        simp [hx, this]
      · have hf : (a.1 == id) = false := by simp [hx]
        simp only [hf]
        apply ih
        · rcases List.mem_cons.mp hmem with h1 | h1
          · exact absurd (by rw [← h1]) hx
          · exact h1
        · intro e he; exact huniq e (by simp [he])
where
  isort_perm' (le : (Nat × Nat) → (Nat × Nat) → Bool) (l : List (Nat × Nat)) : (isort le l).Perm l := by
    induction l with
    | nil => simp [isort]
    | cons x xs ih =>
      simp only [isort]
      exact (insertBy_perm' le x _).trans (List.Perm.cons x ih)
  insertBy_perm' (le : (Nat × Nat) → (Nat × Nat) → Bool) (x : Nat × Nat) (l : List (Nat × Nat)) :
      (insertBy le x l).Perm (x :: l) := by
    induction l with
    | nil => simp [insertBy]
    | cons y ys ih =>
      simp only [insertBy]
      split
      · exact List.Perm.refl _
      · exact (List.Perm.cons y ih).trans (List.Perm.swap x y ys)

/-- EndBlockCIS maps the id that is open during this block to this block's height + 1 -/
theorem cis_maps_open_id (s : State) (g : GlobalVS) :
    Spec.C12.lookupH (endBlockCIS s g).2.vsc2h s.vscId = some (s.height + 1) := by
  unfold endBlockCIS Spec.C12.lookupH
  simp only [find_setV2H]

/-- processing one consumer at an epoch does not touch the id counter -/
theorem queueOne_vscId (s s' : State) (c : CId) (h : queueOne s c = some s') : s'.vscId = s.vscId := by
  unfold queueOne at h
  simp only at h
  have hset : ∀ (t : State) (x : Consumer), (t.set x).vscId = t.vscId := by
    intro t x; unfold State.set; split <;> rfl
  split at h
  · simp only [Option.some.injEq] at h; subst h; rfl
  · split at h
    · cases h
    · split at h
      · cases h
      · simp only [Option.some.injEq] at h; subst h; exact hset _ _

theorem fold_queue_vscId (l : List Consumer) (s s' : State)
    (h : l.foldl (fun (acc : Option State) x0 => match acc with | none => none | some s => queueOne s x0.id) (some s) = some s') :
    s'.vscId = s.vscId := by
  induction l generalizing s with
  | nil => simp at h; subst h; rfl
  | cons x xs ih =>
    simp only [List.foldl_cons] at h
    cases hq : queueOne s x.id with
    | none =>
      simp only [hq] at h
      have : ∀ l : List Consumer, l.foldl (fun (acc : Option State) x0 => match acc with | none => none | some s => queueOne s x0.id) none = none := by
        intro l; induction l with
        | nil => rfl
        | cons y ys ih2 => simpa using ih2
      rw [this] at h; cases h
    | some s1 =>
      simp only [hq] at h
      rw [ih s1 h, queueOne_vscId s s1 x.id hq]

/-- the id counter increases by exactly one per epoch -/
theorem queue_increments_id (s s' : State) (h : queueVSC s = some s') : s'.vscId = s.vscId + 1 := by
  unfold queueVSC at h
  simp only at h
  split at h
  · cases h
  · rename_i s1 hs1
    simp only [Option.some.injEq] at h
    subst h
    simp only
    rw [fold_queue_vscId _ s s1 hs1]

/-- and not at all in a block that is not an epoch boundary -/
theorem no_increment_off_epoch (s : State) (g : GlobalVS) (s' : State) (g' : GlobalVS) (u : List ValSet.Update)
    (sent : List (CId × Packet)) (hoff : (endBlockCIS s g).1.height % (endBlockCIS s g).1.epoch ≠ 0)
    (h : endBlock s g = some (s', g', u, sent)) : s' = (endBlockCIS s g).1 ∧ sent = [] := by
  unfold endBlock at h
  have : ((endBlockCIS s g).1.height % (endBlockCIS s g).1.epoch == 0) = false := by simp [hoff]
  simp only [this, Bool.false_eq_true, if_false, Option.some.injEq, Prod.mk.injEq] at h
  exact ⟨h.1.symm, h.2.2.2.symm⟩

/-- id 0 resolves to the channel-opening height, other ids through the id↦height map; an id that was
    never issued does not resolve -/
theorem resolve_zero (x : Consumer) (m : List (Nat × Nat)) : mappedInfractionHeight x m 0 = x.initH := by
  unfold mappedInfractionHeight; simp

theorem resolve_unknown (x : Consumer) (m : List (Nat × Nat)) (id : Nat) (h0 : id ≠ 0)
    (hn : ∀ e ∈ m, e.1 ≠ id) : mappedInfractionHeight x m id = none := by
  unfold mappedInfractionHeight
  have : (id == 0) = false := by simp [h0]
  simp only [this, Bool.false_eq_true, if_false]
  have : m.find? (·.1 == id) = none := by
    rw [List.find?_eq_none]; intro e he; simpa using hn e he
  rw [this]

/-! ### consumer side -/
open ICS.Consumer in
theorem find_setH2V (m : List (Nat × Nat)) (hgt id : Nat) : Consumer.getH2V (Consumer.setH2V m hgt id) hgt = id := by
  unfold Consumer.getH2V
  have : (Consumer.setH2V m hgt id).find? (·.1 == hgt) = some (hgt, id) := find_setV2H m hgt id
  rw [this]

open ICS.Consumer in
/-- BeginBlock: the next height inherits the id of the current one -/
theorem begin_carries_forward (s : Consumer.State) :
    Consumer.getH2V (Consumer.beginBlock s).h2v (s.height + 1) = Consumer.getH2V s.h2v s.height := by
  unfold Consumer.beginBlock; simp only; exact find_setH2V _ _ _

open ICS.Consumer in
/-- a received update is associated with the NEXT height -/
theorem recv_sets_next_height (rank : Nat → Nat) (s : Consumer.State) (chan : String) (id : Nat) (ups : List ValSet.Update)
    (acks : List Nat) (hid : id ≠ 0) (hch : s.pchan = some chan ∨ s.pchan = none) :
    Consumer.getH2V (Consumer.onRecvVSC rank s chan id (some ups) acks).1.h2v (s.height + 1) = id := by
  unfold Consumer.onRecvVSC
  have : (id == 0) = false := by simp [hid]
  rcases hch with h | h <;> simp [this, h, find_setH2V]

open ICS.Consumer in
/-- a slash packet carries the id associated with the infraction height (0 if none is recorded) -/
theorem slash_carries_mapped_id (s : Consumer.State) (key power ih inf : Nat) (hinf : inf = 1 ∨ (inf = 2 ∧ s.outstanding.contains key = false)) :
    (Consumer.slash s key power ih inf).queue = s.queue ++ [.slash key power (Consumer.getH2V s.h2v ih) inf] := by
  unfold Consumer.slash
  rcases hinf with h | ⟨h, ho⟩
  · subst h; simp
  · subst h
    have hno : ¬ key ∈ s.outstanding := by simpa using ho
    simp [hno]

end ICS.Props.C12
