/-
  C06 — Replaced consumer keys stay attributable for the unbonding period.
-/
import ICS.Props.C05
namespace ICS.Props.C06
open ICS ICS.Provider

/-- replacing key `old` on a LAUNCHED consumer keeps `old` resolving to the validator and
    schedules it for pruning exactly one unbonding period later -/
theorem replaced_key_kept (s s' : State) (c : CId) (v key old : Nat)
    (hl : (s.get c).phase = .launched) (hold : assignedKey (s.get c) v = some old)
    (hres : resolveKey (s.get c) old = some v)
    (h : assignKey s c v key = some s') :
    resolveKey (s'.get c) old = some v ∧
    (∃ e ∈ (s'.get c).prune, e.1 = s.now + s.unbonding ∧ old ∈ e.2) := by
  have hok : assignOK s c v key = true := by
    unfold assignKey at h; split at h
    · assumption
    · cases h
  -- the new key differs from the old one (the old one still resolves, so it would be rejected)
  have hne : old ≠ key := by
    intro he
    unfold assignOK at hok
    simp only [Bool.and_eq_true] at hok
    rw [← he, hres] at hok
    simp at hok
  unfold assignKey at h
  rw [if_pos hok] at h
  simp only [Option.some.injEq] at h
  subst h
  rw [get_set_upd s c (assignRecord (s.now + s.unbonding) v key) (C05.assignRecord_id _ _ _)]
  unfold assignRecord
  simp only [hold, hl, beq_self_eq_true, if_true]
  constructor
  · unfold resolveKey
    rw [find_setAssoc_other _ _ _ _ hne]
    exact hres
  · unfold pruneAppend
    by_cases hany : (s.get c).prune.any (·.1 == s.now + s.unbonding) = true
    · simp only [hany, if_true]
      rw [List.any_eq_true] at hany
      obtain ⟨e, he, het⟩ := hany
      have het : e.1 = s.now + s.unbonding := by simpa using het
      refine ⟨(s.now + s.unbonding, e.2 ++ [old]), ?_, rfl, by simp⟩
      rw [List.mem_map]
      exact ⟨e, he, by simp [het]⟩
    · simp only [hany]
      simp only [Bool.false_eq_true, if_false]
      exact ⟨(s.now + s.unbonding, [old]), by simp, rfl, by simp⟩

/-- before launch the old key is forgotten at once -/
theorem prelaunch_forgets (s s' : State) (c : CId) (v key old : Nat)
    (hl : (s.get c).phase ≠ .launched) (hold : assignedKey (s.get c) v = some old)
    (hne : old ≠ key)
    (h : assignKey s c v key = some s') : resolveKey (s'.get c) old = none := by
  unfold assignKey at h
  split at h
  · simp only [Option.some.injEq] at h
    subst h
    rw [get_set_upd s c (assignRecord (s.now + s.unbonding) v key) (C05.assignRecord_id _ _ _)]
    unfold assignRecord
    have hp : ((s.get c).phase == Phase.launched) = false := by simp [hl]
    simp only [hold, hp, Bool.false_eq_true, if_false]
    unfold resolveKey
    rw [find_setAssoc_other _ _ _ _ hne]
    have : ((s.get c).byaddr.filter fun b => b.1 != old).find? (·.1 == old) = none := by
      rw [List.find?_eq_none]
      intro b hb
      have := (List.mem_filter.mp hb).2
      simpa using this
    rw [this]
  · cases h

/-- pruning at block time `now` forgets only keys whose deadline has been reached:
    a key scheduled for a later time keeps resolving -/
theorem prune_not_early (x : Consumer) (now : Time) (k : Nat)
    (hfuture : ∀ e ∈ x.prune, k ∈ e.2 → now < e.1) :
    resolveKey (pruneKeys x now) k = resolveKey x k := by
  unfold pruneKeys resolveKey
  simp only
  have hnot : ¬ k ∈ (x.prune.filter fun e => decide (e.1 ≤ now)).flatMap (·.2) := by
    intro hm
    rw [List.mem_flatMap] at hm
    obtain ⟨e, he, hk⟩ := hm
    have hdue : e.1 ≤ now := by simpa using (List.mem_filter.mp he).2
    have := hfuture e (List.mem_filter.mp he).1 hk
    exact absurd hdue (Int.not_le.mpr this)
  induction x.byaddr with
  | nil => simp
  | cons b t ih =>
    by_cases hb : b.1 = k
    · have hkeep : (!((x.prune.filter fun e => decide (e.1 ≤ now)).flatMap (·.2)).contains b.1) = true := by
        rw [hb]; simpa using hnot
      rw [List.filter_cons, hkeep]
      simp [hb]
    · by_cases hkeep : (!((x.prune.filter fun e => decide (e.1 ≤ now)).flatMap (·.2)).contains b.1) = true
      · rw [List.filter_cons, hkeep]
        have : (b.1 == k) = false := by simp [hb]
        simp only [if_true, List.find?_cons, this]
        exact ih
      · have hkf : (!((x.prune.filter fun e => decide (e.1 ≤ now)).flatMap (·.2)).contains b.1) = false := by
          cases hc : (!((x.prune.filter fun e => decide (e.1 ≤ now)).flatMap (·.2)).contains b.1) with
          | true => exact absurd hc hkeep
          | false => rfl
        rw [List.filter_cons, hkf]
        have : (b.1 == k) = false := by simp [hb]
        simp only [Bool.false_eq_true, if_false, List.find?_cons, this]
        exact ih

/-- and once the deadline has been reached the key is forgotten -/
theorem pruned_when_due (x : Consumer) (now : Time) (k : Nat)
    (hdue : ∃ e ∈ x.prune, k ∈ e.2 ∧ e.1 ≤ now) : resolveKey (pruneKeys x now) k = none := by
  unfold pruneKeys resolveKey
  simp only
  obtain ⟨e, he, hk, ht⟩ := hdue
  have hin : k ∈ (x.prune.filter fun e => decide (e.1 ≤ now)).flatMap (·.2) := by
    rw [List.mem_flatMap]
    exact ⟨e, List.mem_filter.mpr ⟨he, by simpa using ht⟩, hk⟩
  have : (x.byaddr.filter fun b => !((x.prune.filter fun e => decide (e.1 ≤ now)).flatMap (·.2)).contains b.1).find?
      (·.1 == k) = none := by
    rw [List.find?_eq_none]
    intro b hb hbk
    have hbk : b.1 = k := by simpa using hbk
    have := (List.mem_filter.mp hb).2
    rw [hbk] at this
    simp [hin] at this
  rw [this]

/-- a key that was never assigned resolves to the validator owning it as provider key -/
theorem identity_fallback (x : Consumer) (k : Nat) (h : resolveKey x k = none) : providerOf x k = k := by
  unfold providerOf; simp [h]

/-- a key that resolves is attributed to the recorded validator -/
theorem resolves_to_recorded (x : Consumer) (k v : Nat) (h : resolveKey x k = some v) : providerOf x k = v := by
  unfold providerOf; simp [h]

end ICS.Props.C06
