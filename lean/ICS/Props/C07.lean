/-
  C07 — equivocation evidence (double voting) punishes exactly the signer, and only when valid.

  Model: ICS.Equiv (Model/Equivocation.lean).  Cryptography is abstracted by A-CRYPTO: `sigValid`.
  The light-client-attack (misbehaviour) path is NOT covered by these theorems (DESIGN.md §10).
-/
import ICS.Model.Equivocation
import ICS.Model.Misbehaviour
import ICS.Spec.C07
namespace ICS.Props.C07
open ICS ICS.Provider ICS.Epoch ICS.Equiv

/-! ### acceptance implies validity -/

theorem handleDV_some (s : State) (unb : List Unb) (c : CId) (e : Evidence) (effs : List Effect)
    (h : handleDV s unb c e = some effs) :
    basicOK e = true ∧
    (∃ hv, e.hv = some hv ∧ hv.isEmpty = false ∧ hv.contains e.a.addr = true) ∧
    (s.get c).client.isNone = false ∧
    ¬ (e.a.height < (s.get c).evmin) ∧
    verifyDV e (s.get c).chain e.a.addr = true ∧
    ∃ ds, (s.get c).infr.bind (·.ds) = some ds ∧
      punish s.stk unb s.now (providerOf (s.get c) e.a.addr) ds = some effs := by
  unfold handleDV at h
  by_cases hb : basicOK e = true
  · simp only [hb, Bool.not_true, Bool.false_eq_true, if_false] at h
    cases hhv : e.hv with
    | none => simp [hhv] at h
    | some hv =>
      simp only [hhv] at h
      by_cases h1 : hv.isEmpty = true
      · simp [h1] at h
      · by_cases h2 : hv.contains e.a.addr = true
        · by_cases h3 : (s.get c).client.isNone = true
          · simp [h1, h2, h3] at h
          · by_cases h4 : e.a.height < (s.get c).evmin
            · simp [h1, h2, h3, h4] at h
            · by_cases h5 : verifyDV e (s.get c).chain e.a.addr = true
              · cases hds : (s.get c).infr.bind (·.ds) with
                | none => simp [h1, h2, h3, h4, h5, hds] at h
                | some ds =>
                  simp only [h1, h2, h3, h4, h5, hds, Bool.not_true, Bool.false_eq_true, if_false] at h
                  exact ⟨hb, ⟨hv, rfl, (Bool.not_eq_true _).mp h1, h2⟩, (Bool.not_eq_true _).mp h3, h4, h5, ds, rfl, h⟩
              · simp [h1, h2, h3, h4, h5] at h
        · have h2' : e.a.addr ∉ hv := by simpa using h2
          simp [h1, h2'] at h
  · simp [hb] at h

theorem verifyDV_true (e : Evidence) (ch : String) (pk : Nat) (h : verifyDV e ch pk = true) :
    pk = e.a.addr ∧ e.a.height = e.b.height ∧ e.a.round = e.b.round ∧ e.a.type = e.b.type ∧
    e.a.addr = e.b.addr ∧ e.a.block ≠ e.b.block ∧
    e.a.sigOK = true ∧ e.a.signer = pk ∧ e.a.chain = ch ∧
    e.b.sigOK = true ∧ e.b.signer = pk ∧ e.b.chain = ch := by
  simp only [verifyDV, sigValid, Bool.and_eq_true, beq_iff_eq, bne_iff_ne, ne_eq] at h
  obtain ⟨⟨⟨⟨⟨⟨⟨h1, h2⟩, h3⟩, h4⟩, h5⟩, h6⟩, ⟨⟨h7, h8⟩, h9⟩⟩, ⟨⟨h10, h11⟩, h12⟩⟩ := h
  exact ⟨h1, h2, h3, h4, h5, h6, h7, h8, h9, h10, h11, h12⟩

/-- ONLY WHEN VALID: an accepted submission is cryptographically valid for that consumer: two intact
    signatures by the identity named in both votes, over the consumer's own chain id, same height /
    round / type, different blocks, not older than the consumer's minimum evidence height, and the
    consumer has a client -/
theorem accepted_is_valid (s : State) (unb : List Unb) (c : CId) (e : Evidence) (effs : List Effect)
    (h : handleDV s unb c e = some effs) : Spec.C07.validFor (s.get c) e = true := by
  obtain ⟨_, _, hcl, hmin, hv, _⟩ := handleDV_some s unb c e effs h
  obtain ⟨_, h2, h3, h4, h5, h6, h7, h8, h9, h10, h11, h12⟩ := verifyDV_true _ _ _ hv
  have hcl' : (s.get c).client.isSome = true := by
    cases hc : (s.get c).client <;> simp [hc] at hcl ⊢
  simp only [Spec.C07.validFor, Bool.and_eq_true, beq_iff_eq, bne_iff_ne, ne_eq, decide_eq_true_eq]
  refine ⟨⟨⟨⟨⟨⟨⟨⟨⟨⟨⟨⟨hcl', Nat.le_of_not_lt hmin⟩, h7⟩, h10⟩, h8⟩, h11⟩, h5.symm⟩, h9⟩, h12⟩, h2⟩, h3⟩, h4⟩, h6⟩

/-- … hence every single-field mutation of valid evidence is rejected and changes nothing
    (`handleDV = none` means the message fails and its cached context is dropped) -/
theorem invalid_is_rejected (s : State) (unb : List Unb) (c : CId) (e : Evidence)
    (h : Spec.C07.validFor (s.get c) e = false) : handleDV s unb c e = none := by
  cases hh : handleDV s unb c e with
  | none => rfl
  | some effs => rw [accepted_is_valid s unb c e effs hh] at h; cases h

theorem other_chain_rejected (s : State) (unb : List Unb) (c : CId) (e : Evidence)
    (h : e.a.chain ≠ (s.get c).chain ∨ e.b.chain ≠ (s.get c).chain) : handleDV s unb c e = none := by
  apply invalid_is_rejected
  simp only [Spec.C07.validFor]
  rcases h with h | h <;> simp [h]

theorem bad_signature_rejected (s : State) (unb : List Unb) (c : CId) (e : Evidence)
    (h : e.a.sigOK = false ∨ e.b.sigOK = false) : handleDV s unb c e = none := by
  apply invalid_is_rejected
  simp only [Spec.C07.validFor]
  rcases h with h | h <;> simp [h]

/-- a vote carrying one identity's address but signed by another key (forged address, wrong key) -/
theorem wrong_key_rejected (s : State) (unb : List Unb) (c : CId) (e : Evidence)
    (h : e.a.signer ≠ e.a.addr ∨ e.b.signer ≠ e.a.addr) : handleDV s unb c e = none := by
  apply invalid_is_rejected
  simp only [Spec.C07.validFor]
  rcases h with h | h <;> simp [h]

theorem same_block_rejected (s : State) (unb : List Unb) (c : CId) (e : Evidence)
    (h : e.a.block = e.b.block) : handleDV s unb c e = none := by
  apply invalid_is_rejected
  simp [Spec.C07.validFor, h]

theorem hrt_or_validator_mismatch_rejected (s : State) (unb : List Unb) (c : CId) (e : Evidence)
    (h : e.a.height ≠ e.b.height ∨ e.a.round ≠ e.b.round ∨ e.a.type ≠ e.b.type ∨ e.b.addr ≠ e.a.addr) :
    handleDV s unb c e = none := by
  apply invalid_is_rejected
  simp only [Spec.C07.validFor]
  rcases h with h | h | h | h <;> simp [h]

theorem too_old_rejected (s : State) (unb : List Unb) (c : CId) (e : Evidence)
    (h : e.a.height < (s.get c).evmin) : handleDV s unb c e = none := by
  apply invalid_is_rejected
  have : ¬ ((s.get c).evmin ≤ e.a.height) := by omega
  simp [Spec.C07.validFor, this]

/-- unknown consumer, or a consumer that has no client (not launched yet, or deleted) -/
theorem no_client_rejected (s : State) (unb : List Unb) (c : CId) (e : Evidence)
    (h : (s.get c).client = none) : handleDV s unb c e = none := by
  apply invalid_is_rejected
  simp [Spec.C07.validFor, h]

/-! ### who is punished, and how -/

theorem punish_some (stk : List SVal) (unb : List Unb) (now : Time) (v : Nat) (p : SlashJail) (effs : List Effect)
    (h : punish stk unb now v p = some effs) :
    ∃ r, stk.find? (·.id == v) = some r ∧ r.status ≠ 1 ∧ r.tomb = false ∧
      effs = [.slash v (powerToSlash r unb now) p.frac] ++ (if r.jailed then [] else [.jail v]) ++
             [.jailUntil v (if now + p.jail > maxTime then maxTime else now + p.jail)] ++
             (if p.tomb then [.tombstone v] else []) := by
  unfold punish at h
  cases hf : stk.find? (·.id == v) with
  | none => simp [hf] at h
  | some r =>
    simp only [hf] at h
    by_cases h1 : (r.status == 1) = true
    · simp [h1] at h
    · by_cases h2 : r.tomb = true
      · simp [h1, h2] at h
      · simp only [h1, h2, Bool.false_eq_true, if_false, Option.some.injEq] at h
        refine ⟨r, rfl, by simpa using h1, by simpa using h2, h.symm⟩

/-- EXACTLY THE SIGNER: every call to staking / slashing names the provider validator that owns the
    signing key on that consumer (through the key-assignment index, identity if never assigned) -/
theorem punish_only_v (stk : List SVal) (unb : List Unb) (now : Time) (v : Nat) (p : SlashJail) (effs : List Effect)
    (h : punish stk unb now v p = some effs) : ∀ f ∈ effs, f.val = v := by
  obtain ⟨r, _, _, _, rfl⟩ := punish_some stk unb now v p effs h
  intro f hf
  simp only [List.mem_append, List.mem_singleton] at hf
  rcases hf with ((rfl | hf) | rfl) | hf
  · rfl
  · split at hf <;> simp at hf; subst hf; rfl
  · rfl
  · split at hf <;> simp at hf; subst hf; rfl

theorem accepted_punishes_only_signer (s : State) (unb : List Unb) (c : CId) (e : Evidence) (effs : List Effect)
    (h : handleDV s unb c e = some effs) : ∀ f ∈ effs, f.val = providerOf (s.get c) e.a.addr := by
  obtain ⟨_, _, _, _, _, ds, _, hp⟩ := handleDV_some s unb c e effs h
  exact punish_only_v _ _ _ _ _ _ hp

/-- PER THE CONSUMER'S SETTINGS, COUNTING UNBONDING STAKE: exactly one slash, with the consumer's
    double-sign fraction and power = last power + power of the live unbonding / redelegating tokens;
    jailed unless already jailed; jail end now + the consumer's duration; tombstoned iff the consumer
    says so -/
theorem accepted_effects (s : State) (unb : List Unb) (c : CId) (e : Evidence) (effs : List Effect)
    (h : handleDV s unb c e = some effs) :
    ∃ ds r, (s.get c).infr.bind (·.ds) = some ds ∧
      s.stk.find? (·.id == providerOf (s.get c) e.a.addr) = some r ∧ r.status ≠ 1 ∧ r.tomb = false ∧
      effs = [.slash r.id (r.lastPower + ((unb.filter fun u => u.v == r.id && u.live s.now).map (·.amount)).sum / powerReduction) ds.frac]
             ++ (if r.jailed then [] else [.jail r.id])
             ++ [.jailUntil r.id (if s.now + ds.jail > maxTime then maxTime else s.now + ds.jail)]
             ++ (if ds.tomb then [.tombstone r.id] else []) := by
  obtain ⟨_, _, _, _, _, ds, hds, hp⟩ := handleDV_some s unb c e effs h
  obtain ⟨r, hf, h1, h2, he⟩ := punish_some _ _ _ _ _ _ hp
  have hid : r.id = providerOf (s.get c) e.a.addr := by
    have := List.find?_some hf
    simpa using this
  refine ⟨ds, r, hds, hf, h1, h2, ?_⟩
  rw [he, ← hid]; rfl

/-! ### at most once with tombstoning; nobody else is touched -/

theorem find_map_id (stk : List SVal) (g : SVal → SVal) (hg : ∀ r, (g r).id = r.id) (v : Nat) :
    (stk.map g).find? (·.id == v) = (stk.find? (·.id == v)).map g := by
  induction stk with
  | nil => rfl
  | cons x xs ih =>
    simp only [List.map_cons, List.find?_cons, hg]
    split
    · rfl
    · exact ih

theorem applyEffect_find (burn : Nat → Nat → String → Nat) (stk : List SVal) (f : Effect) (v : Nat) :
    ∃ g : SVal → SVal, (applyEffect burn stk f).find? (·.id == v) = (stk.find? (·.id == v)).map g ∧
      (∀ r, (g r).id = r.id) ∧ (∀ r, r.tomb = true → (g r).tomb = true) ∧
      (∀ r, r.id = v → f = .tombstone v → (g r).tomb = true) ∧
      (∀ r, r.id ≠ f.val → g r = r) := by
  cases f with
  | slash w p fr =>
    refine ⟨fun r => if r.id == w then { r with tokens := r.tokens - burn r.tokens p fr } else r, ?_, ?_, ?_, ?_, ?_⟩
    · exact find_map_id _ _ (by intro r; split <;> rfl) v
    · intro r; dsimp only; split <;> rfl
    · intro r hr; dsimp only; split <;> simpa using hr
    · intro r _ hc; cases hc
    · intro r hr; simp [Effect.val] at hr; simp [hr]
  | jail w =>
    refine ⟨fun r => if r.id == w then { r with jailed := true } else r, ?_, ?_, ?_, ?_, ?_⟩
    · exact find_map_id _ _ (by intro r; split <;> rfl) v
    · intro r; dsimp only; split <;> rfl
    · intro r hr; dsimp only; split <;> simpa using hr
    · intro r _ hc; cases hc
    · intro r hr; simp [Effect.val] at hr; simp [hr]
  | jailUntil w t =>
    refine ⟨fun r => if r.id == w then { r with jailedUntil := t } else r, ?_, ?_, ?_, ?_, ?_⟩
    · exact find_map_id _ _ (by intro r; split <;> rfl) v
    · intro r; dsimp only; split <;> rfl
    · intro r hr; dsimp only; split <;> simpa using hr
    · intro r _ hc; cases hc
    · intro r hr; simp [Effect.val] at hr; simp [hr]
  | tombstone w =>
    refine ⟨fun r => if r.id == w then { r with tomb := true } else r, ?_, ?_, ?_, ?_, ?_⟩
    · exact find_map_id _ _ (by intro r; split <;> rfl) v
    · intro r; dsimp only; split <;> rfl
    · intro r hr; dsimp only; split <;> simp [hr]
    · intro r hr hc; injection hc with hc; subst hc; simp [hr]
    · intro r hr; simp [Effect.val] at hr; simp [hr]

/-- after the effects, the record of `v` exists iff it existed; a tombstone among them (or before
    them) leaves it tombstoned -/
theorem applyEffects_tomb (burn : Nat → Nat → String → Nat) (es : List Effect) (stk : List SVal) (v : Nat) (r : SVal)
    (hf : stk.find? (·.id == v) = some r) (ht : r.tomb = true ∨ .tombstone v ∈ es) :
    ∃ r', (applyEffects burn stk es).find? (·.id == v) = some r' ∧ r'.tomb = true := by
  induction es generalizing stk r with
  | nil =>
    rcases ht with ht | ht
    · exact ⟨r, hf, ht⟩
    · simp at ht
  | cons f fs ih =>
    obtain ⟨g, hg, hid, hkeep, hset, _⟩ := applyEffect_find burn stk f v
    simp only [applyEffects, List.foldl_cons]
    have hf' : (applyEffect burn stk f).find? (·.id == v) = some (g r) := by rw [hg, hf]; rfl
    have hrid : r.id = v := by have := List.find?_some hf; simpa using this
    apply ih (applyEffect burn stk f) (g r) hf'
    rcases ht with ht | ht
    · exact Or.inl (hkeep r ht)
    · rcases List.mem_cons.mp ht with h1 | h1
      · exact Or.inl (hset r hrid h1.symm)
      · exact Or.inr h1

/-- NOBODY ELSE IS TOUCHED: effects that all name `v` leave every other validator's record as it was -/
theorem applyEffects_frame (burn : Nat → Nat → String → Nat) (es : List Effect) (stk : List SVal) (v w : Nat)
    (hes : ∀ f ∈ es, f.val = v) (hw : w ≠ v) :
    (applyEffects burn stk es).find? (·.id == w) = stk.find? (·.id == w) := by
  induction es generalizing stk with
  | nil => rfl
  | cons f fs ih =>
    simp only [applyEffects, List.foldl_cons]
    have := ih (applyEffect burn stk f) (fun f' hf' => hes f' (List.mem_cons_of_mem _ hf'))
    simp only [applyEffects] at this
    rw [this]
    obtain ⟨g, hg, _, _, _, hother⟩ := applyEffect_find burn stk f w
    rw [hg]
    cases hfw : stk.find? (·.id == w) with
    | none => rfl
    | some r =>
      have hrid : r.id = w := by have := List.find?_some hfw; simpa using this
      have hfv : f.val = v := hes f List.mem_cons_self
      simp only [Option.map_some]
      rw [hother r (by rw [hrid, hfv]; exact hw)]

/-- AT MOST ONCE WITH TOMBSTONING: once a submission for a consumer whose settings tombstone has
    been accepted, no later evidence — for any consumer, any key, at any time, under any settings —
    punishes that validator again -/
theorem tombstoned_at_most_once (burn : Nat → Nat → String → Nat)
    (s : State) (unb : List Unb) (c : CId) (e : Evidence) (effs : List Effect)
    (h : handleDV s unb c e = some effs)
    (htomb : ∀ ds, (s.get c).infr.bind (·.ds) = some ds → ds.tomb = true)
    (s' : State) (hs' : s'.stk = applyEffects burn s.stk effs)
    (unb' : List Unb) (c' : CId) (e' : Evidence)
    (hsame : providerOf (s'.get c') e'.a.addr = providerOf (s.get c) e.a.addr) :
    handleDV s' unb' c' e' = none := by
  obtain ⟨ds, r, hds, hf, _, _, he⟩ := accepted_effects s unb c e effs h
  have hrid : r.id = providerOf (s.get c) e.a.addr := by have := List.find?_some hf; simpa using this
  have hmem : Effect.tombstone (providerOf (s.get c) e.a.addr) ∈ effs := by
    rw [he, htomb ds hds, hrid]; simp
  obtain ⟨r', hf', ht'⟩ := applyEffects_tomb burn effs s.stk _ r hf (Or.inr hmem)
  cases hh : handleDV s' unb' c' e' with
  | none => rfl
  | some effs' =>
    obtain ⟨_, _, _, _, _, ds', _, hp'⟩ := handleDV_some s' unb' c' e' effs' hh
    obtain ⟨r2, hf2, _, hnt, _⟩ := punish_some _ _ _ _ _ _ hp'
    rw [hs', hsame, hf'] at hf2
    injection hf2 with hf2
    rw [← hf2, ht'] at hnt
    cases hnt

/-! ### non-vacuity (tests, not theorems) -/

def exState : State :=
  { consumers := [{ id := "0", phase := .launched, chain := "c0-1", client := some "07-tendermint-0", evmin := 5,
                    byaddr := [(40, 2)], ka := [(2, 40)],
                    infr := some { ds := some { frac := "0.05", jail := 30, tomb := true }, dt := none } }],
    stk := [{ id := 1, tokens := 3000000, status := 3, jailed := false, lastPower := 3 },
            { id := 2, tokens := 2000000, status := 3, jailed := false, lastPower := 2 }],
    now := 100 }

def exVote (b : Nat) : Vote := { signer := 40, addr := 40, chain := "c0-1", height := 7, round := 0, type := 2, block := b, sigOK := true }

example : handleDV exState [{ v := 2, isRed := false, amount := 1500000, completion := 101, onHold := false },
                            { v := 2, isRed := true, amount := 700000, completion := 99, onHold := false }] "0"
    { a := exVote 1, b := exVote 2, hv := some [40, 1], ord := -1 }
    = some [.slash 2 3 "0.05", .jail 2, .jailUntil 2 130, .tombstone 2] := by decide

example : handleDV exState [] "0" { a := exVote 1, b := { exVote 2 with chain := "c1-1" }, hv := some [40], ord := -1 } = none := by decide
example : handleDV exState [] "0" { a := { exVote 1 with height := 4 }, b := { exVote 2 with height := 4 }, hv := some [40], ord := -1 } = none := by decide


/-! ## light-client-attack evidence (Model/Misbehaviour.lean) -/


/-- identity `k` put a genuine (own key, intact) non-absent commit signature on the header -/
def Signed (h : Hdr) (k : Nat) : Prop := ∃ s ∈ h.sigs, s.key = k ∧ s.flag ≠ .absent ∧ s.sigOK = true

theorem signerOf_mem (sigs : List CSig) (k : Nat) (s : CSig) (h : signerOf sigs k = some s) :
    s ∈ sigs ∧ s.key = k ∧ s.flag ≠ .absent := by
  unfold signerOf at h
  have hm := List.mem_of_getLast? h
  have := List.mem_filter.mp hm
  refine ⟨this.1, ?_, ?_⟩
  · have h2 := this.2; simp only [Bool.and_eq_true, bne_iff_ne, ne_eq, beq_iff_eq] at h2; exact h2.2
  · have h2 := this.2; simp only [Bool.and_eq_true, bne_iff_ne, ne_eq, beq_iff_eq] at h2; exact h2.1

/-- one step of the intersection loop -/
def byzStep (m : Misb) (acc : Option (List Nat)) (s2 : CSig) : Option (List Nat) :=
  match acc with
  | none => none
  | some l =>
    match signerOf m.h1.sigs s2.key with
    | none => some l
    | some s1 =>
      if (powerOfKey m.h1.vals s1.key).isNone || !s1.sigOK then none
      else if (powerOfKey m.h2.vals s2.key).isNone || !s2.sigOK then none
      else some (l ++ [s2.key])

theorem byzantine_eq (m : Misb) :
    byzantine m = if !conflicting m && m.h1.round != m.h2.round then some []
      else (m.h2.sigs.filter fun s => s.flag != .absent).foldl (byzStep m) (some []) := rfl

theorem byzStep_inv (m : Misb) (P : Nat → Prop) (acc : Option (List Nat)) (s2 : CSig)
    (hs2 : s2 ∈ m.h2.sigs ∧ s2.flag ≠ .absent)
    (hP : ∀ k, Signed m.h1 k → Signed m.h2 k → P k)
    (hacc : ∀ l, acc = some l → ∀ k ∈ l, P k) :
    ∀ l, byzStep m acc s2 = some l → ∀ k ∈ l, P k := by
  intro l hl k hk
  unfold byzStep at hl
  cases acc with
  | none => simp at hl
  | some l0 =>
    simp only at hl
    cases hso : signerOf m.h1.sigs s2.key with
    | none => simp only [hso] at hl; injection hl with hl; subst hl; exact hacc l0 rfl k hk
    | some s1 =>
      simp only [hso] at hl
      by_cases h1 : ((powerOfKey m.h1.vals s1.key).isNone || !s1.sigOK) = true
      · simp [h1] at hl
      · by_cases h2 : ((powerOfKey m.h2.vals s2.key).isNone || !s2.sigOK) = true
        · simp [h1, h2] at hl
        · simp only [h1, h2, Bool.false_eq_true, if_false, Option.some.injEq] at hl
          subst hl
          rcases List.mem_append.mp hk with hk | hk
          · exact hacc l0 rfl k hk
          · simp only [List.mem_singleton] at hk
            subst hk
            obtain ⟨hm1, hk1, hf1⟩ := signerOf_mem _ _ _ hso
            have ok1 : s1.sigOK = true := by
              cases hb : s1.sigOK <;> simp [hb] at h1 ⊢
            have ok2 : s2.sigOK = true := by
              cases hb : s2.sigOK <;> simp [hb] at h2 ⊢
            exact hP s2.key ⟨s1, hm1, hk1, hf1, ok1⟩ ⟨s2, hs2.1, rfl, hs2.2, ok2⟩

theorem foldl_byz_inv (m : Misb) (P : Nat → Prop) (hP : ∀ k, Signed m.h1 k → Signed m.h2 k → P k)
    (sigs : List CSig) (hsub : ∀ s ∈ sigs, s ∈ m.h2.sigs ∧ s.flag ≠ .absent)
    (acc : Option (List Nat)) (hacc : ∀ l, acc = some l → ∀ k ∈ l, P k) :
    ∀ l, sigs.foldl (byzStep m) acc = some l → ∀ k ∈ l, P k := by
  induction sigs generalizing acc with
  | nil => exact hacc
  | cons s rest ih =>
    simp only [List.foldl_cons]
    exact ih (fun s' hs' => hsub s' (List.mem_cons_of_mem _ hs')) _
      (byzStep_inv m P acc s (hsub s List.mem_cons_self) hP hacc)

/-- ONLY THOSE WHOSE KEYS PRODUCED BOTH CONFLICTING SIGNATURES: every identity returned by
    GetByzantineValidators put a genuine non-absent signature on header 1 AND on header 2 -/
theorem byzantine_sound (m : Misb) (l : List Nat) (h : byzantine m = some l) :
    ∀ k ∈ l, Signed m.h1 k ∧ Signed m.h2 k := by
  rw [byzantine_eq] at h
  split at h
  · injection h with h; subst h; intro k hk; cases hk
  · refine foldl_byz_inv m (fun k => Signed m.h1 k ∧ Signed m.h2 k) (fun k a b => ⟨a, b⟩) _ ?_ (some []) ?_ l h
    · intro s hs
      have := List.mem_filter.mp hs
      exact ⟨this.1, by simpa using this.2⟩
    · intro l0 hl0 k hk; injection hl0 with hl0; subst hl0; cases hk

/-- amnesia (same state transition, different commit rounds): nobody can be identified -/
theorem amnesia_identifies_nobody (m : Misb) (h1 : conflicting m = false) (h2 : m.h1.round ≠ m.h2.round) :
    byzantine m = some [] := by
  rw [byzantine_eq]; simp [h1, h2]

theorem punishAll_vals (x : Consumer) (ds : SlashJail) (unb : List Unb) (now : Time)
    (ks : List Nat) (stk : List SVal) (effs : List Effect) (n : Nat) :
    ∀ f ∈ (punishAll x ds unb now ks stk effs n).1, f ∈ effs ∨ ∃ k ∈ ks, f.val = providerOf x k := by
  induction ks generalizing stk effs n with
  | nil => intro f hf; exact Or.inl hf
  | cons k ks ih =>
    intro f hf
    unfold punishAll at hf
    cases hp : punish stk unb now (providerOf x k) ds with
    | none =>
      simp only [hp] at hf
      rcases ih stk effs n f hf with h | ⟨k', hk', hv⟩
      · exact Or.inl h
      · exact Or.inr ⟨k', List.mem_cons_of_mem _ hk', hv⟩
    | some es =>
      simp only [hp] at hf
      rcases ih _ _ _ f hf with h | ⟨k', hk', hv⟩
      · rcases List.mem_append.mp h with h | h
        · exact Or.inl h
        · exact Or.inr ⟨k, List.mem_cons_self, punish_only_v _ _ _ _ _ _ hp f h⟩
      · exact Or.inr ⟨k', List.mem_cons_of_mem _ hk', hv⟩

theorem handleMisb_some (s : State) (unb : List Unb) (env : ClientEnv) (c : CId) (m : Misb) (effs : List Effect)
    (h : handleMisb s unb env c m = some effs) :
    misbBasicOK m = true ∧ checkMisb (s.get c) env m = true ∧
    ∃ byz ds, byzantine m = some byz ∧ (s.get c).infr.bind (·.ds) = some ds ∧
      effs = (punishAll (s.get c) ds unb s.now byz s.stk [] 0).1 ∧
      (punishAll (s.get c) ds unb s.now byz s.stk [] 0).2 ≠ 0 := by
  unfold handleMisb at h
  by_cases hb : misbBasicOK m = true
  · simp only [hb, Bool.not_true, Bool.false_eq_true, if_false] at h
    by_cases hc : checkMisb (s.get c) env m = true
    · simp only [hc, Bool.not_true, Bool.false_eq_true, if_false] at h
      cases hz : byzantine m with
      | none => simp [hz] at h
      | some byz =>
        simp only [hz] at h
        cases hds : (s.get c).infr.bind (·.ds) with
        | none => simp [hds] at h
        | some ds =>
          simp only [hds] at h
          by_cases hn : ((punishAll (s.get c) ds unb s.now byz s.stk [] 0).2 == 0) = true
          · simp [hn] at h
          · simp only [hn, Bool.false_eq_true, if_false, Option.some.injEq] at h
            exact ⟨hb, hc, byz, ds, rfl, rfl, h.symm, by simpa using hn⟩
    · simp [hc] at h
  · simp [hb] at h

/-- a light-client attack punishes EXACTLY validators owning (on that consumer) a key that genuinely
    signed both conflicting headers -/
theorem misb_punishes_only_double_signers (s : State) (unb : List Unb) (env : ClientEnv) (c : CId) (m : Misb)
    (effs : List Effect) (h : handleMisb s unb env c m = some effs) :
    ∀ f ∈ effs, ∃ k, Signed m.h1 k ∧ Signed m.h2 k ∧ f.val = providerOf (s.get c) k := by
  obtain ⟨_, _, byz, ds, hz, _, he, _⟩ := handleMisb_some s unb env c m effs h
  intro f hf
  rw [he] at hf
  rcases punishAll_vals _ _ _ _ _ _ _ _ f hf with h0 | ⟨k, hk, hv⟩
  · cases h0
  · exact ⟨k, (byzantine_sound m byz hz k hk).1, (byzantine_sound m byz hz k hk).2, hv⟩

/-- … and only when the evidence is valid for that consumer: its chain id, its client, one height not
    below the minimum evidence height, really different headers, a matching and unexpired trusted
    consensus state, both commits backed by more than 1/3 of the trusted power and 2/3 of their own -/
theorem misb_accepted_only_if (s : State) (unb : List Unb) (env : ClientEnv) (c : CId) (m : Misb)
    (effs : List Effect) (h : handleMisb s unb env c m = some effs) :
    m.h1.chain = (s.get c).chain ∧ (s.get c).client = some m.client ∧ m.h1.height = m.h2.height ∧
    (s.get c).evmin ≤ m.h1.height ∧ hashesDiffer m = true ∧
    env.trustedMatches = true ∧ env.expired = false ∧
    verifyTrusting m.h1 m.tvals env.clientChain = .ok ∧ verifyTrusting m.h2 m.tvals env.clientChain = .ok ∧
    verifyLight m.h1 m.h1.chain = .ok ∧ verifyLight m.h2 m.h2.chain = .ok ∧
    (conflicting m = true ∨ m.h1.round = m.h2.round) := by
  obtain ⟨hb, hc, byz, ds, hz, _, he, hn⟩ := handleMisb_some s unb env c m effs h
  simp only [checkMisb, Bool.and_eq_true, beq_iff_eq, decide_eq_true_eq, Bool.not_eq_true'] at hc
  simp only [misbBasicOK, Bool.and_eq_true, beq_iff_eq, decide_eq_true_eq] at hb
  obtain ⟨⟨⟨⟨⟨⟨⟨⟨⟨c1, c2⟩, c3⟩, c4⟩, c5⟩, _⟩, c7⟩, c8⟩, c9⟩, c10⟩ := hc
  refine ⟨c1, c2, c3, c4, c5, c7, c8, c9, c10, hb.1.2, hb.2, ?_⟩
  by_cases hcf : conflicting m = true
  · exact Or.inl hcf
  · right
    by_cases hr : m.h1.round = m.h2.round
    · exact hr
    · exfalso
      have := amnesia_identifies_nobody m (by simpa using hcf) hr
      rw [this] at hz; injection hz with hz; subst hz
      simp [punishAll] at hn


/-- three validators; 0 and 1 sign both conflicting headers, 2 signs only the first: 0 and 1 are
    punished (non-vacuity of the misbehaviour theorems; a test, not a theorem) -/
def exMisb : Misb :=
  { client := "07-tendermint-0",
    h1 := { chain := "c0-1", height := 7, round := 1, state := 1, data := 1, vals := [(1, 3), (2, 2), (40, 1)],
            sigs := [⟨1, .commit, true⟩, ⟨2, .commit, true⟩, ⟨40, .commit, true⟩] },
    h2 := { chain := "c0-1", height := 7, round := 1, state := 2, data := 1, vals := [(1, 3), (2, 2), (40, 1)],
            sigs := [⟨1, .commit, true⟩, ⟨2, .commit, true⟩, ⟨40, .absent, true⟩] },
    th := 5, tvals := [(1, 3), (2, 2), (40, 1)] }

example : byzantine exMisb = some [1, 2] := by decide
example : (handleMisb { exState with stk := exState.stk ++ [{ id := 40, tokens := 1, status := 3, jailed := false, lastPower := 1 }] } []
    { clientChain := "c0-1", trustedMatches := true, expired := false } "0" exMisb).map (·.map (·.val)) = some [1, 1, 1, 1, 2, 2, 2, 2] := by decide

end ICS.Props.C07
