/-
  C17 — Consumers, light clients and CCV channels are bound one to one.
-/
import ICS.Lemmas.Prov
import ICS.Model.Consumer
namespace ICS.Props.C17
open ICS ICS.Provider

/-- OnChanOpenTry is accepted only for an ordered channel on the provider port, from the consumer
    port, with the supported version, over exactly one connection whose tendermint client is the
    client recorded for a consumer that has no CCV channel yet -/
theorem try_accept_only_if (s : State) (ordered : Bool) (port cport ver : String) (hops : List String)
    (connOf : String → Option ConnInfo) (h : chanOpenTry s ordered port cport ver hops connOf = true) :
    ordered = true ∧ port = "provider" ∧ cport = "consumer" ∧ ver = "1" ∧
    ∃ hop ci c, hops = [hop] ∧ connOf hop = some ci ∧ ci.isTM = true ∧
      s.client2c.find? (·.1 == ci.client) = some (ci.client, c) ∧
      (s.get c).client = some ci.client ∧ (s.get c).channel = none := by
  unfold chanOpenTry at h
  simp only [Bool.and_eq_true, beq_iff_eq] at h
  obtain ⟨⟨⟨⟨h1, h2⟩, h3⟩, h4⟩, h5⟩ := h
  refine ⟨h1, h2, h3, h4, ?_⟩
  split at h5
  · rename_i hop
    split at h5
    · rename_i ci hci
      simp only [Bool.and_eq_true] at h5
      obtain ⟨htm, h6⟩ := h5
      split at h6
      · rename_i e he
        simp only [Bool.and_eq_true, beq_iff_eq] at h6
        have hk : e.1 = ci.client := by simpa using List.find?_some he
        refine ⟨hop, ci, e.2, rfl, hci, htm, ?_, h6.1, by simpa using h6.2⟩
        rw [he]; congr; exact Prod.ext hk rfl
      · cases h6
    · cases h5
  · cases h5

/-- the provider never initiates or acknowledges a CCV handshake itself -/
theorem init_rejected : chanOpenInit = false := rfl

/-- OnChanOpenConfirm binds the channel to the consumer recorded for the underlying client, and
    only if that consumer has no channel yet: the provider completes at most one handshake per
    consumer -/
theorem confirm_binds_once (s s' : State) (ch : String) (hops : Option (List String))
    (connOf : String → Option ConnInfo) (h : chanOpenConfirm s ch hops connOf = some s') :
    ∃ hop ci c, hops = some [hop] ∧ connOf hop = some ci ∧
      s.client2c.find? (·.1 == ci.client) = some (ci.client, c) ∧
      (s.get c).channel = none ∧ (s'.get c).channel = some ch := by
  unfold chanOpenConfirm at h
  split at h
  · rename_i hop
    split at h
    · rename_i ci hci
      split at h
      · cases h
      · split at h
        · rename_i e he
          simp only at h
          split at h
          · cases h
          · rename_i hnone
            simp only [Option.some.injEq] at h
            subst h
            have hk : e.1 = ci.client := by simpa using List.find?_some he
            refine ⟨hop, ci, e.2, rfl, hci, ?_, by simpa using hnone, ?_⟩
            · rw [he]; congr; exact Prod.ext hk rfl
            · have : ∀ (t : State) (q : List (String × CId)), State.get { t with chan2c := q } e.2 = t.get e.2 :=
                fun _ _ => rfl
              rw [this, get_set_upd s e.2 (fun x => { x with channel := some ch, initH := some s.height }) (fun _ => rfl)]
        · cases h
    · cases h
  · cases h

/-- a consumer cannot be launched on a named connection whose client is already bound to another
    consumer (the repaired behaviour, fix 1c8c4db) -/
theorem launch_rejects_bound_client (s : State) (c other : CId) (x : Consumer) (cid chain : String) (h : Nat)
    (hconn : x.conn ≠ "") (hb : (cid, other) ∈ s.client2c) (hne : other ≠ c) :
    launchBind s c x { connClient := some (cid, chain, h) } = none := by
  unfold launchBind
  have h0 : (x.conn == "") = false := by simp [hconn]
  have hany : s.client2c.any (fun e => e.1 == cid && e.2 != c) = true := by
    rw [List.any_eq_true]; exact ⟨(cid, other), hb, by simp [hne]⟩
  simp only [h0, Bool.false_eq_true, if_false, hany, if_true]
  split <;> rfl

/-- a launch is nothing but the validator-set part followed by the binding part -/
theorem launch_is_bind (s : State) (c : CId) (env : LaunchEnv) :
    launchConsumer s c env = none ∨ ∃ x, launchRecord s c env = some x ∧ launchConsumer s c env = launchBind s c x env := by
  unfold launchConsumer
  cases h : launchRecord s c env with
  | none => left; rfl
  | some x => right; exact ⟨x, rfl, rfl⟩

/-! ### non-vacuity -/
example :
    let s : State := { consumers := [{ id := "0", phase := .launched, client := some "07-tendermint-0" }],
                       client2c := [("07-tendermint-0", "0")] }
    let connOf := fun h => if h == "connection-0" then some ({ client := "07-tendermint-0", isTM := true } : ConnInfo) else none
    chanOpenTry s true "provider" "consumer" "1" ["connection-0"] connOf = true ∧
    chanOpenTry s false "provider" "consumer" "1" ["connection-0"] connOf = false ∧
    chanOpenTry s true "provider" "consumer" "1" ["connection-0", "connection-0"] connOf = false ∧
    ((chanOpenConfirm s "channel-1" (some ["connection-0"]) connOf).bind fun s1 =>
      chanOpenConfirm s1 "channel-2" (some ["connection-0"]) connOf).isNone := by decide

/-! ### consumer side -/

/-- a consumer opens CCV channels only over its recorded provider client: ordered, consumer → provider
    ports, supported version (blank = default), one hop, and only while no provider channel is set -/
theorem cons_init_accept_only_if (s : ICS.Consumer.State) (ordered : Bool) (port cport ver : String) (hops : List String)
    (connClient : String → Option String) (pc : Option String)
    (h : ICS.Consumer.chanOpenInit s ordered port cport ver hops connClient pc = true) :
    s.pchan = none ∧ ordered = true ∧ port = "consumer" ∧ cport = "provider" ∧
    (ver = "1" ∨ ICS.Consumer.blank ver = true) ∧
    ∃ hop cl, hops = [hop] ∧ connClient hop = some cl ∧ pc = some cl := by
  unfold ICS.Consumer.chanOpenInit at h
  simp only [Bool.and_eq_true, beq_iff_eq] at h
  obtain ⟨⟨⟨⟨⟨h1, h2⟩, h3⟩, h4⟩, h5⟩, h6⟩ := h
  refine ⟨by cases hp : s.pchan <;> simp [hp] at h1 ⊢, h2, h3, h5, ?_, ?_⟩
  · by_cases hb : ICS.Consumer.blank ver = true
    · exact Or.inr hb
    · left; simp only [hb] at h4; simpa using h4
  · match hops, h6 with
    | [hop], h6 =>
      simp only at h6
      cases hc : connClient hop with
      | none => simp [hc] at h6
      | some cl =>
        cases hpc : pc with
        | none => simp [hc, hpc] at h6
        | some p =>
          simp only [hc, hpc, beq_iff_eq] at h6
          exact ⟨hop, cl, rfl, hc, by rw [h6]⟩

/-- … and never accepts a handshake started by the other side -/
theorem cons_try_confirm_rejected : ICS.Consumer.chanOpenTry = false ∧ ICS.Consumer.chanOpenConfirm = false := ⟨rfl, rfl⟩

/-- once a provider channel is established no further CCV channel is opened or acknowledged -/
theorem cons_no_second_channel (s : ICS.Consumer.State) (pc : String) (hs : s.pchan = some pc)
    (ordered : Bool) (port cport ver : String) (hops : List String) (cc : String → Option String) (p : Option String)
    (md : Option String) :
    ICS.Consumer.chanOpenInit s ordered port cport ver hops cc p = false ∧ ICS.Consumer.chanOpenAck s md = false := by
  simp [ICS.Consumer.chanOpenInit, ICS.Consumer.chanOpenAck, hs]

/-- the provider channel is the one on which the first VSC packet arrives, and it never changes:
    a VSC packet on any other channel is not accepted -/
theorem cons_adopts_first_channel (rank : Nat → Nat) (s : ICS.Consumer.State) (chan : String) (id : Nat)
    (ups : List ValSet.Update) (acks : List Nat) (hid : id ≠ 0) :
    (s.pchan = none → (ICS.Consumer.onRecvVSC rank s chan id (some ups) acks).1.pchan = some chan) ∧
    (∀ pc, s.pchan = some pc → pc ≠ chan → (ICS.Consumer.onRecvVSC rank s chan id (some ups) acks).2 = ICS.Consumer.RecvResult.panic) ∧
    (∀ pc, s.pchan = some pc → (ICS.Consumer.onRecvVSC rank s chan id (some ups) acks).1.pchan = some pc) := by
  have hid' : (id == 0) = false := by simpa using hid
  refine ⟨?_, ?_, ?_⟩
  · intro h; simp [ICS.Consumer.onRecvVSC, hid', h]
  · intro pc h hne; simp [ICS.Consumer.onRecvVSC, hid', h, hne]
  · intro pc h
    by_cases hc : pc = chan
    · subst hc; simp [ICS.Consumer.onRecvVSC, hid', h]
    · simp [ICS.Consumer.onRecvVSC, hid', h, hc]

end ICS.Props.C17
