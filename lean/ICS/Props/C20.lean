/-
  C20 — Infraction parameters in force are used; changes are delayed by unbonding.
-/
import ICS.Lemmas.Prov
import ICS.Props.C10
namespace ICS.Props.C20
open ICS ICS.Provider ICS.Spec.Prov ICS.Props.C10

theorem clearQueued_get (s : State) (c : CId) : (clearQueued s c).get c = { s.get c with qinfr := none } := by
  unfold clearQueued
  have hset : ∀ (t : State) (q : TimeQueue), State.get { t with infrQ := q } c = t.get c := fun _ _ => rfl
  rw [hset]
  exact get_set_upd s c (fun x => { x with qinfr := none }) (fun _ => rfl)

/-- a request equal to the current parameters leaves nothing pending (it cancels a pending one) -/
theorem cancel_when_equal (s : State) (c : CId) (new : Infr) (h : (s.get c).infr = some new) :
    ((updateQueuedInfr s c new).get c).qinfr = none := by
  unfold updateQueuedInfr
  simp only [clearQueued_get, h, beq_self_eq_true, if_true]

/-- a differing request becomes THE pending change (replacing any earlier one); the parameters in
    force are untouched -/
theorem queue_when_different (s : State) (c : CId) (new : Infr) (h : (s.get c).infr ≠ some new) :
    ((updateQueuedInfr s c new).get c).qinfr = some new ∧
    ((updateQueuedInfr s c new).get c).infr = (s.get c).infr := by
  unfold updateQueuedInfr
  have hne : ((s.get c).infr == some new) = false := by simp [h]
  simp only [clearQueued_get, hne, Bool.false_eq_true, if_false]
  have hset : ∀ (t : State) (q : TimeQueue), State.get { t with infrQ := q } c = t.get c := fun _ _ => rfl
  have hh := get_set_id (clearQueued s c) { s.get c with qinfr := some new } c (get_id s c)
  rw [hset, hh]
  exact ⟨rfl, rfl⟩

/-- the new entry is due exactly one unbonding period after the request -/
theorem queued_due_time (s : State) (c : CId) (new : Infr) (h : (s.get c).infr ≠ some new) :
    (updateQueuedInfr s c new).infrQ =
      tqAppend (clearQueued s c).infrQ (s.now + s.unbonding) c := by
  unfold updateQueuedInfr
  have hne : ((s.get c).infr == some new) = false := by simp [h]
  simp only [clearQueued_get, hne, Bool.false_eq_true, if_false]
  have h1 : (clearQueued s c).now = s.now := by unfold clearQueued State.set; split <;> rfl
  have h2 : (clearQueued s c).unbonding = s.unbonding := by unfold clearQueued State.set; split <;> rfl
  simp [h1, h2]

/-- BeginBlock applies a due pending change exactly once: afterwards it is in force and nothing
    is pending -/
theorem apply_pending (x : Consumer) (q : Infr) (s : State) (c : CId) (hx : s.get c = x) (hq : x.qinfr = some q) :
    let s' := (match (s.get c).qinfr with
               | some q => s.set { s.get c with infr := some q, qinfr := none }
               | none => s)
    (s'.get c).infr = some q ∧ (s'.get c).qinfr = none := by
  simp only [hx, hq]
  have := get_set_upd s c (fun y => { y with infr := some q, qinfr := none }) (fun _ => rfl)
  rw [hx] at this
  rw [this]
  exact ⟨rfl, rfl⟩

/-- only consumers whose due time has been reached are switched (at most 200 per block) -/
theorem switch_only_when_due (s : State) :
    (∀ c ∈ (tqConsume s.infrQ s.now 200).1, ∃ e ∈ s.infrQ, e.1 ≤ s.now ∧ c ∈ e.2) ∧
    (tqConsume s.infrQ s.now 200).1.length ≤ 200 :=
  ⟨tqConsume_due _ _ _, tqConsume_limit _ _ _⟩

/-! ### non-vacuity -/
example :
    let p1 : Infr := { ds := none, dt := some { frac := "0.1", jail := 5, tomb := false } }
    let p2 : Infr := { ds := none, dt := some { frac := "0.2", jail := 5, tomb := false } }
    let s : State := { consumers := [{ id := "0", phase := .launched, infr := some p1 }], now := 100, unbonding := 50 }
    let s1 := updateQueuedInfr s "0" p2
    (s1.get "0").qinfr = some p2 ∧ s1.infrQ = [(150, ["0"])] ∧
    ((updateQueuedInfr s1 "0" p1).get "0").qinfr = none ∧ (updateQueuedInfr s1 "0" p1).infrQ = [] ∧
    ((beginBlockInfraction { s1 with now := 149 }).get "0").infr = some p1 ∧
    ((beginBlockInfraction { s1 with now := 150 }).get "0").infr = some p2 := by decide

/-! ### a pending change is in the schedule exactly once, and only while it is pending -/

theorem countIn_cons' (e : Time × List CId) (q : TimeQueue) (c : CId) :
    countIn (e :: q) c = e.2.count c + countIn q c := by
  rw [countIn_cons, filter_len_eq_count]

theorem dropFromQueue_cons (e : Time × List CId) (q : TimeQueue) (c : CId) :
    dropFromQueue (e :: q) c =
      if (e.2.erase c).isEmpty then dropFromQueue q c else (e.1, e.2.erase c) :: dropFromQueue q c := by
  unfold dropFromQueue
  rw [List.filterMap_cons]
  by_cases h : (e.2.erase c).isEmpty = true <;> simp [h]

/-- dropping `c` from every entry: other consumers keep their entries -/
theorem countIn_drop_other (q : TimeQueue) (c c' : CId) (h : c' ≠ c) :
    countIn (dropFromQueue q c) c' = countIn q c' := by
  induction q with
  | nil => rfl
  | cons e q ih =>
    rw [dropFromQueue_cons, countIn_cons']
    have h2 := List.count_erase_of_ne h (l := e.2)
    split
    · rename_i hem
      have : e.2.erase c = [] := by simpa using hem
      rw [this] at h2
      simp only [List.count_nil] at h2
      rw [ih]; omega
    · rw [countIn_cons', ih]; simp only []; omega

theorem countIn_drop_self_le (q : TimeQueue) (c : CId) : countIn (dropFromQueue q c) c ≤ countIn q c := by
  induction q with
  | nil => exact Nat.le_refl _
  | cons e q ih =>
    rw [dropFromQueue_cons, countIn_cons']
    split
    · omega
    · rw [countIn_cons']; simp only []
      have := List.count_erase_self (a := c) (l := e.2)
      omega

/-- a consumer that is scheduled exactly once is not scheduled at all after the drop -/
theorem countIn_drop_self_one (q : TimeQueue) (c : CId) (h : countIn q c = 1) : countIn (dropFromQueue q c) c = 0 := by
  induction q with
  | nil => simp [countIn_nil] at h
  | cons e q ih =>
    rw [countIn_cons'] at h
    rw [dropFromQueue_cons]
    have hle := countIn_drop_self_le q c
    have hes := List.count_erase_self (a := c) (l := e.2)
    by_cases he : e.2.count c = 0
    · have hq : countIn q c = 1 := by omega
      split
      · exact ih hq
      · rw [countIn_cons']; simp only []; rw [ih hq]; omega
    · have hq : countIn q c = 0 := by omega
      split
      · omega
      · rw [countIn_cons']; simp only []; omega

theorem sortedQ_drop (q : TimeQueue) (c : CId) (hs : sortedQ q = true) : sortedQ (dropFromQueue q c) = true := by
  induction q with
  | nil => rfl
  | cons e q ih =>
    obtain ⟨hlt, hsq⟩ := sortedQ_cons e q hs
    rw [dropFromQueue_cons]
    split
    · exact ih hsq
    · simp only [sortedQ, Bool.and_eq_true, List.all_eq_true, decide_eq_true_eq]
      refine ⟨?_, ih hsq⟩
      intro f hf
      -- every entry of the dropped queue carries the time of an entry of q
      have : ∃ f0 ∈ q, f0.1 = f.1 := by
        unfold dropFromQueue at hf
        rcases List.mem_filterMap.mp hf with ⟨f0, hf0, hff⟩
        simp only [] at hff
        split at hff
        · cases hff
        · injection hff with hff; exact ⟨f0, hf0, by rw [← hff]⟩
      rcases this with ⟨f0, hf0, hft⟩
      rw [← hft]; exact hlt f0 hf0

/-- the consumer's pending change is scheduled exactly once, and only while one is pending -/
def QueuedOnce (s : State) (c : CId) : Prop :=
  countIn s.infrQ c = if (s.get c).qinfr.isSome then 1 else 0

theorem clearQueued_count (s : State) (c : CId) (h : QueuedOnce s c) :
    countIn (clearQueued s c).infrQ c = 0 ∧ ∀ c', c' ≠ c → countIn (clearQueued s c).infrQ c' = countIn s.infrQ c' := by
  unfold QueuedOnce at h
  have hq : (clearQueued s c).infrQ = if (s.get c).qinfr.isSome then dropFromQueue s.infrQ c else s.infrQ := rfl
  rw [hq]
  by_cases hsome : (s.get c).qinfr.isSome = true
  · simp only [hsome, if_true] at h ⊢
    exact ⟨countIn_drop_self_one _ _ h, fun c' hc' => countIn_drop_other _ _ _ hc'⟩
  · simp only [hsome, Bool.false_eq_true, if_false] at h ⊢
    exact ⟨h, fun _ _ => trivial⟩

theorem clearQueued_sorted (s : State) (c : CId) (hs : sortedQ s.infrQ = true) : sortedQ (clearQueued s c).infrQ = true := by
  have hq : (clearQueued s c).infrQ = if (s.get c).qinfr.isSome then dropFromQueue s.infrQ c else s.infrQ := rfl
  rw [hq]; split
  · exact sortedQ_drop _ _ hs
  · exact hs

/-- EXACTLY ONCE: whatever was pending before, after a request the consumer is in the schedule once
    if a change is now pending and not at all if the request cancelled it; every other consumer's
    entries are untouched -/
theorem request_scheduled_once (s : State) (c : CId) (new : Infr) (hs : sortedQ s.infrQ = true) (h : QueuedOnce s c) :
    QueuedOnce (updateQueuedInfr s c new) c ∧
    ∀ c', c' ≠ c → countIn (updateQueuedInfr s c new).infrQ c' = countIn s.infrQ c' := by
  obtain ⟨h0, hoth⟩ := clearQueued_count s c h
  have hsort := clearQueued_sorted s c hs
  by_cases heq : (s.get c).infr = some new
  · -- cancelled
    have hc := cancel_when_equal s c new heq
    have hstate : updateQueuedInfr s c new = clearQueued s c := by
      unfold updateQueuedInfr; simp only [clearQueued_get, heq, beq_self_eq_true, if_true]
    refine ⟨?_, fun c' hc' => by rw [hstate]; exact hoth c' hc'⟩
    unfold QueuedOnce
    rw [hc]; rw [hstate]; simpa using h0
  · have hq := (queue_when_different s c new heq).1
    have hQ := queued_due_time s c new heq
    refine ⟨?_, ?_⟩
    · unfold QueuedOnce
      rw [hq, hQ, countIn_tqAppend _ _ _ _ hsort, h0]; simp
    · intro c' hc'
      rw [hQ, countIn_tqAppend _ _ _ _ hsort, hoth c' hc']; simp [hc']

/-! ### BeginBlock and the schedule -/

theorem set_infrQ (s : State) (x : Consumer) : (s.set x).infrQ = s.infrQ := by
  unfold State.set; split <;> rfl

theorem switchLoop_infrQ (ids : List CId) (s : State) :
    (ids.foldl (fun s c =>
      let x := s.get c
      match x.qinfr with
      | some q => s.set { x with infr := some q, qinfr := none }
      | none => s) s).infrQ = s.infrQ := by
  induction ids generalizing s with
  | nil => rfl
  | cons c rest ih =>
    simp only [List.foldl_cons]
    rw [ih]
    cases hq : (s.get c).qinfr with
    | none => rfl
    | some q => exact set_infrQ _ _

/-- applying the due changes never touches the schedule: after BeginBlock it is exactly what the
    consumption left -/
theorem beginBlockInfraction_infrQ (s : State) :
    (beginBlockInfraction s).infrQ = (tqConsume s.infrQ s.now 200).2 := by
  unfold beginBlockInfraction
  exact switchLoop_infrQ _ _

/-- per consumer: changes applied in this block plus changes still scheduled are the changes that
    were scheduled — a queued change is applied once or still waits, never both and never neither -/
theorem switch_counts_conserved (s : State) (c : CId) :
    ((tqConsume s.infrQ s.now 200).1.filter (· == c)).length + countIn (beginBlockInfraction s).infrQ c
      = countIn s.infrQ c := by
  rw [beginBlockInfraction_infrQ]
  have h := congrArg (fun l => (l.filter (· == c)).length) (tqConsume_conserves s.infrQ s.now 200)
  simp only [List.filter_append, List.length_append] at h
  exact h

/-- one iteration of BeginBlockUpdateInfractionParameters -/
def swStep (s : State) (c : CId) : State :=
  match (s.get c).qinfr with
  | some q => s.set { s.get c with infr := some q, qinfr := none }
  | none => s

theorem beginBlockInfraction_eq (s : State) :
    beginBlockInfraction s =
      (tqConsume s.infrQ s.now 200).1.foldl swStep { s with infrQ := (tqConsume s.infrQ s.now 200).2 } := rfl

theorem swStep_other (s : State) (c c' : CId) (h : c' ≠ c) : (swStep s c).get c' = s.get c' := by
  unfold swStep
  cases hq : (s.get c).qinfr with
  | none => rfl
  | some q =>
    exact get_set_upd_other s c c' (fun x => { x with infr := some q, qinfr := none }) (fun _ => rfl) h

theorem swStep_self (s : State) (c : CId) : ((swStep s c).get c).qinfr = none := by
  unfold swStep
  cases hq : (s.get c).qinfr with
  | none => exact hq
  | some q =>
    show ((s.set ((fun x : Consumer => { x with infr := some q, qinfr := none }) (s.get c))).get c).qinfr = none
    rw [get_set_upd s c (fun x => { x with infr := some q, qinfr := none }) (fun _ => rfl)]

theorem swStep_none_stable (s : State) (c c' : CId) (h : (s.get c').qinfr = none) :
    ((swStep s c).get c').qinfr = none := by
  by_cases hc : c' = c
  · subst hc; exact swStep_self s c'
  · rw [swStep_other s c c' hc]; exact h

theorem swLoop_not_mem (ids : List CId) (s : State) (c : CId) (h : ¬ c ∈ ids) :
    (ids.foldl swStep s).get c = s.get c := by
  induction ids generalizing s with
  | nil => rfl
  | cons d rest ih =>
    simp only [List.foldl_cons]
    rw [ih _ (fun hm => h (List.mem_cons_of_mem _ hm))]
    exact swStep_other s d c (fun e => h (by rw [e]; exact List.mem_cons_self))

theorem swLoop_none_stable (ids : List CId) (s : State) (c : CId) (h : (s.get c).qinfr = none) :
    ((ids.foldl swStep s).get c).qinfr = none := by
  induction ids generalizing s with
  | nil => exact h
  | cons d rest ih =>
    simp only [List.foldl_cons]
    exact ih _ (swStep_none_stable s d c h)

theorem swLoop_mem (ids : List CId) (s : State) (c : CId) (h : c ∈ ids) :
    ((ids.foldl swStep s).get c).qinfr = none := by
  induction ids generalizing s with
  | nil => cases h
  | cons d rest ih =>
    simp only [List.foldl_cons]
    rcases List.mem_cons.mp h with rfl | hm
    · exact swLoop_none_stable rest _ c (swStep_self s c)
    · exact ih _ hm

/-- "scheduled exactly once, and only while a change is pending" survives BeginBlock: a change that
    is applied leaves the schedule and stops being pending; one that is not due stays both -/
theorem beginBlock_keeps_queuedOnce (s : State) (c : CId) (h : QueuedOnce s c) :
    QueuedOnce (beginBlockInfraction s) c := by
  have hcons := switch_counts_conserved s c
  unfold QueuedOnce at h ⊢
  rw [beginBlockInfraction_infrQ] at hcons ⊢
  rw [beginBlockInfraction_eq]
  by_cases hm : c ∈ (tqConsume s.infrQ s.now 200).1
  · have hpos : 0 < ((tqConsume s.infrQ s.now 200).1.filter (· == c)).length := by
      apply List.length_pos_of_mem (a := c)
      exact List.mem_filter.mpr ⟨hm, by simp⟩
    rw [swLoop_mem _ _ c hm]
    have : countIn s.infrQ c ≤ 1 := by rw [h]; split <;> omega
    simp only [Option.isSome_none, Bool.false_eq_true, if_false]
    omega
  · have hzero : ((tqConsume s.infrQ s.now 200).1.filter (· == c)).length = 0 := by
      rw [List.length_eq_zero_iff, List.filter_eq_nil_iff]
      intro a ha hac
      have : a = c := by simpa using hac
      exact hm (this ▸ ha)
    rw [swLoop_not_mem _ _ c hm]
    have hg : ({ s with infrQ := (tqConsume s.infrQ s.now 200).2 } : State).get c = s.get c := rfl
    rw [hg, ← h]
    omega

end ICS.Props.C20
