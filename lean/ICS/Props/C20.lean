/-
  C20 — Infraction parameters in force are used; changes are delayed by unbonding.
-/
import ICS.Lemmas.Prov
namespace ICS.Props.C20
open ICS ICS.Provider

theorem clearQueued_get (s : State) (c : CId) : (clearQueued s c).get c = { s.get c with qinfr := none } := by
  unfold clearQueued
  have hset : ∀ (t : State) (q : TimeQueue), State.get { t with infrQ := q } c = t.get c := fun _ _ => rfl
  rw [hset]
  exact get_set_upd s c (fun x => { x with qinfr := none }) (fun _ => rfl)

/-- a request equal to the current parameters leaves nothing pending (it cancels a pending one) -/
theorem cancel_when_equal (s : State) (c : CId) (new : Infr) (h : (s.get c).infr = some new) :
    ((updateQueuedInfr s c new).get c).qinfr = none := by
  unfold updateQueuedInfr
  simp only [clearQueued_get, h, beq_self_eq_true, if_true]

/-- a differing request becomes THE pending change (replacing any earlier one); the parameters in
    force are untouched -/
theorem queue_when_different (s : State) (c : CId) (new : Infr) (h : (s.get c).infr ≠ some new) :
    ((updateQueuedInfr s c new).get c).qinfr = some new ∧
    ((updateQueuedInfr s c new).get c).infr = (s.get c).infr := by
  unfold updateQueuedInfr
  have hne : ((s.get c).infr == some new) = false := by simp [h]
  simp only [clearQueued_get, hne, Bool.false_eq_true, if_false]
  have hset : ∀ (t : State) (q : TimeQueue), State.get { t with infrQ := q } c = t.get c := fun _ _ => rfl
  have hh := get_set_id (clearQueued s c) { s.get c with qinfr := some new } c (get_id s c)
  rw [hset, hh]
  exact ⟨rfl, rfl⟩

/-- the new entry is due exactly one unbonding period after the request -/
theorem queued_due_time (s : State) (c : CId) (new : Infr) (h : (s.get c).infr ≠ some new) :
    (updateQueuedInfr s c new).infrQ =
      tqAppend (clearQueued s c).infrQ (s.now + s.unbonding) c := by
  unfold updateQueuedInfr
  have hne : ((s.get c).infr == some new) = false := by simp [h]
  simp only [clearQueued_get, hne, Bool.false_eq_true, if_false]
  have h1 : (clearQueued s c).now = s.now := by unfold clearQueued State.set; split <;> rfl
  have h2 : (clearQueued s c).unbonding = s.unbonding := by unfold clearQueued State.set; split <;> rfl
  simp [h1, h2]

/-- BeginBlock applies a due pending change exactly once: afterwards it is in force and nothing
    is pending -/
theorem apply_pending (x : Consumer) (q : Infr) (s : State) (c : CId) (hx : s.get c = x) (hq : x.qinfr = some q) :
    let s' := (match (s.get c).qinfr with
               | some q => s.set { s.get c with infr := some q, qinfr := none }
               | none => s)
    (s'.get c).infr = some q ∧ (s'.get c).qinfr = none := by
  simp only [hx, hq]
  have := get_set_upd s c (fun y => { y with infr := some q, qinfr := none }) (fun _ => rfl)
  rw [hx] at this
  rw [this]
  exact ⟨rfl, rfl⟩

/-- only consumers whose due time has been reached are switched (at most 200 per block) -/
theorem switch_only_when_due (s : State) :
    (∀ c ∈ (tqConsume s.infrQ s.now 200).1, ∃ e ∈ s.infrQ, e.1 ≤ s.now ∧ c ∈ e.2) ∧
    (tqConsume s.infrQ s.now 200).1.length ≤ 200 :=
  ⟨tqConsume_due _ _ _, tqConsume_limit _ _ _⟩

/-! ### non-vacuity -/
example :
    let p1 : Infr := { ds := none, dt := some { frac := "0.1", jail := 5, tomb := false } }
    let p2 : Infr := { ds := none, dt := some { frac := "0.2", jail := 5, tomb := false } }
    let s : State := { consumers := [{ id := "0", phase := .launched, infr := some p1 }], now := 100, unbonding := 50 }
    let s1 := updateQueuedInfr s "0" p2
    (s1.get "0").qinfr = some p2 ∧ s1.infrQ = [(150, ["0"])] ∧
    ((updateQueuedInfr s1 "0" p1).get "0").qinfr = none ∧ (updateQueuedInfr s1 "0" p1).infrQ = [] ∧
    ((beginBlockInfraction { s1 with now := 149 }).get "0").infr = some p1 ∧
    ((beginBlockInfraction { s1 with now := 150 }).get "0").infr = some p2 := by decide

end ICS.Props.C20
