/-
  C16 — rewards are conserved and reach only eligible validators (provider side: crediting by the
  transfer middleware, AllocateTokens / AllocateConsumerRewards / AllocateTokensToConsumerValidators).

  All amounts of credits and validator payouts are 10^18-scaled naturals (`one`), exactly the
  integer the SDK's LegacyDec stores; the model's arithmetic is therefore the implementation's
  arithmetic, not an idealisation of it (checked per step by the correspondence stream `rewards`).
-/
import ICS.Model.Rewards
import ICS.Spec.C16
namespace ICS.Props.C16
open ICS ICS.Rewards ICS.Epoch

theorem one_pos : 0 < one := by unfold one; decide

/-! ### one (consumer, denom) step: AllocateConsumerRewards -/

/-- the credit is split EXACTLY into what goes to the distribution module, what goes to the
    community pool and what stays credited: nothing is created or lost -/
theorem step_conserves_credit (credit tax : Nat) (vals : List CVal) (h e : Nat) :
    let p := allocateConsumerRewards credit tax vals h e
    p.toDistr * one + p.toCP * one + p.left = credit := by
  simp only [allocateConsumerRewards]
  split
  · simp only []
    have := Nat.div_add_mod credit one
    rw [Nat.mul_comm] at this; omega
  · simp only [mulTrunc]
    have hle : credit * (one - tax) / one ≤ credit := by
      apply Nat.div_le_of_le_mul
      rw [Nat.mul_comm]
      exact Nat.mul_le_mul_right _ (Nat.sub_le _ _)
    have h1 := Nat.div_add_mod (credit * (one - tax) / one) one
    have h2 := Nat.div_add_mod (credit - credit * (one - tax) / one) one
    rw [Nat.mul_comm] at h1 h2
    omega

/-- what stays credited is less than two tokens (rounding remainders only) -/
theorem step_left_small (credit tax : Nat) (vals : List CVal) (h e : Nat) :
    (allocateConsumerRewards credit tax vals h e).left < 2 * one := by
  have := one_pos
  simp only [allocateConsumerRewards]
  split
  · simp only []; have := Nat.mod_lt credit one_pos; omega
  · simp only []
    have a := Nat.mod_lt (mulTrunc credit (one - tax)) one_pos
    have b := Nat.mod_lt (credit - mulTrunc credit (one - tax)) one_pos
    omega

theorem sum_div_mul_le {α} (l : List α) (g : α → Nat) (k : Nat) :
    (l.map (fun x => g x / k)).sum * k ≤ (l.map g).sum := by
  induction l with
  | nil => simp
  | cons x xs ih =>
    simp only [List.map_cons, List.sum_cons, Nat.add_mul]
    have := Nat.div_mul_le_self (g x) k
    omega

theorem sum_mul_left {α} (l : List α) (g : α → Nat) (k : Nat) :
    (l.map (fun x => k * g x)).sum = k * (l.map g).sum := by
  induction l with
  | nil => simp
  | cons x xs ih => simp only [List.map_cons, List.sum_cons, ih, Nat.mul_add]

theorem sum_mul_right {α} (l : List α) (g : α → Nat) (k : Nat) :
    (l.map (fun x => g x * k)).sum = (l.map g).sum * k := by
  induction l with
  | nil => simp
  | cons x xs ih => simp only [List.map_cons, List.sum_cons, ih, Nat.add_mul]

/-- the power fractions (each truncated) never add up to more than one -/
theorem fractions_le_one (l : List CVal) (htot : 0 < (l.map (·.power)).sum) :
    (l.map fun c => quoTruncInt c.power (l.map (·.power)).sum).sum ≤ one := by
  have h := sum_div_mul_le l (fun c => c.power * one) (l.map (·.power)).sum
  rw [sum_mul_right] at h
  simp only [quoTruncInt]
  exact Nat.le_of_mul_le_mul_right (by rw [Nat.mul_comm one]; exact h) htot

/-- the payouts of one step, as a function of the eligible validators -/
def payAmounts (elig : List CVal) (vT total : Nat) : List Nat :=
  elig.map fun c => mulTrunc (vT * one) (quoTruncInt c.power total)

theorem payAmounts_le (elig : List CVal) (vT : Nat) (htot : 0 < (elig.map (·.power)).sum) :
    (payAmounts elig vT (elig.map (·.power)).sum).sum ≤ vT * one := by
  have h := sum_div_mul_le elig (fun c => vT * one * quoTruncInt c.power (elig.map (·.power)).sum) one
  rw [sum_mul_left] at h
  have hf := fractions_le_one elig htot
  have : (payAmounts elig vT (elig.map (·.power)).sum).sum * one ≤ vT * one * one := by
    simp only [payAmounts, mulTrunc]
    exact Nat.le_trans h (Nat.mul_le_mul_left _ hf)
  exact Nat.le_of_mul_le_mul_right this one_pos

theorem pays_eq (credit tax : Nat) (vals : List CVal) (h e : Nat) :
    let elig := vals.filter fun c => eligible h c.join e
    ((allocateConsumerRewards credit tax vals h e).pays.map (·.amount)) =
      if (elig.map (·.power)).sum == 0 then []
      else if mulTrunc credit (one - tax) / one == 0 then []
      else payAmounts elig (mulTrunc credit (one - tax) / one) (elig.map (·.power)).sum := by
  simp only [allocateConsumerRewards]
  split
  · simp
  · simp only []
    split
    · simp
    · simp [payAmounts, List.map_map, Function.comp_def]

/-- NEVER OVERPAID: the validators of a step together receive at most what was moved to the
    distribution module for them -/
theorem step_never_overpays (credit tax : Nat) (vals : List CVal) (h e : Nat) :
    let p := allocateConsumerRewards credit tax vals h e
    (p.pays.map (·.amount)).sum ≤ p.toDistr * one := by
  intro p
  have hp := pays_eq credit tax vals h e
  simp only [] at hp
  show ((allocateConsumerRewards credit tax vals h e).pays.map (·.amount)).sum ≤ _
  rw [hp]
  split
  · simp
  · rename_i hz
    split
    · simp
    · have htot : 0 < ((vals.filter fun c => eligible h c.join e).map (·.power)).sum := by
        apply Nat.pos_of_ne_zero; intro h0; simp [h0] at hz
      have : p.toDistr = mulTrunc credit (one - tax) / one := by
        simp only [p, allocateConsumerRewards]
        split
        · rename_i h1; exact absurd h1 hz
        · rfl
      rw [this]
      exact payAmounts_le _ _ htot

/-- ONLY ELIGIBLE MEMBERS: every payout of a step goes to a validator that is in the consumer's
    current validator set and has been for the required number of blocks -/
theorem step_pays_only_eligible (credit tax : Nat) (vals : List CVal) (h e : Nat) :
    ∀ pay ∈ (allocateConsumerRewards credit tax vals h e).pays,
      ∃ c ∈ vals, c.v = pay.v ∧ eligible h c.join e = true := by
  intro pay hpay
  simp only [allocateConsumerRewards] at hpay
  split at hpay
  · simp at hpay
  · simp only [] at hpay
    split at hpay
    · simp at hpay
    · rcases List.mem_map.mp hpay with ⟨c, hc, rfl⟩
      rcases List.mem_filter.mp hc with ⟨hm, he⟩
      exact ⟨c, hm, rfl, he⟩

/-- … and every eligible member is paid (when at least one token reaches the validators) -/
theorem step_pays_every_eligible (credit tax : Nat) (vals : List CVal) (h e : Nat) (c : CVal)
    (hc : c ∈ vals) (he : eligible h c.join e = true) (hpow : 0 < c.power)
    (hv : 0 < mulTrunc credit (one - tax) / one) :
    ∃ pay ∈ (allocateConsumerRewards credit tax vals h e).pays, pay.v = c.v := by
  have hmem : c ∈ vals.filter fun c => eligible h c.join e := List.mem_filter.mpr ⟨hc, he⟩
  have htot : ((vals.filter fun c => eligible h c.join e).map (·.power)).sum ≠ 0 := by
    intro h0
    have := (List.sum_eq_zero_iff_forall_eq_nat.mp h0) c.power (List.mem_map.mpr ⟨c, hmem, rfl⟩)
    omega
  simp only [allocateConsumerRewards]
  split
  · rename_i h1; simp at h1; exact absurd h1 htot
  · simp only []
    split
    · rename_i h2; have := eq_of_beq h2; omega
    · exact ⟨_, List.mem_map.mpr ⟨c, hmem, rfl⟩, rfl⟩

/-- PROPORTIONAL: within one step a validator with at least the consumer voting power of another
    receives at least as much -/
theorem pay_monotone_in_power (vT total p q : Nat) (h : p ≤ q) :
    mulTrunc (vT * one) (quoTruncInt p total) ≤ mulTrunc (vT * one) (quoTruncInt q total) := by
  simp only [mulTrunc, quoTruncInt]
  apply Nat.div_le_div_right
  apply Nat.mul_le_mul_left
  apply Nat.div_le_div_right
  exact Nat.mul_le_mul_right _ h

/-- a validator's payout never exceeds its exact proportional share power/total of the tokens -/
theorem pay_le_share (vT total p : Nat) :
    mulTrunc (vT * one) (quoTruncInt p total) * total ≤ vT * one * p := by
  simp only [mulTrunc, quoTruncInt]
  have h1 : vT * one * (p * one / total) / one * one ≤ vT * one * (p * one / total) := Nat.div_mul_le_self _ _
  have h2 : p * one / total * total ≤ p * one := Nat.div_mul_le_self _ _
  have h3 : vT * one * (p * one / total) * total ≤ vT * one * (p * one) := by
    rw [Nat.mul_assoc]; exact Nat.mul_le_mul_left _ h2
  have h4 : vT * one * (p * one / total) / one * one * total ≤ vT * one * p * one := by
    calc _ ≤ vT * one * (p * one / total) * total := Nat.mul_le_mul_right _ h1
      _ ≤ vT * one * (p * one) := h3
      _ = vT * one * p * one := by rw [Nat.mul_assoc (vT * one) p one]
  have h5 : vT * one * (p * one / total) / one * total * one ≤ vT * one * p * one := by
    rw [Nat.mul_right_comm]; exact h4
  exact Nat.le_of_mul_le_mul_right h5 one_pos

/-! ### rounding dust: nothing moved to the distribution module is left dangling, except less than
    (tokens + 1) · 10⁻¹⁸ per paid validator -/

theorem sum_succ_div_ge {α} (l : List α) (g : α → Nat) (k : Nat) (hk : 0 < k) :
    (l.map g).sum ≤ ((l.map (fun x => g x / k)).sum + l.length) * k := by
  induction l with
  | nil => simp
  | cons x xs ih =>
    simp only [List.map_cons, List.sum_cons, List.length_cons]
    have := Nat.lt_mul_div_succ (g x) hk
    have e : (g x / k + (xs.map (fun x => g x / k)).sum + (xs.length + 1)) * k
        = k * (g x / k + 1) + ((xs.map (fun x => g x / k)).sum + xs.length) * k := by
      simp only [Nat.add_mul, Nat.mul_add, Nat.mul_comm]; omega
    omega

theorem payAmounts_dust (elig : List CVal) (vT : Nat) (htot : 0 < (elig.map (·.power)).sum) :
    vT * one ≤ (payAmounts elig vT (elig.map (·.power)).sum).sum + elig.length * (vT + 1) := by
  let total := (elig.map (·.power)).sum
  let F := (elig.map fun c => quoTruncInt c.power total).sum
  let S := (payAmounts elig vT total).sum
  -- one ≤ F + n
  have hF : one ≤ F + elig.length := by
    have h := sum_succ_div_ge elig (fun c => c.power * one) total htot
    rw [sum_mul_right] at h
    have : one * total ≤ (F + elig.length) * total := by rw [Nat.mul_comm one]; exact h
    exact Nat.le_of_mul_le_mul_right this htot
  -- A·F ≤ (S + n)·one
  have hS : vT * one * F ≤ (S + elig.length) * one := by
    have h := sum_succ_div_ge elig (fun c => vT * one * quoTruncInt c.power total) one one_pos
    rw [sum_mul_left] at h
    exact h
  have h1 : vT * one * one ≤ vT * one * (F + elig.length) := Nat.mul_le_mul_left _ hF
  have h2 : vT * one * (F + elig.length) = vT * one * F + vT * elig.length * one := by
    rw [Nat.mul_add, Nat.mul_right_comm vT one elig.length]
  have h3 : vT * one * one ≤ (S + elig.length + vT * elig.length) * one := by
    rw [Nat.add_mul (S + elig.length)]; omega
  have h4 := Nat.le_of_mul_le_mul_right h3 one_pos
  have : elig.length * (vT + 1) = elig.length + vT * elig.length := by
    rw [Nat.mul_add, Nat.mul_comm elig.length vT]; omega
  show vT * one ≤ S + elig.length * (vT + 1)
  omega

theorem step_nothing_dangling (credit tax : Nat) (vals : List CVal) (h e : Nat) :
    let p := allocateConsumerRewards credit tax vals h e
    p.toDistr * one ≤ (p.pays.map (·.amount)).sum + p.pays.length * (p.toDistr + 1) := by
  intro p
  have hp := pays_eq credit tax vals h e
  simp only [] at hp
  have hl : p.pays.length = (p.pays.map (·.amount)).length := by simp
  show _ ≤ ((allocateConsumerRewards credit tax vals h e).pays.map (·.amount)).sum + _
  rw [hl]
  show _ ≤ _ + ((allocateConsumerRewards credit tax vals h e).pays.map (·.amount)).length * _
  rw [hp]
  by_cases hz : (((vals.filter fun c => eligible h c.join e).map (·.power)).sum == 0) = true
  · have : p.toDistr = 0 := by
      simp only [p, allocateConsumerRewards]; rw [if_pos hz]
    simp [hz, this]
  · have hd : p.toDistr = mulTrunc credit (one - tax) / one := by
      simp only [p, allocateConsumerRewards]; rw [if_neg hz]
    rw [if_neg hz]
    by_cases hv : (mulTrunc credit (one - tax) / one == 0) = true
    · rw [if_pos hv]; have hv' := eq_of_beq hv; simp [hd, hv']
    · rw [if_neg hv, hd]
      have htot : 0 < ((vals.filter fun c => eligible h c.join e).map (·.power)).sum := by
        apply Nat.pos_of_ne_zero; intro h0; simp [h0] at hz
      have := payAmounts_dust (vals.filter fun c => eligible h c.join e) (mulTrunc credit (one - tax) / one) htot
      simpa [payAmounts] using this

/-! ### crediting (transfer middleware) -/

/-- a reward transfer is credited in full, to the scaled unit -/
theorem credit_exact (old amt : Nat) : Rewards.credit old amt = old + amt * one := by
  unfold Rewards.credit; rw [Nat.mul_comm]

/-! ### AllocateTokens over all consumers and denoms -/

def WF (cr : Credits) : Prop := cr.Pairwise (fun a b => a.1 ≠ b.1)

def totalCredit (cr : Credits) (d : String) : Nat := ((cr.filter (·.1.2 == d)).map (·.2)).sum

theorem getBal_setBal (b : Bal) (d d' : String) (v : Nat) :
    getBal (setBal b d v) d' = if d' = d then v else getBal b d' := by
  simp only [getBal, setBal]
  by_cases h : d' = d
  · subst h
    simp only [if_true]
    have hnone : (b.filter (·.1 != d')).find? (·.1 == d') = none := by
      simp only [List.find?_eq_none, List.mem_filter]
      intro x hx; simp at hx ⊢; exact hx.2
    rw [List.find?_append, hnone]
    by_cases hv : v = 0
    · subst hv; simp
    · have : (v == 0) = false := by simpa using hv
      simp [this]
  · simp only [if_neg h]
    have hf : (b.filter (·.1 != d)).find? (·.1 == d') = b.find? (·.1 == d') := by
      induction b with
      | nil => rfl
      | cons x xs ih =>
        simp only [List.filter_cons]
        by_cases hx : x.1 = d
        · have h1 : (x.1 != d) = false := by simp [hx]
          have h2 : (x.1 == d') = false := by simp [hx]; exact fun e => h e.symm
          simp only [h1, List.find?_cons, h2]
          exact ih
        · have h1 : (x.1 != d) = true := by simp [hx]
          simp only [h1, if_true, List.find?_cons]
          split
          · rfl
          · exact ih
    rw [List.find?_append, hf]
    cases hb : b.find? (·.1 == d') with
    | some e => simp
    | none =>
      simp only [Option.none_or]
      by_cases hv : (v == 0) = true
      · simp [hv]
      · have hdd : (d == d') = false := by simp; exact fun e => h e.symm
        simp [hv, hdd]

/-- bank conservation of one payout: the pool loses exactly what the distribution module and the
    community pool gain -/
theorem bank_step (pool distr cp : Bal) (d d' : String) (a b : Nat) (h : a + b ≤ getBal pool d) :
    getBal (setBal pool d (getBal pool d - a - b)) d' + getBal (setBal distr d (getBal distr d + a)) d'
      + getBal (setBal cp d (getBal cp d + b)) d'
    = getBal pool d' + getBal distr d' + getBal cp d' := by
  simp only [getBal_setBal]
  by_cases hd : d' = d
  · subst hd; simp only [if_true]; omega
  · simp only [if_neg hd]

/-- the three module accounts together hold the same amount of every denom before and after
    AllocateTokens: no tokens are created or lost -/
def bankTotal (r : AllocResult) (d : String) : Nat := getBal r.pool d + getBal r.distr d + getBal r.cp d

theorem allocStep_bank (tax h e : Nat) (c : Provider.CId) (vals : List CVal) (r : AllocResult) (dn d : String) :
    bankTotal (allocStep tax h e c vals r dn) d = bankTotal r d := by
  simp only [allocStep]
  split
  · rfl
  · split
    · rfl
    · rename_i hlt
      simp only [bankTotal]
      exact bank_step _ _ _ _ _ _ _ (Nat.le_of_not_lt hlt)

theorem foldl_preserves {σ α} (f : σ → α → σ) (m : σ → Nat) (hf : ∀ s a, m (f s a) = m s) (l : List α) (s : σ) :
    m (l.foldl f s) = m s := by
  induction l generalizing s with
  | nil => rfl
  | cons a l ih => simp only [List.foldl_cons]; rw [ih, hf]

theorem allocateTokens_bank_conserved (consumers : List (Provider.CId × List CVal × List String)) (gd : List String)
    (credits : Credits) (pool distr cp : Bal) (tax h e : Nat) (d : String) :
    bankTotal (allocateTokens consumers gd credits pool distr cp tax h e) d
      = getBal pool d + getBal distr d + getBal cp d := by
  unfold allocateTokens
  rw [foldl_preserves (allocConsumer tax h e gd) (fun r => bankTotal r d)]
  · rfl
  · intro r c
    simp only [allocConsumer]
    exact foldl_preserves _ (fun r => bankTotal r d) (fun r dn => allocStep_bank tax h e c.1 c.2.1 r dn d) _ r


/-! ### credits: what leaves the credits is exactly what reached the distribution module and the
    community pool -/

theorem wf_setCredit (cr : Credits) (c : Provider.CId) (d : String) (v : Nat) (h : WF cr) : WF (setCredit cr c d v) := by
  simp only [setCredit, WF]
  have hr : (cr.filter fun e => !(e.1.1 == c && e.1.2 == d)).Pairwise (fun a b => a.1 ≠ b.1) := List.Pairwise.filter _ h
  split
  · exact hr
  · rw [List.pairwise_append]
    refine ⟨hr, by simp, ?_⟩
    intro a ha b hb
    simp only [List.mem_singleton] at hb
    subst hb
    have := (List.mem_filter.mp ha).2
    intro heq
    simp [heq] at this

theorem getCredit_cons (x : (Provider.CId × String) × Nat) (xs : Credits) (c : Provider.CId) (d : String) :
    getCredit (x :: xs) c d = if (x.1.1 == c && x.1.2 == d) = true then x.2 else getCredit xs c d := by
  by_cases hk : (x.1.1 == c && x.1.2 == d) = true
  · simp only [getCredit, List.find?_cons, hk, if_true]
  · have hk' : (x.1.1 == c && x.1.2 == d) = false := by simpa using hk
    simp only [getCredit, List.find?_cons, hk']
    simp

/-- a key that does not occur has credit 0 -/
theorem getCredit_absent (cr : Credits) (c : Provider.CId) (d : String)
    (h : ∀ e ∈ cr, e.1 ≠ (c, d)) : getCredit cr c d = 0 := by
  induction cr with
  | nil => rfl
  | cons x xs ih =>
    rw [getCredit_cons]
    have hx : ¬ ((x.1.1 == c && x.1.2 == d) = true) := by
      intro hh
      simp at hh
      exact h x (List.mem_cons_self) (Prod.ext hh.1 hh.2)
    rw [if_neg hx]
    exact ih (fun e he => h e (List.mem_cons_of_mem _ he))

theorem totalCredit_cons (x : (Provider.CId × String) × Nat) (xs : Credits) (d : String) :
    totalCredit (x :: xs) d = (if x.1.2 = d then x.2 else 0) + totalCredit xs d := by
  simp only [totalCredit, List.filter_cons]
  by_cases h : x.1.2 = d <;> simp [h]

theorem totalCredit_append (a b : Credits) (d : String) :
    totalCredit (a ++ b) d = totalCredit a d + totalCredit b d := by
  simp [totalCredit, List.filter_append]

/-- removing the entry of (c, d) lowers the total of denom d by exactly that credit and leaves
    every other denom alone -/
theorem totalCredit_remove (cr : Credits) (c : Provider.CId) (d d' : String) (h : WF cr) :
    totalCredit (cr.filter fun e => !(e.1.1 == c && e.1.2 == d)) d' + (if d' = d then getCredit cr c d else 0)
      = totalCredit cr d' := by
  induction cr with
  | nil => simp [totalCredit, getCredit]
  | cons x xs ih =>
    have hxs : WF xs := (List.pairwise_cons.mp h).2
    have hne := (List.pairwise_cons.mp h).1
    rw [getCredit_cons, totalCredit_cons]
    by_cases hk : (x.1.1 == c && x.1.2 == d) = true
    · have hk' := hk
      simp only [Bool.and_eq_true, beq_iff_eq] at hk'
      rw [List.filter_cons_of_neg (p := fun (e : (Provider.CId × String) × Nat) => !(e.1.1 == c && e.1.2 == d)) (by simp [hk]), if_pos hk]
      have habs : getCredit xs c d = 0 := getCredit_absent xs c d (fun e he heq => hne e he (by rw [heq]; exact Prod.ext hk'.1 hk'.2))
      have := ih hxs
      rw [habs] at this
      have hfalse : (if d' = d then (0 : Nat) else 0) = 0 := by split <;> rfl
      rw [hfalse] at this
      rw [hk'.2]
      by_cases hd : d = d'
      · subst hd; simp only [if_true]; omega
      · have hd' : ¬ d' = d := fun e => hd e.symm
        simp only [if_neg hd, if_neg hd']; omega
    · have hkf : (!(x.1.1 == c && x.1.2 == d)) = true := by
        cases hb : (x.1.1 == c && x.1.2 == d) <;> simp_all
      rw [List.filter_cons_of_pos (p := fun (e : (Provider.CId × String) × Nat) => !(e.1.1 == c && e.1.2 == d)) hkf, totalCredit_cons, if_neg hk]
      have := ih hxs
      omega

theorem totalCredit_setCredit (cr : Credits) (c : Provider.CId) (d d' : String) (v : Nat) (h : WF cr) :
    totalCredit (setCredit cr c d v) d' + (if d' = d then getCredit cr c d else 0)
      = totalCredit cr d' + (if d' = d then v else 0) := by
  have hr := totalCredit_remove cr c d d' h
  simp only [setCredit]
  split
  · rename_i hv
    have hv' : v = 0 := eq_of_beq hv
    subst hv'
    have : (if d' = d then (0 : Nat) else 0) = 0 := by split <;> rfl
    rw [this]; omega
  · rw [totalCredit_append]
    have : totalCredit [((c, d), v)] d' = if d' = d then v else 0 := by
      simp only [totalCredit, List.filter_cons, List.filter_nil]
      by_cases hd : d' = d
      · subst hd; simp
      · have : (d == d') = false := by simp; exact fun e => hd e.symm
        simp [this, hd]
    rw [this]; omega

/-- per denom: credits + 10^18 · (tokens in the distribution module + community pool) -/
def creditPlusOut (r : AllocResult) (d : String) : Nat :=
  totalCredit r.credits d + (getBal r.distr d + getBal r.cp d) * one

theorem getCredit_le_total (cr : Credits) (c : Provider.CId) (d : String) : getCredit cr c d ≤ totalCredit cr d := by
  induction cr with
  | nil => simp [getCredit]
  | cons x xs ih =>
    rw [getCredit_cons, totalCredit_cons]
    split
    · rename_i hk; simp only [Bool.and_eq_true, beq_iff_eq] at hk; simp [hk.2]
    · omega

theorem allocStep_credit (tax h e : Nat) (c : Provider.CId) (vals : List CVal) (r : AllocResult) (dn d : String)
    (hw : WF r.credits) :
    WF (allocStep tax h e c vals r dn).credits ∧
    creditPlusOut (allocStep tax h e c vals r dn) d = creditPlusOut r d := by
  simp only [allocStep]
  split
  · exact ⟨hw, rfl⟩
  · split
    · exact ⟨hw, rfl⟩
    · refine ⟨wf_setCredit _ _ _ _ hw, ?_⟩
      simp only [creditPlusOut, getBal_setBal]
      have hs := totalCredit_setCredit r.credits c dn d (allocateConsumerRewards (getCredit r.credits c dn) tax vals h e).left hw
      have hc := step_conserves_credit (getCredit r.credits c dn) tax vals h e
      have hle := getCredit_le_total r.credits c dn
      simp only [] at hc
      by_cases hd : d = dn
      · subst hd
        simp only [if_true] at hs ⊢
        generalize (allocateConsumerRewards (getCredit r.credits c d) tax vals h e) = p at *
        have e1 : (getBal r.distr d + p.toDistr + (getBal r.cp d + p.toCP)) * one
            = (getBal r.distr d + getBal r.cp d) * one + p.toDistr * one + p.toCP * one := by
          simp only [Nat.add_mul]; omega
        omega
      · simp only [if_neg hd] at hs ⊢
        omega

theorem foldl_inv {σ α} (f : σ → α → σ) (I : σ → Prop) (hf : ∀ s a, I s → I (f s a)) (l : List α) (s : σ) (h : I s) :
    I (l.foldl f s) := by
  induction l generalizing s with
  | nil => exact h
  | cons a l ih => exact ih _ (hf s a h)

/-- CREDITS CONSERVED over a whole AllocateTokens: for every denom, the total credited goes down by
    exactly 10^18 times the tokens that reached the distribution module and the community pool -/
theorem allocateTokens_credit_conserved (consumers : List (Provider.CId × List CVal × List String)) (gd : List String)
    (credits : Credits) (pool distr cp : Bal) (tax h e : Nat) (d : String) (hw : WF credits) :
    let r := allocateTokens consumers gd credits pool distr cp tax h e
    WF r.credits ∧
    totalCredit r.credits d + (getBal r.distr d + getBal r.cp d) * one
      = totalCredit credits d + (getBal distr d + getBal cp d) * one := by
  intro r
  let r0 : AllocResult := { credits := credits, pool := pool, distr := distr, cp := cp, steps := [] }
  have := foldl_inv (allocConsumer tax h e gd)
    (fun r => WF r.credits ∧ creditPlusOut r d = creditPlusOut r0 d)
    (fun s c hs => by
      simp only [allocConsumer]
      exact foldl_inv (allocStep tax h e c.1 c.2.1)
        (fun r => WF r.credits ∧ creditPlusOut r d = creditPlusOut r0 d)
        (fun s dn hs => by
          have := allocStep_credit tax h e c.1 c.2.1 s dn d hs.1
          exact ⟨this.1, this.2.trans hs.2⟩) _ s hs)
    consumers r0 ⟨hw, rfl⟩
  exact this

/-! ### credits are always backed by the pool, so the roll-back branch is never taken -/

def Backed (r : AllocResult) : Prop := ∀ d, totalCredit r.credits d ≤ getBal r.pool d * one

theorem allocStep_backed (tax h e : Nat) (c : Provider.CId) (vals : List CVal) (r : AllocResult) (dn : String)
    (hw : WF r.credits) (hb : Backed r) :
    Backed (allocStep tax h e c vals r dn) ∧
    -- never paid out more than was credited: the pool always covers the step
    ¬ (getBal r.pool dn < (allocateConsumerRewards (getCredit r.credits c dn) tax vals h e).toDistr
        + (allocateConsumerRewards (getCredit r.credits c dn) tax vals h e).toCP) := by
  have hc := step_conserves_credit (getCredit r.credits c dn) tax vals h e
  have hle := getCredit_le_total r.credits c dn
  have hbd := hb dn
  simp only [] at hc
  generalize hp : allocateConsumerRewards (getCredit r.credits c dn) tax vals h e = p at *
  have hcover : p.toDistr + p.toCP ≤ getBal r.pool dn := by
    have : (p.toDistr + p.toCP) * one ≤ getBal r.pool dn * one := by rw [Nat.add_mul]; omega
    exact Nat.le_of_mul_le_mul_right this one_pos
  refine ⟨?_, Nat.not_lt.mpr hcover⟩
  intro d
  simp only [allocStep, hp]
  split
  · exact hb d
  · rw [if_neg (Nat.not_lt.mpr hcover)]
    simp only [getBal_setBal]
    have hs := totalCredit_setCredit r.credits c dn d p.left hw
    by_cases hd : d = dn
    · subst hd
      simp only [if_true] at hs ⊢
      obtain ⟨q, hq⟩ : ∃ q, getBal r.pool d = q + p.toDistr + p.toCP :=
        ⟨getBal r.pool d - p.toDistr - p.toCP, by omega⟩
      rw [hq] at hbd ⊢
      have : q + p.toDistr + p.toCP - p.toDistr - p.toCP = q := by omega
      rw [this]
      simp only [Nat.add_mul] at hbd
      omega
    · simp only [if_neg hd] at hs ⊢
      have := hb d
      omega

/-- crediting a received transfer keeps the credits backed: the pool receives `amt` tokens, the
    consumer `amt`·10^18 credit -/
theorem credit_backed (cr : Credits) (pool : Bal) (c : Provider.CId) (dn : String) (amt : Nat) (hw : WF cr)
    (hb : ∀ d, totalCredit cr d ≤ getBal pool d * one) :
    ∀ d, totalCredit (setCredit cr c dn (Rewards.credit (getCredit cr c dn) amt)) d
        ≤ getBal (setBal pool dn (getBal pool dn + amt)) d * one := by
  intro d
  have hs := totalCredit_setCredit cr c dn d (Rewards.credit (getCredit cr c dn) amt) hw
  have := hb d
  simp only [getBal_setBal, credit_exact] at *
  by_cases hd : d = dn
  · subst hd
    simp only [if_true] at hs ⊢
    rw [Nat.add_mul]; omega
  · simp only [if_neg hd] at hs ⊢
    omega


/-! ### every reachable provider state: credits are backed, the ledger balances -/

theorem allocateTokens_backed (consumers : List (Provider.CId × List CVal × List String)) (gd : List String)
    (credits : Credits) (pool distr cp : Bal) (tax h e : Nat) (hw : WF credits)
    (hb : ∀ d, totalCredit credits d ≤ getBal pool d * one) :
    let r := allocateTokens consumers gd credits pool distr cp tax h e
    WF r.credits ∧ Backed r := by
  intro r
  exact foldl_inv (allocConsumer tax h e gd) (fun r => WF r.credits ∧ Backed r)
    (fun s c hs => by
      simp only [allocConsumer]
      exact foldl_inv (allocStep tax h e c.1 c.2.1) (fun r => WF r.credits ∧ Backed r)
        (fun s dn hs => ⟨(allocStep_credit tax h e c.1 c.2.1 s dn dn hs.1).1,
                         (allocStep_backed tax h e c.1 c.2.1 s dn hs.1 hs.2).1⟩) _ s hs)
    consumers { credits := credits, pool := pool, distr := distr, cp := cp, steps := [] } ⟨hw, hb⟩

/-- the provider-side reward ledger and the two operations that change it -/
structure Ledger where
  credits : Credits := []
  pool    : Bal := []
  distr   : Bal := []
  cp      : Bal := []
  received : Bal := []      -- history: everything ever credited, per denom

inductive LOp
  | receive (c : Provider.CId) (d : String) (amt : Nat)       -- a reward transfer credited to consumer c
  | allocate (consumers : List (Provider.CId × List CVal × List String)) (gd : List String) (tax h e : Nat)

def Ledger.step (l : Ledger) : LOp → Ledger
  | .receive c d amt =>
    { l with credits := setCredit l.credits c d (Rewards.credit (getCredit l.credits c d) amt),
             pool := setBal l.pool d (getBal l.pool d + amt),
             received := setBal l.received d (getBal l.received d + amt) }
  | .allocate cs gd tax h e =>
    let r := allocateTokens cs gd l.credits l.pool l.distr l.cp tax h e
    { l with credits := r.credits, pool := r.pool, distr := r.distr, cp := r.cp }

/-- the invariant: distinct credit keys; credits backed by the pool; per denom, everything ever
    received is in one of the three accounts, and what has been paid out plus what is still credited
    is exactly what was received (so never more is paid out than was credited) -/
def InvOf (credits : Credits) (pool distr cp received : Bal) : Prop :=
  WF credits ∧
  (∀ d, totalCredit credits d ≤ getBal pool d * one) ∧
  (∀ d, getBal pool d + getBal distr d + getBal cp d = getBal received d) ∧
  (∀ d, totalCredit credits d + (getBal distr d + getBal cp d) * one = getBal received d * one)

def Ledger.Inv (l : Ledger) : Prop := InvOf l.credits l.pool l.distr l.cp l.received

theorem ledger_init : ({} : Ledger).Inv := by
  refine ⟨List.Pairwise.nil, fun d => ?_, fun d => ?_, fun d => ?_⟩
  · show 0 ≤ 0 * one; exact Nat.zero_le _
  · rfl
  · show 0 + (0 + 0) * one = 0 * one; simp

theorem invOf_receive (credits : Credits) (pool distr cp received : Bal) (c : Provider.CId) (d : String) (amt : Nat)
    (h : InvOf credits pool distr cp received) :
    InvOf (setCredit credits c d (Rewards.credit (getCredit credits c d) amt)) (setBal pool d (getBal pool d + amt))
      distr cp (setBal received d (getBal received d + amt)) := by
  obtain ⟨hw, hb, hbank, hcred⟩ := h
  refine ⟨wf_setCredit _ _ _ _ hw, credit_backed credits pool c d amt hw hb, ?_, ?_⟩
  · intro d'
    simp only [getBal_setBal]
    have := hbank d'
    by_cases hd : d' = d
    · subst hd; simp only [if_true]; omega
    · simp only [if_neg hd]; exact this
  · intro d'
    simp only [getBal_setBal, credit_exact]
    have hs := totalCredit_setCredit credits c d d' (Rewards.credit (getCredit credits c d) amt) hw
    have := hcred d'
    simp only [credit_exact] at hs
    by_cases hd : d' = d
    · subst hd; simp only [if_true] at hs ⊢; simp only [Nat.add_mul] at this ⊢; omega
    · simp only [if_neg hd] at hs ⊢; omega

theorem invOf_allocate (credits : Credits) (pool distr cp received : Bal)
    (cs : List (Provider.CId × List CVal × List String)) (gd : List String) (tax h e : Nat)
    (hi : InvOf credits pool distr cp received) :
    InvOf (allocateTokens cs gd credits pool distr cp tax h e).credits (allocateTokens cs gd credits pool distr cp tax h e).pool
      (allocateTokens cs gd credits pool distr cp tax h e).distr (allocateTokens cs gd credits pool distr cp tax h e).cp received := by
  obtain ⟨hw, hb, hbank, hcred⟩ := hi
  have hB := allocateTokens_backed cs gd credits pool distr cp tax h e hw hb
  refine ⟨hB.1, hB.2, ?_, ?_⟩
  · intro d
    have := allocateTokens_bank_conserved cs gd credits pool distr cp tax h e d
    simp only [bankTotal] at this
    rw [this]; exact hbank d
  · intro d
    have := (allocateTokens_credit_conserved cs gd credits pool distr cp tax h e d hw).2
    rw [this]; exact hcred d

theorem ledger_step (l : Ledger) (op : LOp) (h : l.Inv) : (l.step op).Inv := by
  cases op with
  | receive c d amt => exact invOf_receive l.credits l.pool l.distr l.cp l.received c d amt h
  | allocate cs gd tax hh e => exact invOf_allocate l.credits l.pool l.distr l.cp l.received cs gd tax hh e h

/-- FOR EVERY HISTORY of reward transfers and allocations, starting from nothing: the invariant
    holds; in particular what reached the distribution module and the community pool never exceeds
    what was credited, and credits + payouts = receipts, exactly, in every denom -/
theorem ledger_reachable (ops : List LOp) : (ops.foldl Ledger.step {}).Inv :=
  foldl_inv Ledger.step Ledger.Inv (fun l op h => ledger_step l op h) ops {} ledger_init

theorem never_paid_more_than_credited (ops : List LOp) (d : String) :
    getBal (ops.foldl Ledger.step {}).distr d + getBal (ops.foldl Ledger.step {}).cp d
      ≤ getBal (ops.foldl Ledger.step {}).received d := by
  have := (ledger_reachable ops).2.2.1 d
  omega

/-! ### consumer side: EndBlockRD -/

theorem consumerShare_le (amt frac : Nat) (hf : frac ≤ one) : consumerShare amt frac ≤ amt := by
  unfold consumerShare
  apply Nat.div_le_of_le_mul
  rw [Nat.mul_comm one]
  exact Nat.mul_le_mul_left _ hf

/-- the collected fees of a denom are split EXACTLY into the consumer's share (the fraction,
    rounded down) and the provider's share -/
theorem split_exact (amt frac : Nat) (hf : frac ≤ one) :
    consumerShare amt frac + (amt - consumerShare amt frac) = amt ∧
    consumerShare amt frac * one ≤ amt * frac ∧ amt * frac < (consumerShare amt frac + 1) * one := by
  have := consumerShare_le amt frac hf
  refine ⟨by omega, Nat.div_mul_le_self _ _, ?_⟩
  unfold consumerShare
  have := Nat.lt_mul_div_succ (amt * frac) one_pos
  rw [Nat.mul_comm (amt * frac / one + 1)]; exact this

def crTotal (s : CRState) (d : String) : Nat :=
  getBal s.fc d + getBal s.redis d + getBal s.toSend d + getBal s.escrow d

theorem splitOne_conserves (frac : Nat) (hf : frac ≤ one) (s : CRState) (dn d : String) :
    crTotal (splitOne frac s dn) d = crTotal s d := by
  have := consumerShare_le (getBal s.fc dn) frac hf
  simp only [crTotal, splitOne, addBal, getBal_setBal]
  by_cases h : d = dn
  · subst h; simp only [if_true]; omega
  · simp only [if_neg h]

theorem splitOne_ltbh (frac : Nat) (s : CRState) (dn : String) : (splitOne frac s dn).ltbh = s.ltbh := rfl

theorem distribute_conserves (frac : Nat) (hf : frac ≤ one) (s : CRState) (d : String) :
    crTotal (distributeInternally s frac) d = crTotal s d := by
  unfold distributeInternally
  exact foldl_preserves (splitOne frac) (fun s => crTotal s d) (fun s dn => splitOne_conserves frac hf s dn d) _ s

/-- the split never touches what is already waiting to be sent or in flight: tokens returned by a
    failed transfer are not split a second time -/
theorem splitOne_frame (frac : Nat) (s : CRState) (dn : String) :
    (splitOne frac s dn).escrow = s.escrow ∧
    ∀ d, getBal (splitOne frac s dn).toSend d ≥ getBal s.toSend d ∧ getBal (splitOne frac s dn).redis d ≥ getBal s.redis d := by
  refine ⟨rfl, fun d => ?_⟩
  simp only [splitOne, addBal, getBal_setBal]
  by_cases h : d = dn
  · subst h; simp only [if_true]; omega
  · simp only [if_neg h]; omega

theorem sendOne_conserves (acc : CRState × List (String × Nat)) (dn d : String) :
    crTotal (sendOneDenom acc dn).1 d = crTotal acc.1 d := by
  simp only [sendOneDenom]
  split
  · rfl
  · simp only [crTotal, addBal, getBal_setBal]
    by_cases h : d = dn
    · subst h; simp only [if_true]; omega
    · simp only [if_neg h]

theorem sendOne_only (acc : CRState × List (String × Nat)) (dn : String) (P : String → Prop)
    (hp : P dn) (h : ∀ t ∈ acc.2, P t.1) : ∀ t ∈ (sendOneDenom acc dn).2, P t.1 := by
  simp only [sendOneDenom]
  split
  · exact h
  · intro t ht
    rcases List.mem_append.mp ht with h1 | h1
    · exact h t h1
    · simp only [List.mem_singleton] at h1; subst h1; exact hp

theorem sendFold_only (allowed : List String) (P : String → Prop) (hall : ∀ d ∈ allowed, P d)
    (acc : CRState × List (String × Nat)) (h : ∀ t ∈ acc.2, P t.1) :
    ∀ t ∈ (allowed.foldl sendOneDenom acc).2, P t.1 := by
  induction allowed generalizing acc with
  | nil => exact h
  | cons a l ih =>
    simp only [List.foldl_cons]
    exact ih (fun d hd => hall d (List.mem_cons_of_mem _ hd)) _
      (sendOne_only acc a P (hall a List.mem_cons_self) h)

theorem sendRewards_conserves (s : CRState) (allowed : List String) (o : Bool) (k : Nat) (d : String) :
    crTotal (sendRewards s allowed o k).1 d = crTotal s d := by
  simp only [sendRewards]
  split
  · rfl
  · split
    · rfl
    · exact foldl_preserves sendOneDenom (fun a => crTotal a.1 d) (fun a dn => sendOne_conserves a dn d) allowed (s, [])

/-- NO TOKENS CREATED OR LOST on the consumer: fee collector + redistribution account + send buffer +
    transfers in flight hold the same amount of every denom before and after EndBlockRD -/
theorem endBlockRD_conserves (s : CRState) (h frac bpdt : Nat) (allowed : List String) (o : Bool) (k : Nat)
    (hf : frac ≤ one) (d : String) :
    crTotal (endBlockRD s h frac bpdt allowed o k).1 d = crTotal s d := by
  simp only [endBlockRD]
  split
  · have h1 := sendRewards_conserves (distributeInternally s frac) allowed o k d
    have h2 := distribute_conserves frac hf s d
    simp only [crTotal] at h1 h2 ⊢
    omega
  · exact distribute_conserves frac hf s d

/-- ALLOWED DENOMS ONLY: whatever is transferred to the provider is in a configured reward denom -/
theorem endBlockRD_allowed_only (s : CRState) (h frac bpdt : Nat) (allowed : List String) (o : Bool) (k : Nat) :
    ∀ t ∈ (endBlockRD s h frac bpdt allowed o k).2, t.1 ∈ allowed := by
  simp only [endBlockRD]
  split
  · simp only [sendRewards]
    split
    · simp
    · split
      · simp
      · exact sendFold_only allowed (· ∈ allowed) (fun d hd => hd) _ (by simp)
  · simp

/-- nothing is sent while the transfer channel is not open, or before the transmission period is over -/
theorem endBlockRD_gated (s : CRState) (h frac bpdt : Nat) (allowed : List String) (o : Bool) (k : Nat)
    (hg : o = false ∨ h < s.ltbh + bpdt) :
    (endBlockRD s h frac bpdt allowed o k).2 = [] := by
  have hl : (distributeInternally s frac).ltbh = s.ltbh := by
    unfold distributeInternally
    exact foldl_inv (splitOne frac) (fun x => x.ltbh = s.ltbh) (fun x dn hx => by rw [splitOne_ltbh]; exact hx) _ s rfl
  simp only [endBlockRD, hl]
  rcases hg with ho | hh
  · subst ho
    split
    · simp [sendRewards]
    · rfl
  · rw [if_neg (by omega)]


/-! ### the hypotheses are met by non-trivial concrete states (tests, not theorems) -/

/-- 100 tokens, 2 % tax, powers 3 : 1 (one more validator joined too recently): 98 to the
    distribution module, 73.5 + 24.5 to the two eligible validators, 2 to the community pool -/
example :
    let p := allocateConsumerRewards (100 * one) (one / 50)
      [{ v := 1, key := 1, power := 3, join := 2 }, { v := 2, key := 2, power := 1, join := 2 }, { v := 3, key := 3, power := 5, join := 9 }] 10 4
    p.toDistr = 98 ∧ p.toCP = 2 ∧ p.left = 0 ∧ p.pays.map (·.v) = [1, 2] ∧
    p.pays.map (·.amount) = [73 * one + one / 2, 24 * one + one / 2] := by decide

/-- nobody eligible: everything goes to the community pool, the fraction stays credited -/
example :
    let p := allocateConsumerRewards (7 * one + 5) (one / 50) [{ v := 3, key := 3, power := 5, join := 9 }] 10 4
    p.toDistr = 0 ∧ p.toCP = 7 ∧ p.left = 5 ∧ p.pays = [] := by decide

example : WF [(("0", "stake"), 5), (("1", "stake"), 7), (("0", "mote"), 1)] := by
  simp [WF]

/-- consumer: 1000 fee tokens at fraction 0.75 → 750 stay, 250 are buffered and sent when due -/
example :
    let r := endBlockRD { fc := [("stake", 1000)], toSend := [("stake", 3), ("mote", 9)], ltbh := 4 } 9 (3 * one / 4) 5 ["stake"] true 0
    r.2 = [("stake", 253)] ∧ getBal r.1.redis "stake" = 750 ∧ getBal r.1.toSend "mote" = 9 ∧ r.1.ltbh = 9 := by decide

end ICS.Props.C16
