/-
  C05 — A consumer consensus key never belongs to two validators.
  Key ids: a key id that is the id of an existing validator is that validator's provider key.
-/
import ICS.Lemmas.Assoc
import ICS.Lemmas.Prov
namespace ICS.Props.C05
open ICS ICS.Provider

/-- an assignment of ANOTHER validator's provider key is rejected -/
theorem reject_other_provider_key (s : State) (c : CId) (v key : Nat)
    (hex : valExists s key = true) (hne : key ≠ v) : assignKey s c v key = none := by
  unfold assignKey assignOK
  have : (key == v) = false := by simp [hne]
  simp [hex, this]

/-- a validator cannot take its own provider key unless it had assigned a different key before -/
theorem reject_default_key_unassigned (s : State) (c : CId) (v : Nat)
    (hex : valExists s v = true) (hno : assignedKey (s.get c) v = none) : assignKey s c v v = none := by
  unfold assignKey assignOK
  simp [hex, hno]

/-- a key that is any validator's current key on the consumer, or was replaced and is not pruned
    yet, is rejected -/
theorem reject_known_key (s : State) (c : CId) (v key w : Nat)
    (hk : resolveKey (s.get c) key = some w) : assignKey s c v key = none := by
  unfold assignKey assignOK
  simp [hk]

/-- assignments are possible on active consumers only -/
theorem reject_inactive (s : State) (c : CId) (v key : Nat)
    (h : isActive (s.get c).phase = false) : assignKey s c v key = none := by
  unfold assignKey assignOK
  simp [h]

/-- a rejected assignment changes nothing: there is no resulting state at all, and the message
    handler runs in a cache context that is dropped (A-ATOMIC) -/
theorem rejected_is_none (s : State) (c : CId) (v key : Nat) (h : assignOK s c v key = false) :
    assignKey s c v key = none := by
  unfold assignKey; simp [h]

theorem assignRecord_id (t : Time) (v key : Nat) (x : Consumer) : (assignRecord t v key x).id = x.id := by
  unfold assignRecord
  cases h : assignedKey x v with
  | none => simp
  | some old => by_cases hp : x.phase == Phase.launched <;> simp [hp]

/-- after a successful assignment the key resolves to the validator and is its current key -/
theorem assign_success (s s' : State) (c : CId) (v key : Nat) (h : assignKey s c v key = some s') :
    resolveKey (s'.get c) key = some v ∧ assignedKey (s'.get c) v = some key := by
  unfold assignKey at h
  split at h
  · simp only [Option.some.injEq] at h
    subst h
    rw [get_set_upd s c (assignRecord (s.now + s.unbonding) v key) (assignRecord_id _ _ _)]
    unfold assignRecord resolveKey assignedKey
    simp [find_setAssoc_same]
  · cases h

/-- other consumers are not touched by an assignment -/
theorem assign_other_consumers (s s' : State) (c c' : CId) (v key : Nat)
    (h : assignKey s c v key = some s') (hne : c' ≠ c) : s'.get c' = s.get c' := by
  unfold assignKey at h
  split at h
  · simp only [Option.some.injEq] at h
    subst h
    exact get_set_upd_other s c c' _ (assignRecord_id _ _ _) hne
  · cases h

/-- a new validator cannot be created with a consensus key known on an active consumer -/
theorem create_blocked_iff (s : State) (key : Nat) :
    validatorKeyInUse s key = true ↔
      ∃ x ∈ s.consumers, isActive x.phase = true ∧ ∃ w, resolveKey x key = some w := by
  unfold validatorKeyInUse
  rw [List.any_eq_true]
  constructor
  · rintro ⟨x, hx, h⟩
    simp only [Bool.and_eq_true] at h
    refine ⟨x, hx, h.1, ?_⟩
    cases hr : resolveKey x key with
    | none => simp [hr] at h
    | some w => exact ⟨w, rfl⟩
  · rintro ⟨x, hx, ha, w, hw⟩
    exact ⟨x, hx, by simp [ha, hw]⟩

/-! ### non-vacuity -/
example :
    let s : State := { consumers := [{ id := "0", phase := .launched, ka := [(1, 40)], byaddr := [(40, 1)] }],
                       stk := [{ id := 1, tokens := 5, status := 3, jailed := false, lastPower := 5 },
                               { id := 2, tokens := 5, status := 3, jailed := false, lastPower := 5 }],
                       now := 100, unbonding := 50 }
    (assignKey s "0" 2 40).isNone ∧ (assignKey s "0" 2 1).isNone ∧ (assignKey s "0" 2 2).isNone ∧
    ((assignKey s "0" 1 41).map fun t => (t.get "0").prune) = some [(150, [40])] := by decide

end ICS.Props.C05
