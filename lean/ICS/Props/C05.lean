/-
  C05 — A consumer consensus key never belongs to two validators.
  Key ids: a key id that is the id of an existing validator is that validator's provider key.
-/
import ICS.Lemmas.Assoc
import ICS.Lemmas.Prov
namespace ICS.Props.C05
open ICS ICS.Provider

/-- an assignment of ANOTHER validator's provider key is rejected -/
theorem reject_other_provider_key (s : State) (c : CId) (v key : Nat)
    (hex : valExists s key = true) (hne : key ≠ v) : assignKey s c v key = none := by
  unfold assignKey assignOK
  have : (key == v) = false := by simp [hne]
  simp [hex, this]

/-- a validator cannot take its own provider key unless it had assigned a different key before -/
theorem reject_default_key_unassigned (s : State) (c : CId) (v : Nat)
    (hex : valExists s v = true) (hno : assignedKey (s.get c) v = none) : assignKey s c v v = none := by
  unfold assignKey assignOK
  simp [hex, hno]

/-- a key that is any validator's current key on the consumer, or was replaced and is not pruned
    yet, is rejected -/
theorem reject_known_key (s : State) (c : CId) (v key w : Nat)
    (hk : resolveKey (s.get c) key = some w) : assignKey s c v key = none := by
  unfold assignKey assignOK
  simp [hk]

/-- assignments are possible on active consumers only -/
theorem reject_inactive (s : State) (c : CId) (v key : Nat)
    (h : isActive (s.get c).phase = false) : assignKey s c v key = none := by
  unfold assignKey assignOK
  simp [h]

/-- a rejected assignment changes nothing: there is no resulting state at all, and the message
    handler runs in a cache context that is dropped (A-ATOMIC) -/
theorem rejected_is_none (s : State) (c : CId) (v key : Nat) (h : assignOK s c v key = false) :
    assignKey s c v key = none := by
  unfold assignKey; simp [h]

theorem assignRecord_id (t : Time) (v key : Nat) (x : Consumer) : (assignRecord t v key x).id = x.id := by
  unfold assignRecord
  cases h : assignedKey x v with
  | none => simp
  | some old => by_cases hp : x.phase == Phase.launched <;> simp [hp]

/-- after a successful assignment the key resolves to the validator and is its current key -/
theorem assign_success (s s' : State) (c : CId) (v key : Nat) (h : assignKey s c v key = some s') :
    resolveKey (s'.get c) key = some v ∧ assignedKey (s'.get c) v = some key := by
  unfold assignKey at h
  split at h
  · simp only [Option.some.injEq] at h
    subst h
    rw [get_set_upd s c (assignRecord (s.now + s.unbonding) v key) (assignRecord_id _ _ _)]
    unfold assignRecord resolveKey assignedKey
    simp [find_setAssoc_same]
  · cases h

/-- other consumers are not touched by an assignment -/
theorem assign_other_consumers (s s' : State) (c c' : CId) (v key : Nat)
    (h : assignKey s c v key = some s') (hne : c' ≠ c) : s'.get c' = s.get c' := by
  unfold assignKey at h
  split at h
  · simp only [Option.some.injEq] at h
    subst h
    exact get_set_upd_other s c c' _ (assignRecord_id _ _ _) hne
  · cases h

/-- a new validator cannot be created with a consensus key known on an active consumer -/
theorem create_blocked_iff (s : State) (key : Nat) :
    validatorKeyInUse s key = true ↔
      ∃ x ∈ s.consumers, isActive x.phase = true ∧ ∃ w, resolveKey x key = some w := by
  unfold validatorKeyInUse
  rw [List.any_eq_true]
  constructor
  · rintro ⟨x, hx, h⟩
    simp only [Bool.and_eq_true] at h
    refine ⟨x, hx, h.1, ?_⟩
    cases hr : resolveKey x key with
    | none => simp [hr] at h
    | some w => exact ⟨w, rfl⟩
  · rintro ⟨x, hx, ha, w, hw⟩
    exact ⟨x, hx, by simp [ha, hw]⟩

/-! ### non-vacuity -/
example :
    let s : State := { consumers := [{ id := "0", phase := .launched, ka := [(1, 40)], byaddr := [(40, 1)] }],
                       stk := [{ id := 1, tokens := 5, status := 3, jailed := false, lastPower := 5 },
                               { id := 2, tokens := 5, status := 3, jailed := false, lastPower := 5 }],
                       now := 100, unbonding := 50 }
    (assignKey s "0" 2 40).isNone ∧ (assignKey s "0" 2 1).isNone ∧ (assignKey s "0" 2 2).isNone ∧
    ((assignKey s "0" 1 41).map fun t => (t.get "0").prune) = some [(150, [40])] := by decide

/-! ### the key index stays consistent (inductive step for assignments) -/

/-- every validator's current key on the consumer resolves back to that validator -/
def KeyWF (x : Consumer) : Prop := ∀ v k, assignedKey x v = some k → resolveKey x k = some v

theorem assignedKey_eq (x : Consumer) (v : Nat) : assignedKey x v = (x.ka.find? (·.1 == v)).map (·.2) := by
  unfold assignedKey; cases x.ka.find? (·.1 == v) <;> rfl

theorem resolveKey_eq (x : Consumer) (k : Nat) : resolveKey x k = (x.byaddr.find? (·.1 == k)).map (·.2) := by
  unfold resolveKey; cases x.byaddr.find? (·.1 == k) <;> rfl

/-- an accepted assignment keeps the index consistent: the new key resolves to the validator, and
    every other validator's current key still resolves to its owner (the replaced key keeps
    resolving on a launched consumer, see C06) -/
theorem assign_preserves_keyWF (s : State) (c : CId) (v key : Nat) (t : Time)
    (hok : assignOK s c v key = true) (hwf : KeyWF (s.get c)) :
    KeyWF (assignRecord t v key (s.get c)) := by
  have hfree : resolveKey (s.get c) key = none := by
    unfold assignOK at hok
    simp only [Bool.and_eq_true] at hok
    cases h : resolveKey (s.get c) key with
    | none => rfl
    | some w => rw [h] at hok; simp at hok
  generalize s.get c = x at *
  intro w k hw
  -- the record after the writes
  have hka : (assignRecord t v key x).ka = setAssoc x.ka v key := by
    unfold assignRecord; cases assignedKey x v <;> simp only [] <;> (try split) <;> rfl
  have hby : ∃ base, (assignRecord t v key x).byaddr = setAssoc base key v ∧
      (base = x.byaddr ∨ ∃ old, assignedKey x v = some old ∧ base = x.byaddr.filter fun b => b.1 != old) := by
    unfold assignRecord
    cases ho : assignedKey x v with
    | none => exact ⟨x.byaddr, rfl, Or.inl rfl⟩
    | some old =>
      simp only []
      by_cases hl : (x.phase == Phase.launched) = true
      · simp only [hl, if_true]; exact ⟨x.byaddr, rfl, Or.inl rfl⟩
      · simp only [hl]; exact ⟨_, rfl, Or.inr ⟨old, rfl, rfl⟩⟩
  obtain ⟨base, hbase, hb⟩ := hby
  rw [assignedKey_eq, hka] at hw
  rw [resolveKey_eq, hbase]
  by_cases hwv : w = v
  · subst hwv
    rw [find_setAssoc_same] at hw
    simp only [Option.map_some, Option.some.injEq] at hw
    subst hw
    rw [find_setAssoc_same]; rfl
  · rw [find_setAssoc_other _ _ _ _ hwv] at hw
    have hxw : assignedKey x w = some k := by rw [assignedKey_eq]; exact hw
    have hres := hwf w k hxw
    have hkne : k ≠ key := by
      intro hk; subst hk; rw [hfree] at hres; cases hres
    rw [find_setAssoc_other _ _ _ _ hkne]
    rcases hb with hb | ⟨old, hold, hb⟩
    · rw [hb, ← resolveKey_eq]; exact hres
    · have hkold : k ≠ old := by
        intro hk; subst hk
        have := hwf v k hold
        rw [hres] at this; injection this with this; exact hwv this
      rw [hb, find_filter_ne _ _ _ hkold, ← resolveKey_eq]; exact hres

theorem assignKey_preserves_keyWF (s s' : State) (c : CId) (v key : Nat)
    (h : assignKey s c v key = some s') (hwf : KeyWF (s.get c)) (hid : (s.get c).id = c) :
    KeyWF (s'.get c) := by
  unfold assignKey at h
  by_cases hok : assignOK s c v key = true
  · simp only [hok, if_true, Option.some.injEq] at h
    subst h
    have := assign_preserves_keyWF s c v key (s.now + s.unbonding) hok hwf
    have hg := get_set_same s (assignRecord (s.now + s.unbonding) v key (s.get c))
    rw [assignRecord_id, hid] at hg
    rw [hg]
    exact this
  · simp [hok] at h

/-! ### … and through pruning -/

/-- keys waiting to be pruned are nobody's current key -/
def NotCurrent (x : Consumer) : Prop := ∀ e ∈ x.prune, ∀ k ∈ e.2, ∀ v, assignedKey x v ≠ some k

/-- keys waiting to be pruned still resolve (monitored on the implementation as part of
    `C05.key-inv`; its preservation by pruning is `prune_preserves_resolves` below, under "scheduled at most once") -/
def PruneResolves (x : Consumer) : Prop := ∀ e ∈ x.prune, ∀ k ∈ e.2, (resolveKey x k).isSome = true

theorem mem_pruneAppend (pr : List (Time × List Nat)) (t : Time) (k : Nat) :
    ∀ e ∈ pruneAppend pr t k, ∀ k' ∈ e.2, k' = k ∨ ∃ e0 ∈ pr, k' ∈ e0.2 := by
  intro e he k' hk'
  unfold pruneAppend at he
  split at he
  · rcases List.mem_map.mp he with ⟨e0, he0, rfl⟩
    split at hk'
    · simp only [List.mem_append, List.mem_singleton] at hk'
      rcases hk' with h | h
      · exact Or.inr ⟨e0, he0, h⟩
      · exact Or.inl h
    · exact Or.inr ⟨e0, he0, hk'⟩
  · simp only [List.mem_append, List.mem_singleton, List.mem_filter] at he
    rcases he with (h | h) | h
    · exact Or.inr ⟨e, h.1, hk'⟩
    · subst h; simp only [List.mem_singleton] at hk'; exact Or.inl hk'
    · exact Or.inr ⟨e, h.1, hk'⟩

theorem find_filter_notin (l : List (Nat × Nat)) (keys : List Nat) (k : Nat) (hk : ¬ k ∈ keys) :
    (l.filter fun b => !keys.contains b.1).find? (·.1 == k) = l.find? (·.1 == k) := by
  induction l with
  | nil => rfl
  | cons a t ih =>
    rw [List.filter_cons]
    by_cases ha : (!keys.contains a.1) = true
    · simp only [ha, if_true, List.find?_cons]
      split
      · rfl
      · exact ih
    · have hin : a.1 ∈ keys := by simpa using ha
      have hne : (a.1 == k) = false := by
        simp only [beq_eq_false_iff_ne, ne_eq]; intro h; rw [h] at hin; exact hk hin
      simp only [ha, List.find?_cons, hne]
      exact ih

/-- pruning forgets only keys that are nobody's current key: every current key keeps resolving -/
theorem prune_preserves_keyWF (x : Consumer) (now : Time) (hwf : KeyWF x) (hp : NotCurrent x) :
    KeyWF (pruneKeys x now) ∧ NotCurrent (pruneKeys x now) := by
  have hnotcur : ∀ v k, assignedKey x v = some k →
      ¬ k ∈ (x.prune.filter fun e => decide (e.1 ≤ now)).flatMap (·.2) := by
    intro v k hv hk
    rcases List.mem_flatMap.mp hk with ⟨e, he, hke⟩
    exact hp e (List.mem_filter.mp he).1 k hke v hv
  constructor
  · intro v k hv
    have hv' : assignedKey x v = some k := hv
    have := hwf v k hv'
    rw [resolveKey_eq] at this ⊢
    show ((x.byaddr.filter fun b => !((x.prune.filter fun e => decide (e.1 ≤ now)).flatMap (·.2)).contains b.1).find? (·.1 == k)).map (·.2) = some v
    rw [find_filter_notin _ _ _ (hnotcur v k hv')]
    exact this
  · intro e he k hk v
    exact hp e (List.mem_filter.mp he).1 k hk v

/-- an accepted assignment keeps "waiting keys are nobody's current key": the replaced key is
    scheduled and is no longer current; the new key was not waiting (it did not resolve at all) -/
theorem assign_preserves_notCurrent (s : State) (c : CId) (v key : Nat) (t : Time)
    (hok : assignOK s c v key = true) (hwf : KeyWF (s.get c)) (hp : NotCurrent (s.get c))
    (hr : PruneResolves (s.get c)) : NotCurrent (assignRecord t v key (s.get c)) := by
  have hfree : resolveKey (s.get c) key = none := by
    unfold assignOK at hok
    simp only [Bool.and_eq_true] at hok
    cases h : resolveKey (s.get c) key with
    | none => rfl
    | some w => rw [h] at hok; simp at hok
  generalize s.get c = x at *
  have hka : (assignRecord t v key x).ka = setAssoc x.ka v key := by
    unfold assignRecord; cases assignedKey x v <;> simp only [] <;> (try split) <;> rfl
  -- current keys after the assignment
  have hcur : ∀ w k, assignedKey (assignRecord t v key x) w = some k →
      (w = v ∧ k = key) ∨ (w ≠ v ∧ assignedKey x w = some k) := by
    intro w k hw
    rw [assignedKey_eq, hka] at hw
    by_cases hwv : w = v
    · subst hwv
      rw [find_setAssoc_same] at hw
      simp only [Option.map_some, Option.some.injEq] at hw
      exact Or.inl ⟨rfl, hw.symm⟩
    · rw [find_setAssoc_other _ _ _ _ hwv] at hw
      exact Or.inr ⟨hwv, by rw [assignedKey_eq]; exact hw⟩
  -- keys waiting after the assignment: the old ones, plus the replaced key on a launched consumer
  have hprune : ∀ e ∈ (assignRecord t v key x).prune, ∀ k ∈ e.2,
      (∃ e0 ∈ x.prune, k ∈ e0.2) ∨ assignedKey x v = some k := by
    intro e he k hk
    unfold assignRecord at he
    cases ho : assignedKey x v with
    | none => simp only [ho] at he; exact Or.inl ⟨e, he, hk⟩
    | some old =>
      simp only [ho] at he
      by_cases hl : (x.phase == Phase.launched) = true
      · simp only [hl, if_true] at he
        rcases mem_pruneAppend x.prune t old e he k hk with h | h
        · exact Or.inr (by rw [h])
        · exact Or.inl h
      · simp only [hl] at he; exact Or.inl ⟨e, he, hk⟩
  intro e he k hk w hw
  rcases hprune e he k hk with ⟨e0, he0, hk0⟩ | hold
  · rcases hcur w k hw with ⟨_, hkk⟩ | ⟨_, hxw⟩
    · -- the new key would be waiting already: then it would resolve
      have := hr e0 he0 k hk0
      rw [hkk, hfree] at this; cases this
    · exact hp e0 he0 k hk0 w hxw
  · rcases hcur w k hw with ⟨_, hkk⟩ | ⟨hwv, hxw⟩
    · -- the replaced key equals the new key: but the replaced key resolves
      have := hwf v k hold
      rw [hkk, hfree] at this; cases this
    · have h1 := hwf v k hold
      have h2 := hwf w k hxw
      rw [h1] at h2; injection h2 with h2; exact hwv h2.symm

/-! ### waiting keys keep resolving through pruning -/

/-- every waiting key is scheduled for pruning at most once -/
def PruneOnce (x : Consumer) : Prop := (x.prune.flatMap (·.2)).Nodup

theorem flatMap_filter_sublist (l : List (Time × List Nat)) (p : Time × List Nat → Bool) :
    ((l.filter p).flatMap (·.2)).Sublist (l.flatMap (·.2)) := by
  induction l with
  | nil => exact List.Sublist.refl _
  | cons a t ih =>
    rw [List.filter_cons]
    split
    · simp only [List.flatMap_cons]
      exact List.Sublist.append (List.Sublist.refl _) ih
    · simp only [List.flatMap_cons]
      exact List.Sublist.trans ih (List.sublist_append_right _ _)

/-- a key scheduled once cannot be in an entry that is due and in one that is not -/
theorem once_separates (l : List (Time × List Nat)) (p : Time × List Nat → Bool)
    (h : (l.flatMap (·.2)).Nodup) (e e' : Time × List Nat) (he : e ∈ l) (he' : e' ∈ l)
    (hp : p e = true) (hp' : p e' = false) (k : Nat) (hk : k ∈ e.2) (hk' : k ∈ e'.2) : False := by
  induction l with
  | nil => cases he
  | cons a t ih =>
    simp only [List.flatMap_cons] at h
    rcases List.nodup_append.mp h with ⟨_, ht, hd⟩
    rcases List.mem_cons.mp he with rfl | het
    · rcases List.mem_cons.mp he' with rfl | het'
      · rw [hp] at hp'; cases hp'
      · exact hd k hk k (List.mem_flatMap.mpr ⟨e', het', hk'⟩) rfl
    · rcases List.mem_cons.mp he' with rfl | het'
      · exact hd k hk' k (List.mem_flatMap.mpr ⟨e, het, hk⟩) rfl
      · exact ih ht het het'

/-- pruning keeps "every waiting key still resolves" and "scheduled at most once": the keys it
    forgets are exactly those of the due entries, and a key that keeps waiting is in none of them -/
theorem prune_preserves_resolves (x : Consumer) (now : Time) (hr : PruneResolves x) (ho : PruneOnce x) :
    PruneResolves (pruneKeys x now) ∧ PruneOnce (pruneKeys x now) := by
  constructor
  · intro e he k hk
    have hmem := List.mem_filter.mp he
    have hlate : decide (now < e.1) = true := hmem.2
    have hnotdue : decide (e.1 ≤ now) = false := by
      have : now < e.1 := of_decide_eq_true hlate
      exact decide_eq_false (Int.not_le.mpr this)
    have hnotin : ¬ k ∈ (x.prune.filter fun e => decide (e.1 ≤ now)).flatMap (·.2) := by
      intro hin
      rcases List.mem_flatMap.mp hin with ⟨e', he', hk'⟩
      have hm' := List.mem_filter.mp he'
      exact once_separates x.prune (fun e => decide (e.1 ≤ now)) ho e' e hm'.1 hmem.1 hm'.2 hnotdue k hk' hk
    have := hr e hmem.1 k hk
    rw [resolveKey_eq] at this ⊢
    show (((x.byaddr.filter fun b => !((x.prune.filter fun e => decide (e.1 ≤ now)).flatMap (·.2)).contains b.1).find? (·.1 == k)).map (·.2)).isSome = true
    rw [find_filter_notin _ _ _ hnotin]
    exact this
  · exact List.Nodup.sublist (flatMap_filter_sublist x.prune _) ho

example : PruneOnce { (default : Consumer) with prune := [(3, [7, 8]), (5, [9])] } := by
  unfold PruneOnce; decide

theorem isSome_find_setAssoc (l : List (Nat × Nat)) (key v k : Nat)
    (h : ((l.find? (·.1 == k)).map (·.2)).isSome = true) :
    (((setAssoc l key v).find? (·.1 == k)).map (·.2)).isSome = true := by
  by_cases hk : k = key
  · subst hk; rw [find_setAssoc_same]; rfl
  · rw [find_setAssoc_other _ _ _ _ hk]; exact h

/-- an assignment keeps "every waiting key still resolves": on a launched consumer the replaced
    key joins the waiting keys and keeps its index entry; before launch the replaced key's index
    entry is dropped, and that key was not waiting (it was current) -/
theorem assign_preserves_resolves (x : Consumer) (t : Time) (v key : Nat)
    (hwf : KeyWF x) (hp : NotCurrent x) (hr : PruneResolves x) :
    PruneResolves (assignRecord t v key x) := by
  intro e he k hk
  rw [resolveKey_eq]
  unfold assignRecord at he ⊢
  cases ho : assignedKey x v with
  | none =>
    simp only [ho] at he ⊢
    have := hr e he k hk
    rw [resolveKey_eq] at this
    exact isSome_find_setAssoc _ _ _ _ this
  | some old =>
    simp only [ho] at he ⊢
    by_cases hl : (x.phase == Phase.launched) = true
    · simp only [hl, if_true] at he ⊢
      apply isSome_find_setAssoc
      rcases mem_pruneAppend x.prune t old e he k hk with h | ⟨e0, he0, hk0⟩
      · have := hwf v old ho
        rw [resolveKey_eq] at this
        rw [h, this]; rfl
      · have := hr e0 he0 k hk0
        rw [resolveKey_eq] at this
        exact this
    · simp only [hl] at he ⊢
      apply isSome_find_setAssoc
      have hne : k ≠ old := by
        intro h; exact hp e he k hk v (by rw [ho, h])
      have := hr e he k hk
      rw [resolveKey_eq] at this
      show (((x.byaddr.filter fun b => b.1 != old).find? (·.1 == k)).map (·.2)).isSome = true
      rw [find_filter_ne _ _ _ hne]
      exact this

/-! ### "scheduled once" through assignments; the closed invariant -/

/-- the prune schedule has one entry per time (the implementation keys the store by the time) -/
def PruneTimes (x : Consumer) : Prop := (x.prune.map (·.1)).Nodup

abbrev cntK (pr : List (Time × List Nat)) (k : Nat) : Nat := (pr.flatMap (·.2)).count k

theorem cntK_cons (a : Time × List Nat) (pr : List (Time × List Nat)) (k : Nat) :
    cntK (a :: pr) k = a.2.count k + cntK pr k := by
  simp [cntK, List.flatMap_cons, List.count_append]

theorem cntK_append (a b : List (Time × List Nat)) (k : Nat) : cntK (a ++ b) k = cntK a k + cntK b k := by
  simp [cntK, List.flatMap_append, List.count_append]

theorem map_id_of_no_time (pr : List (Time × List Nat)) (t : Time) (k : Nat)
    (h : ∀ e ∈ pr, e.1 ≠ t) :
    (pr.map fun e => if e.1 == t then (t, e.2 ++ [k]) else e) = pr := by
  induction pr with
  | nil => rfl
  | cons a rest ih =>
    have ha : (a.1 == t) = false := by simpa using h a (by simp)
    simp only [List.map_cons, ha, Bool.false_eq_true, if_false]
    rw [ih (fun e he => h e (by simp [he]))]

theorem cntK_map_le (pr : List (Time × List Nat)) (t : Time) (k k' : Nat)
    (hn : (pr.map (·.1)).Nodup) :
    cntK (pr.map fun e => if e.1 == t then (t, e.2 ++ [k]) else e) k'
      ≤ cntK pr k' + (if k' = k then 1 else 0) := by
  induction pr with
  | nil => simp [cntK]
  | cons a rest ih =>
    simp only [List.map_cons] at hn
    rcases List.nodup_cons.mp hn with ⟨hnot, hrest⟩
    by_cases ha : (a.1 == t) = true
    · have hat : a.1 = t := by simpa using ha
      have hno : ∀ e ∈ rest, e.1 ≠ t := by
        intro e he h
        apply hnot; rw [hat, ← h]; exact List.mem_map.mpr ⟨e, he, rfl⟩
      simp only [List.map_cons, ha, if_true]
      rw [map_id_of_no_time rest t k hno, cntK_cons, cntK_cons]
      simp only [List.count_append, List.count_singleton]
      by_cases hk : k' = k
      · subst hk; simp; omega
      · have : (k == k') = false := by simp; exact fun h => hk h.symm
        simp [hk, this]
    · simp only [List.map_cons, ha, Bool.false_eq_true, if_false]
      rw [cntK_cons, cntK_cons]
      have := ih hrest
      omega

theorem cntK_filter_disjoint (pr : List (Time × List Nat)) (p q : Time × List Nat → Bool)
    (hpq : ∀ e, ¬ (p e = true ∧ q e = true)) (k : Nat) :
    cntK (pr.filter p) k + cntK (pr.filter q) k ≤ cntK pr k := by
  induction pr with
  | nil => simp [cntK]
  | cons a rest ih =>
    rw [List.filter_cons, List.filter_cons, cntK_cons]
    by_cases hp : p a = true
    · have hq : ¬ q a = true := fun h => hpq a ⟨hp, h⟩
      simp only [hp, hq, Bool.false_eq_true, ↓reduceIte, cntK_cons]; omega
    · by_cases hq : q a = true
      · simp only [hp, hq, Bool.false_eq_true, ↓reduceIte, cntK_cons]; omega
      · simp only [hp, hq, Bool.false_eq_true, ↓reduceIte]; omega

/-- AppendConsumerAddrsToPrune adds one entry for the key and none for anybody else -/
theorem cntK_pruneAppend_le (pr : List (Time × List Nat)) (t : Time) (k k' : Nat)
    (hn : (pr.map (·.1)).Nodup) :
    cntK (pruneAppend pr t k) k' ≤ cntK pr k' + (if k' = k then 1 else 0) := by
  unfold pruneAppend
  split
  · exact cntK_map_le pr t k k' hn
  · rw [cntK_append, cntK_append]
    have h := cntK_filter_disjoint pr (fun e => decide (e.1 < t)) (fun e => decide (t < e.1))
      (by intro e ⟨h1, h2⟩
          have a1 := of_decide_eq_true h1
          have a2 := of_decide_eq_true h2
          exact absurd a2 (Int.not_lt.mpr (Int.le_of_lt a1))) k'
    have hs : cntK [(t, [k])] k' = if k' = k then 1 else 0 := by
      simp only [cntK, List.flatMap_cons, List.flatMap_nil, List.append_nil, List.count_singleton]
      by_cases hk : k' = k
      · subst hk; simp
      · have : (k == k') = false := by simp; exact fun h => hk h.symm
        simp [hk, this]
    rw [hs]
    omega

theorem times_pruneAppend (pr : List (Time × List Nat)) (t : Time) (k : Nat)
    (hn : (pr.map (·.1)).Nodup) : ((pruneAppend pr t k).map (·.1)).Nodup := by
  unfold pruneAppend
  split
  · have : ((pr.map fun e => if e.1 == t then (t, e.2 ++ [k]) else e).map (·.1)) = pr.map (·.1) := by
      rw [List.map_map]
      apply List.map_congr_left
      intro e _
      simp only [Function.comp]
      by_cases he : (e.1 == t) = true
      · have : e.1 = t := by simpa using he
        simp only [he, if_true]; exact this.symm
      · simp only [he, Bool.false_eq_true, if_false]
    rw [this]; exact hn
  · simp only [List.map_append, List.map_cons, List.map_nil]
    have hlt : ∀ a ∈ (pr.filter fun e => decide (e.1 < t)).map (·.1), a < t := by
      intro a ha
      rcases List.mem_map.mp ha with ⟨e, he, rfl⟩
      exact of_decide_eq_true (List.mem_filter.mp he).2
    have hgt : ∀ a ∈ (pr.filter fun e => decide (t < e.1)).map (·.1), t < a := by
      intro a ha
      rcases List.mem_map.mp ha with ⟨e, he, rfl⟩
      exact of_decide_eq_true (List.mem_filter.mp he).2
    have n1 : ((pr.filter fun e => decide (e.1 < t)).map (·.1)).Nodup :=
      List.Nodup.sublist (List.Sublist.map _ List.filter_sublist) hn
    have n2 : ((pr.filter fun e => decide (t < e.1)).map (·.1)).Nodup :=
      List.Nodup.sublist (List.Sublist.map _ List.filter_sublist) hn
    refine List.nodup_append.mpr ⟨List.nodup_append.mpr ⟨n1, by simp, ?_⟩, n2, ?_⟩
    · intro a ha b hb
      simp only [List.mem_singleton] at hb
      subst hb
      exact Int.ne_of_lt (hlt a ha)
    · intro a ha b hb
      have hb' := hgt b hb
      rcases List.mem_append.mp ha with h | h
      · exact Int.ne_of_lt (Int.lt_trans (hlt a h) hb')
      · simp only [List.mem_singleton] at h
        subst h
        exact Int.ne_of_lt hb'

theorem prune_of_assignRecord (x : Consumer) (t : Time) (v key : Nat) :
    (assignRecord t v key x).prune = x.prune ∨
    ∃ old, assignedKey x v = some old ∧ (assignRecord t v key x).prune = pruneAppend x.prune t old := by
  unfold assignRecord
  cases ho : assignedKey x v with
  | none => left; rfl
  | some old =>
    by_cases hl : (x.phase == Phase.launched) = true
    · right; exact ⟨old, rfl, by simp only [hl, if_true]⟩
    · left; simp only [hl]; rfl

/-- an assignment keeps "one entry per time" and "every waiting key is scheduled once": the only
    key it schedules is the replaced one, which was current and therefore not waiting -/
theorem assign_preserves_once (x : Consumer) (t : Time) (v key : Nat)
    (hp : NotCurrent x) (ht : PruneTimes x) (ho : PruneOnce x) :
    PruneTimes (assignRecord t v key x) ∧ PruneOnce (assignRecord t v key x) := by
  rcases prune_of_assignRecord x t v key with h | ⟨old, hold, h⟩
  · unfold PruneTimes PruneOnce; rw [h]; exact ⟨ht, ho⟩
  · unfold PruneTimes PruneOnce; rw [h]
    refine ⟨times_pruneAppend _ _ _ ht, ?_⟩
    rw [List.nodup_iff_count]
    intro k'
    have hle := cntK_pruneAppend_le x.prune t old k' ht
    have hone : cntK x.prune k' ≤ 1 := (List.nodup_iff_count.mp ho) k'
    by_cases hk : k' = old
    · subst hk
      have hzero : cntK x.prune k' = 0 := by
        apply List.count_eq_zero.mpr
        intro hin
        rcases List.mem_flatMap.mp hin with ⟨e, he, hke⟩
        exact hp e he k' hke v hold
      simp only [if_true] at hle
      show cntK (pruneAppend x.prune t k') k' ≤ 1
      omega
    · simp only [hk, if_false] at hle
      show cntK (pruneAppend x.prune t old) k' ≤ 1
      omega

theorem prune_preserves_times (x : Consumer) (now : Time) (ht : PruneTimes x) :
    PruneTimes (pruneKeys x now) :=
  List.Nodup.sublist (List.Sublist.map _ List.filter_sublist) ht

/-- the key-index invariant of one consumer, closed under accepted assignments and pruning -/
structure KeyInv (x : Consumer) : Prop where
  wf : KeyWF x
  notCurrent : NotCurrent x
  resolves : PruneResolves x
  times : PruneTimes x
  once : PruneOnce x

theorem keyInv_assign (s : State) (c : CId) (v key : Nat) (t : Time)
    (hok : assignOK s c v key = true) (h : KeyInv (s.get c)) :
    KeyInv (assignRecord t v key (s.get c)) :=
  let ho := assign_preserves_once (s.get c) t v key h.notCurrent h.times h.once
  { wf := assign_preserves_keyWF s c v key t hok h.wf
    notCurrent := assign_preserves_notCurrent s c v key t hok h.wf h.notCurrent h.resolves
    resolves := assign_preserves_resolves (s.get c) t v key h.wf h.notCurrent h.resolves
    times := ho.1
    once := ho.2 }

theorem keyInv_prune (x : Consumer) (now : Time) (h : KeyInv x) : KeyInv (pruneKeys x now) :=
  let a := prune_preserves_keyWF x now h.wf h.notCurrent
  let b := prune_preserves_resolves x now h.resolves h.once
  { wf := a.1, notCurrent := a.2, resolves := b.1, times := prune_preserves_times x now h.times, once := b.2 }

/-- a freshly created consumer record satisfies it -/
theorem keyInv_blank (x : Consumer) (hk : x.ka = []) (hp : x.prune = []) : KeyInv x where
  wf := by intro v k h; rw [assignedKey_eq, hk] at h; cases h
  notCurrent := by intro e he; rw [hp] at he; cases he
  resolves := by intro e he; rw [hp] at he; cases he
  times := by unfold PruneTimes; rw [hp]; exact List.nodup_nil
  once := by unfold PruneOnce; rw [hp]; exact List.nodup_nil

/-- non-vacuity: a launched consumer whose validator replaces its key has a waiting key -/
example : (assignRecord 5 1 11 (assignRecord 5 1 10 { (default : Consumer) with phase := Phase.launched })).prune
    = [(5, [10])] := by decide

end ICS.Props.C05
