/-
  C02 — Only eligible bonded provider validators secure a consumer, at provider power.
-/
import ICS.Model.Epoch
import ICS.Lemmas.Cap
import ICS.Props.C04
namespace ICS.Props.C02
open ICS ICS.Epoch ICS.Shaping

/-- every candidate is a bonded validator returned by staking -/
theorem candidates_subset (inp : Input) : ∀ v ∈ candidates inp, v ∈ inp.bonded := by
  intro v hv
  unfold candidates at hv
  simp only at hv
  split at hv
  · exact (isort_perm _ _).mem_iff.mp hv
  · exact (isort_perm _ _).mem_iff.mp (List.mem_of_mem_take hv)

/-- eligibility is exactly the documented filter -/
theorem eligible_iff (inp : Input) (optin : List Nat) (minP v : Nat) :
    v ∈ eligible inp optin minP ↔
      v ∈ candidates inp ∧ canValidate inp optin minP v = true ∧ fulfillsMinStake inp v = true := by
  unfold eligible
  simp [List.mem_filter, Bool.and_eq_true]

/-- **Active set.**  If staking returns the bonded validators in non-increasing voting power (its
    power-index order, A-STK-SORT), then for a consumer that does not allow inactive validators the
    candidates are exactly the provider's own active set: the first M of that list.
    (This is the statement that was false before fix 238ecde, where the list was re-sorted by tokens.) -/
theorem candidates_are_active_set (inp : Input) (hin : inp.ps.inactive = false)
    (hsorted : inp.bonded.Pairwise (fun a b => lastPower inp.stk a ≥ lastPower inp.stk b)) :
    candidates inp = inp.bonded.take inp.m := by
  unfold candidates
  simp only [hin, Bool.false_eq_true, if_false]
  rw [isort_of_pairwise]
  exact hsorted.imp (by intro a b h; simpa using h)

/-- with inactive validators allowed, all bonded validators are candidates -/
theorem candidates_all_when_inactive_allowed (inp : Input) (hin : inp.ps.inactive = true) :
    (candidates inp).Perm inp.bonded := by
  unfold candidates
  simp only [hin, if_true]
  exact isort_perm _ _

theorem createCV_fields (inp : Input) (v : Nat) :
    (createCV inp v).v = v ∧ (createCV inp v).power = lastPower inp.stk v ∧
    (createCV inp v).key = (match inp.ka.find? (·.1 == v) with | some p => p.2 | none => v) := by
  unfold createCV; exact ⟨rfl, rfl, rfl⟩

/-- **Soundness, key.**  Every member of the computed set is an eligible validator — a bonded
    candidate that is opted in (or required by Top-N), permitted by allow/deny list and minimum
    stake — and carries the key it assigned for this consumer or else its provider key. -/
theorem next_sound (inp : Input) (optin : List Nat) (minP : Nat) :
    ∀ c ∈ computeNextValidators inp optin minP,
      c.v ∈ eligible inp optin minP ∧
      c.key = (match inp.ka.find? (·.1 == c.v) with | some p => p.2 | none => c.v) := by
  intro c hc
  unfold computeNextValidators at hc
  simp only at hc
  rw [List.mem_filterMap] at hc
  obtain ⟨s, _, hs⟩ := hc
  split at hs
  · rename_i c0 hfind
    simp only [Option.some.injEq] at hs
    subst hs
    have hm := List.mem_of_find?_eq_some hfind
    obtain ⟨v, hv, rfl⟩ := List.mem_map.mp hm
    exact ⟨hv, rfl⟩
  · cases hs

/-- **Power.**  Without a power cap the consumer power of every member equals its provider power. -/
theorem next_power_uncapped (inp : Input) (optin : List Nat) (minP : Nat) (hcap : inp.ps.powCap = 0) :
    ∀ c ∈ computeNextValidators inp optin minP, c.power = lastPower inp.stk c.v := by
  intro c hc
  unfold computeNextValidators at hc
  simp only at hc
  rw [List.mem_filterMap] at hc
  obtain ⟨s, hsm, hs⟩ := hc
  -- without a cap, the shaped list is a sub-list of the ranked list, whose entries carry provider power
  unfold capValidatorsPower at hsm
  simp only [hcap, Nat.lt_irrefl, decide_false, Bool.false_eq_true, if_false] at hsm
  have hranked : s ∈ rankByPriority (fun v => inp.prio.contains v)
      (((eligible inp optin minP).map (createCV inp)).map fun c => ({ id := c.v, power := c.power } : Shaping.CV)) := by
    unfold capValidatorSet at hsm
    split at hsm
    · exact hsm
    · split at hsm
      · exact List.mem_of_mem_take hsm
      · exact hsm
  have hin := (C04.ranked_perm _ _).mem_iff.mp hranked
  rw [List.mem_map] at hin
  obtain ⟨c1, hc1, rfl⟩ := hin
  obtain ⟨v1, _, rfl⟩ := List.mem_map.mp hc1
  split at hs
  · rename_i c0 hfind
    simp only [Option.some.injEq] at hs
    subst hs
    have hk : c0.v = (createCV inp v1).v := by simpa using List.find?_some hfind
    simp only
    rw [hk]; rfl
  · cases hs

/-- **Completeness.**  When no validator-set cap applies (Top-N consumer, or cap 0) every eligible
    validator is in the computed set. -/
theorem next_complete (inp : Input) (optin : List Nat) (minP : Nat)
    (hnocap : inp.ps.setCap = 0 ∨ inp.ps.topN > 0) :
    ∀ v ∈ eligible inp optin minP, ∃ c ∈ computeNextValidators inp optin minP, c.v = v := by
  intro v hv
  unfold computeNextValidators
  simp only
  -- the shaped list has the same ids as the eligible list
  have hcapnoop : capValidatorSet inp.ps.topN inp.ps.setCap
      (rankByPriority (fun v => inp.prio.contains v)
        (((eligible inp optin minP).map (createCV inp)).map fun c => ({ id := c.v, power := c.power } : Shaping.CV)))
      = rankByPriority (fun v => inp.prio.contains v)
        (((eligible inp optin minP).map (createCV inp)).map fun c => ({ id := c.v, power := c.power } : Shaping.CV)) := by
    unfold capValidatorSet
    rcases hnocap with h | h
    · simp [h]
    · simp [h]
  rw [hcapnoop]
  have hidmem : v ∈ (capValidatorsPower inp.ps.powCap (rankByPriority (fun v => inp.prio.contains v)
        (((eligible inp optin minP).map (createCV inp)).map fun c => ({ id := c.v, power := c.power } : Shaping.CV)))).map (·.id) := by
    have hr : v ∈ (rankByPriority (fun v => inp.prio.contains v)
        (((eligible inp optin minP).map (createCV inp)).map fun c => ({ id := c.v, power := c.power } : Shaping.CV))).map (·.id) := by
      apply ((C04.ranked_perm _ _).map _).mem_iff.mpr
      simp only [List.map_map, List.mem_map, Function.comp]
      exact ⟨v, hv, rfl⟩
    unfold capValidatorsPower
    split
    · exact ((C04.pc_same_ids _ _)).mem_iff.mpr hr
    · exact hr
  obtain ⟨s, hs, hsid⟩ := List.mem_map.mp hidmem
  -- the lookup back into the eligible records succeeds
  have hfind : ∃ c0, ((eligible inp optin minP).map (createCV inp)).find? (·.v == s.id) = some c0 ∧ c0.v = v := by
    have hex : ((eligible inp optin minP).map (createCV inp)).any (·.v == s.id) = true := by
      rw [List.any_eq_true]
      exact ⟨createCV inp v, List.mem_map.mpr ⟨v, hv, rfl⟩, by simp [hsid, createCV]⟩
    cases hf : ((eligible inp optin minP).map (createCV inp)).find? (·.v == s.id) with
    | none =>
      rw [List.find?_eq_none] at hf
      rw [List.any_eq_true] at hex
      obtain ⟨x, hx, hxx⟩ := hex
      exact absurd hxx (hf x hx)
    | some c0 =>
      have : c0.v = s.id := by simpa using List.find?_some hf
      exact ⟨c0, rfl, by rw [this, hsid]⟩
  obtain ⟨c0, hc0, hv0⟩ := hfind
  refine ⟨{ c0 with power := s.power }, ?_, hv0⟩
  rw [List.mem_filterMap]
  exact ⟨s, hs, by simp [hc0]⟩

/-! ### non-vacuity: the F1 situation — equal power, different tokens, M = 1 -/
example :
    let inp : Input := {
      stk := [{ id := 0, tokens := 5100000, status := 3, jailed := false, lastPower := 5 },
              { id := 1, tokens := 5900000, status := 3, jailed := false, lastPower := 5 }],
      bonded := [0, 1], m := 1, height := 7, ps := {}, allow := [], deny := [], prio := [],
      optin := [0, 1], ka := [(1, 40)], current := [] }
    candidates inp = [0] ∧
    computeNextValidators inp inp.optin 0 = [{ v := 0, key := 0, power := 5, join := 7 }] := by decide

end ICS.Props.C02
