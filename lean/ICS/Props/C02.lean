/-
  C02 — Only eligible bonded provider validators secure a consumer, at provider power.
-/
import ICS.Model.Epoch
import ICS.Lemmas.Cap
namespace ICS.Props.C02
open ICS ICS.Epoch ICS.Shaping

/-- every candidate is a bonded validator returned by staking -/
theorem candidates_subset (inp : Input) : ∀ v ∈ candidates inp, v ∈ inp.bonded := by
  intro v hv
  unfold candidates at hv
  simp only at hv
  split at hv
  · exact (isort_perm _ _).mem_iff.mp hv
  · exact (isort_perm _ _).mem_iff.mp (List.mem_of_mem_take hv)

/-- eligibility is exactly the documented filter -/
theorem eligible_iff (inp : Input) (optin : List Nat) (minP v : Nat) :
    v ∈ eligible inp optin minP ↔
      v ∈ candidates inp ∧ canValidate inp optin minP v = true ∧ fulfillsMinStake inp v = true := by
  unfold eligible
  simp [List.mem_filter, Bool.and_eq_true]

end ICS.Props.C02
