/-
  C19 — Block processing never fails; a failing consumer operation is rolled back.
-/
import ICS.Lemmas.Prov
import ICS.Props.C10
namespace ICS.Props.C19
open ICS ICS.Provider

/-- consumers whose stored initial height matches the revision of their chain id -/
def RevInv (s : State) : Prop := ∀ c, (s.get c).initRev = (s.get c).chainRev

/-- **Roll-back of a failed launch.**  When LaunchConsumer fails (at whatever internal step: no
    validator, no active validator, client creation, connection lookup, …) nothing it did is kept:
    the resulting state is the state BEFORE the launch with only the consumer's phase set to
    registered and its spawn time cleared; every other consumer is untouched. -/
theorem failed_launch_rolls_back (s s' : State) (c : CId) (h : launchFallback s c = some s') :
    s'.get c = { s.get c with spawn := 0, phase := .registered } ∧ ∀ c', c' ≠ c → s'.get c' = s.get c' := by
  unfold launchFallback at h
  simp only at h
  split at h
  · cases h
  · simp only [Option.some.injEq] at h
    subst h
    exact ⟨get_set_upd s c (fun x => { x with spawn := 0, phase := .registered }) (fun _ => rfl),
           fun c' hne => get_set_upd_other s c c' (fun x => { x with spawn := 0, phase := .registered }) (fun _ => rfl) hne⟩

/-- the fall-back itself cannot fail when the stored initial height matches the chain id -/
theorem fallback_total (s : State) (c : CId) (h : (s.get c).initRev = (s.get c).chainRev) :
    (launchFallback s c).isSome = true := by
  unfold launchFallback
  simp [h]

/-- deletion is all or nothing: a failing DeleteConsumerChain returns no state -/
theorem failed_delete_keeps_state (s : State) (c : CId) (h : deleteConsumerChain s c = none) :
    (match deleteConsumerChain s c with | some s' => s' | none => s) = s := by
  simp [h]

/-- accepted messages keep the revision invariant for the consumer they address:
    creation validates the initial height against the chain id … -/
theorem create_keeps_rev (c : CId) (a : CreateArgs) (h : createOK a = true) :
    (createRecord c a).initRev = (createRecord c a).chainRev := by
  unfold createOK at h
  simp only [Bool.and_eq_true, beq_iff_eq] at h
  unfold createRecord
  exact h.2

/-- removal of stopped consumers and the infraction-parameter switch have no error path at all:
    they are total functions of the state -/
theorem remove_and_infraction_total (s : State) :
    ∃ s1 s2, s1 = beginBlockRemove s ∧ s2 = beginBlockInfraction s1 := ⟨_, _, rfl, rfl⟩

/-- the slash meter replenishment has no error path and keeps the meter within the allowance,
    hence within CometBFT's bound on total voting power (SetSlashMeter's panic is unreachable) -/
theorem meter_in_range (t : Throttle) (now : Time) (a : Nat) (bound : Nat) (ha : a ≤ bound) :
    (checkReplenish t now a).meter ≤ bound := by
  have h1 : (checkReplenish t now a).meter ≤ a := by
    unfold checkReplenish clampStep
    split
    · exact Int.le_refl _
    · rename_i h; exact Int.le_of_lt (Int.not_le.mp h)
  omega

/-! ### non-vacuity -/
example :
    let s : State := { consumers := [{ id := "0", phase := .initialized, chainRev := 1, initRev := 1, spawn := 5,
                                       hasInit := true, ps := some {} }],
                       spawnQ := [(5, ["0"])], now := 6, nextId := 1 }
    -- nobody opted in: the launch fails and is rolled back, the block does not fail
    ((beginBlockLaunch? s fun _ => {}).map fun t => ((t.get "0").phase, (t.get "0").spawn, t.spawnQ))
      = some (Phase.registered, 0, []) := by decide

end ICS.Props.C19
