/-
  C19 — Block processing never fails; a failing consumer operation is rolled back.
-/
import ICS.Lemmas.Prov
import ICS.Props.C10
namespace ICS.Props.C19
open ICS ICS.Provider

/-- consumers whose stored initial height matches the revision of their chain id -/
def RevInv (s : State) : Prop := ∀ c, (s.get c).initRev = (s.get c).chainRev

/-- **Roll-back of a failed launch.**  When LaunchConsumer fails (at whatever internal step: no
    validator, no active validator, client creation, connection lookup, …) nothing it did is kept:
    the resulting state is the state BEFORE the launch with only the consumer's phase set to
    registered and its spawn time cleared; every other consumer is untouched. -/
theorem failed_launch_rolls_back (s s' : State) (c : CId) (h : launchFallback s c = some s') :
    s'.get c = { s.get c with spawn := 0, phase := .registered } ∧ ∀ c', c' ≠ c → s'.get c' = s.get c' := by
  unfold launchFallback at h
  simp only at h
  split at h
  · cases h
  · simp only [Option.some.injEq] at h
    subst h
    exact ⟨get_set_upd s c (fun x => { x with spawn := 0, phase := .registered }) (fun _ => rfl),
           fun c' hne => get_set_upd_other s c c' (fun x => { x with spawn := 0, phase := .registered }) (fun _ => rfl) hne⟩

/-- the fall-back itself cannot fail when the stored initial height matches the chain id -/
theorem fallback_total (s : State) (c : CId) (h : (s.get c).initRev = (s.get c).chainRev) :
    (launchFallback s c).isSome = true := by
  unfold launchFallback
  simp [h]

/-- deletion is all or nothing: a failing DeleteConsumerChain returns no state -/
theorem failed_delete_keeps_state (s : State) (c : CId) (h : deleteConsumerChain s c = none) :
    (match deleteConsumerChain s c with | some s' => s' | none => s) = s := by
  simp [h]

/-- accepted messages keep the revision invariant for the consumer they address:
    creation validates the initial height against the chain id … -/
theorem create_keeps_rev (c : CId) (a : CreateArgs) (h : createOK a = true) :
    (createRecord c a).initRev = (createRecord c a).chainRev := by
  unfold createOK at h
  simp only [Bool.and_eq_true, beq_iff_eq] at h
  unfold createRecord
  exact h.2

/-- `get` ignores everything of a state but its consumers -/
theorem get_congr (s t : State) (h : s.consumers = t.consumers) (c : CId) : s.get c = t.get c := by
  unfold State.get; rw [h]

/-- rewriting the queued infraction parameters of a consumer leaves revision numbers alone -/
theorem setq_rev (s : State) (c : CId) (q : Option Infr) :
    ((s.set { s.get c with qinfr := q }).get c).initRev = (s.get c).initRev ∧
    ((s.set { s.get c with qinfr := q }).get c).chainRev = (s.get c).chainRev := by
  have := get_set_upd s c (fun x => { x with qinfr := q }) (fun _ => rfl)
  rw [this]; exact ⟨rfl, rfl⟩

theorem clearQueued_rev (s : State) (c : CId) :
    ((clearQueued s c).get c).initRev = (s.get c).initRev ∧ ((clearQueued s c).get c).chainRev = (s.get c).chainRev := by
  have h := get_congr (clearQueued s c) (s.set { s.get c with qinfr := none }) rfl c
  rw [h]; exact setq_rev s c none

theorem updateQueuedInfr_rev (s : State) (c : CId) (new : Infr) :
    ((updateQueuedInfr s c new).get c).initRev = (s.get c).initRev ∧
    ((updateQueuedInfr s c new).get c).chainRev = (s.get c).chainRev := by
  unfold updateQueuedInfr
  simp only []
  split
  · exact clearQueued_rev s c
  · have h := get_congr ({ ((clearQueued s c).set { (clearQueued s c).get c with qinfr := some new }) with
        infrQ := tqAppend (clearQueued s c).infrQ ((clearQueued s c).now + (clearQueued s c).unbonding) c })
      ((clearQueued s c).set { (clearQueued s c).get c with qinfr := some new }) rfl c
    rw [h]
    have a := setq_rev (clearQueued s c) c (some new)
    have b := clearQueued_rev s c
    exact ⟨a.1.trans b.1, a.2.trans b.2⟩

theorem updateMinPower_rev (s : State) (x y : Consumer) (o n : Nat) (h : updateMinPower s x o n = some y) :
    y.initRev = x.initRev ∧ y.chainRev = x.chainRev ∧ y.id = x.id := by
  unfold updateMinPower at h
  split at h
  · split at h
    · simp only [] at h
      split at h
      · injection h with h; subst h; exact ⟨rfl, rfl, rfl⟩
      · cases h
    · injection h with h; subst h; exact ⟨rfl, rfl, rfl⟩
  · injection h with h; subst h; exact ⟨rfl, rfl, rfl⟩

/-- after every accepted MsgUpdateConsumer the stored initial-height revision equals the revision of
    the (possibly new) chain id — the agreement the fall-back of a failed launch relies on (F3) -/
theorem update_keeps_rev (s : State) (a : UpdateArgs) (r : State × Time) (h : updateCore s a = some r) :
    (r.1.get a.c).initRev = (r.1.get a.c).chainRev := by
  unfold updateCore at h
  split at h
  · cases h
  · simp only [] at h
    split at h
    · cases h
    · rename_i x1 h1
      split at h
      · cases h
      · rename_i x2 h2
        split at h
        · cases h
        · rename_i s3 x3 h3
          split at h
          · cases h
          · rename_i x4 h4
            injection h with h
            subst h
            -- ids
            have id1 : x1.id = a.c := by
              split at h1
              · split at h1
                · cases h1
                · split at h1
                  · injection h1 with h1; subst h1; exact get_id s a.c
                  · cases h1
              · injection h1 with h1; subst h1; exact get_id s a.c
            have id2 : x2.id = a.c := by
              split at h2
              · injection h2 with h2; subst h2; exact id1
              · split at h2
                · cases h2
                · injection h2 with h2; subst h2; exact id1
            -- stage 3 establishes the agreement
            have r3 : x3.initRev = x3.chainRev ∧ x3.id = a.c := by
              split at h3
              · split at h3
                · cases h3
                · rename_i hne
                  injection h3 with h3
                  injection h3 with hs hx; subst hx
                  exact ⟨by simpa using hne, id2⟩
              · rename_i ini
                split at h3
                · cases h3
                · split at h3
                  · cases h3
                  · rename_i s' x' hr
                    split at h3
                    · cases h3
                    · rename_i hne
                      injection h3 with h3
                      injection h3 with hs hx; subst hx
                      have hx'id : x'.id = a.c := by
                        split at hr
                        · split at hr
                          · cases hr
                          · injection hr with hr; injection hr with _ hr; subst hr; exact id2
                        · injection hr with hr; injection hr with _ hr; subst hr; exact id2
                      exact ⟨by simpa using hne, hx'id⟩
            have r4 : x4.initRev = x3.initRev ∧ x4.chainRev = x3.chainRev ∧ x4.id = x3.id := by
              split at h4
              · injection h4 with h4; subst h4; exact ⟨rfl, rfl, rfl⟩
              · split at h4
                · cases h4
                · have := updateMinPower_rev _ _ _ _ _ h4
                  exact this
            have id4 : x4.id = a.c := r4.2.2.trans r3.2
            have base : ((s3.set x4).get a.c) = x4 := get_set_id s3 x4 a.c id4
            have goal4 : x4.initRev = x4.chainRev := by rw [r4.1, r4.2.1]; exact r3.1
            simp only []
            split
            · rw [base]; exact goal4
            · rename_i i _hi
              split
              · have := get_set_id (s3.set x4) { x4 with infr := some (mergeInfr (x4.infr.getD defaultInfr) i) } a.c id4
                rw [this]; exact goal4
              · have := updateQueuedInfr_rev (s3.set x4) a.c (mergeInfr (x4.infr.getD defaultInfr) i)
                rw [this.1, this.2, base]; exact goal4

theorem initializeAndPrepare_rev (s s' : State) (c : CId) (t : Time) (h : initializeAndPrepare s c t = some s') :
    (s'.get c).initRev = (s.get c).initRev ∧ (s'.get c).chainRev = (s.get c).chainRev := by
  unfold initializeAndPrepare at h
  simp only [] at h
  split at h
  · injection h with h; subst h; exact ⟨rfl, rfl⟩
  · split at h
    · cases h
    · rename_i q _hq
      injection h with h; subst h
      have hg := get_congr ({ (s.set { s.get c with phase := Phase.initialized }) with
          spawnQ := tqAppend q (s.get c).spawn c }) (s.set { s.get c with phase := Phase.initialized }) rfl c
      rw [hg]
      have := get_set_upd s c (fun x => { x with phase := Phase.initialized }) (fun _ => rfl)
      rw [this]; exact ⟨rfl, rfl⟩

/-- … also through the whole message, including re-scheduling of the launch -/
theorem updateConsumer_keeps_rev (s s' : State) (a : UpdateArgs) (h : updateConsumer s a = some s') :
    (s'.get a.c).initRev = (s'.get a.c).chainRev := by
  unfold updateConsumer at h
  split at h
  · cases h
  · rename_i s1 t hc
    split at h
    · cases h
    · have h1 := update_keeps_rev s a (s1, t) hc
      have h2 := initializeAndPrepare_rev s1 s' a.c t h
      rw [h2.1, h2.2]; exact h1

/-- removal of stopped consumers and the infraction-parameter switch have no error path at all:
    they are total functions of the state -/
theorem remove_and_infraction_total (s : State) :
    ∃ s1 s2, s1 = beginBlockRemove s ∧ s2 = beginBlockInfraction s1 := ⟨_, _, rfl, rfl⟩

/-- the slash meter replenishment has no error path and keeps the meter within the allowance,
    hence within CometBFT's bound on total voting power (SetSlashMeter's panic is unreachable) -/
theorem meter_in_range (t : Throttle) (now : Time) (a : Nat) (bound : Nat) (ha : a ≤ bound) :
    (checkReplenish t now a).meter ≤ bound := by
  have h1 : (checkReplenish t now a).meter ≤ a := by
    unfold checkReplenish clampStep
    split
    · exact Int.le_refl _
    · rename_i h; exact Int.le_of_lt (Int.not_le.mp h)
  omega

/-! ### non-vacuity -/
example :
    let s : State := { consumers := [{ id := "0", phase := .initialized, chainRev := 1, initRev := 1, spawn := 5,
                                       hasInit := true, ps := some {} }],
                       spawnQ := [(5, ["0"])], now := 6, nextId := 1 }
    -- nobody opted in: the launch fails and is rolled back, the block does not fail
    ((beginBlockLaunch? s fun _ => {}).map fun t => ((t.get "0").phase, (t.get "0").spawn, t.spawnQ))
      = some (Phase.registered, 0, []) := by decide

end ICS.Props.C19
