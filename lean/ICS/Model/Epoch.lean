/-
  ComputeConsumerNextValSet / ComputeNextValidators / CreateConsumerValidator
  (x/ccv/provider/keeper/validator_set_update.go) over an observed staking view.
-/
import ICS.Model.Shaping
import ICS.Model.TopN
import ICS.Model.ValSet
namespace ICS.Epoch
open ICS ICS.Shaping

/-- staking view of one validator (environment input) -/
structure SVal where
  id        : Nat
  tokens    : Nat
  status    : Nat      -- 1 unbonded, 2 unbonding, 3 bonded
  jailed    : Bool
  lastPower : Nat
  tomb      : Bool := false
  jailedUntil : Int := 0
deriving Repr, Inhabited, DecidableEq

/-- consumer validator record as stored by the provider -/
structure CVal where
  v     : Nat
  key   : Nat
  power : Nat
  join  : Nat
deriving Repr, Inhabited, DecidableEq

structure PS where
  topN     : Nat := 0
  setCap   : Nat := 0
  powCap   : Nat := 0
  minStake : Nat := 0
  inactive : Bool := false
deriving Repr, Inhabited, DecidableEq

/-- what ComputeConsumerNextValSet reads -/
structure Input where
  stk     : List SVal          -- all validators
  bonded  : List Nat           -- GetLastBondedValidators: ids in staking power-index order
  m       : Nat                -- MaxProviderConsensusValidators
  height  : Nat
  ps      : PS
  allow   : List Nat
  deny    : List Nat
  prio    : List Nat
  optin   : List Nat
  ka      : List (Nat × Nat)   -- validator ↦ assigned consumer key
  current : List CVal          -- stored consumer validator set

def sval (stk : List SVal) (v : Nat) : SVal :=
  match stk.find? (·.id == v) with
  | some s => s
  | none => { id := v, tokens := 0, status := 1, jailed := false, lastPower := 0 }

def lastPower (stk : List SVal) (v : Nat) : Nat := (sval stk v).lastPower

/-- GetBondedTokens: tokens if bonded, else 0 -/
def bondedTokens (stk : List SVal) (v : Nat) : Nat :=
  let s := sval stk v
  if s.status == 3 then s.tokens else 0

def active (inp : Input) : List Nat := inp.bonded.take inp.m

/-- the Top-N threshold over the active validators -/
def minPower (inp : Input) : Option Nat :=
  TopN.computeMinPowerInTopN ((active inp).map (lastPower inp.stk)) inp.ps.topN

/-- opted-in set after OptInTopNValidators -/
def optinAfter (inp : Input) (minP : Nat) : List Nat :=
  (active inp).foldl (fun acc v => if lastPower inp.stk v ≥ minP ∧ ¬ acc.contains v then acc ++ [v] else acc) inp.optin

def canValidate (inp : Input) (optin : List Nat) (minP : Nat) (v : Nat) : Bool :=
  (optin.contains v || (inp.ps.topN > 0 && decide (lastPower inp.stk v ≥ minP))) &&
  (inp.allow.isEmpty || inp.allow.contains v) &&
  (inp.deny.isEmpty || !inp.deny.contains v)

def fulfillsMinStake (inp : Input) (v : Nat) : Bool :=
  inp.ps.minStake == 0 || decide (bondedTokens inp.stk v ≥ inp.ps.minStake)

/-- CreateConsumerValidator -/
def createCV (inp : Input) (v : Nat) : CVal :=
  let key := match inp.ka.find? (·.1 == v) with
    | some p => p.2
    | none => v            -- provider key of validator v has key id v
  let join := match inp.current.find? (·.v == v) with
    | some c => c.join
    | none => inp.height
  { v := v, key := key, power := lastPower inp.stk v, join := join }

/-- the candidate list: bonded validators sorted by voting power (descending, STABLE: equal powers
    keep the staking order, which defines the provider's active set), truncated to M unless
    inactive validators are allowed -/
def candidates (inp : Input) : List Nat :=
  let sorted := isort (fun a b => decide (lastPower inp.stk a ≥ lastPower inp.stk b)) inp.bonded
  if inp.ps.inactive then sorted else sorted.take inp.m

/-- eligible validators, before ranking and capping -/
def eligible (inp : Input) (optin : List Nat) (minP : Nat) : List Nat :=
  (candidates inp).filter fun v => canValidate inp optin minP v && fulfillsMinStake inp v

/-- ComputeNextValidators -/
def computeNextValidators (inp : Input) (optin : List Nat) (minP : Nat) : List CVal :=
  let elig := (eligible inp optin minP).map (createCV inp)
  let asCV : List Shaping.CV := elig.map fun c => { id := c.v, power := c.power }
  let ranked := rankByPriority (fun v => inp.prio.contains v) asCV
  let capped := capValidatorSet inp.ps.topN inp.ps.setCap ranked
  let shaped := capValidatorsPower inp.ps.powCap capped
  shaped.filterMap fun s =>
    match elig.find? (·.v == s.id) with
    | some c => some { c with power := s.power }
    | none => none

structure Output where
  minpow  : Option Nat          -- stored MinimumPowerInTopN afterwards (none = unchanged)
  optin   : List Nat
  next    : List CVal
  updates : List ValSet.Update
deriving Repr

def toVals (l : List CVal) : List ValSet.Val := l.map fun c => { key := c.key, power := c.power }

/-- ComputeConsumerNextValSet; `none` = error -/
def computeNextValSet (inp : Input) : Option Output :=
  if inp.ps.topN > 0 then
    match minPower inp with
    | none => none
    | some mp =>
      let optin := optinAfter inp mp
      let next := computeNextValidators inp optin mp
      some { minpow := some mp, optin := optin, next := next, updates := ValSet.diff (toVals inp.current) (toVals next) }
  else
    let next := computeNextValidators inp inp.optin 0
    some { minpow := none, optin := inp.optin, next := next, updates := ValSet.diff (toVals inp.current) (toVals next) }

end ICS.Epoch
