/-
  Byte layout of the provider store keys (x/ccv/provider/types/keys.go).
  Bytes are `Nat`s < 256.  The shape of every per-consumer key space (legacy `prefix|id` vs
  `prefix|len(id)|id|…`) is NOT written here by hand: it is read from the regenerated table
  `ICS.Generated.providerSpaces`.
-/
import ICS.Util
import ICS.Generated.Facts
namespace ICS.Keys

def be64 (n : Nat) : List Nat :=
  [n / 2^56 % 256, n / 2^48 % 256, n / 2^40 % 256, n / 2^32 % 256,
   n / 2^24 % 256, n / 2^16 % 256, n / 2^8 % 256, n % 256]

def ofBe64 : List Nat → Nat
  | [a, b, c, d, e, f, g, h] =>
    a * 2^56 + b * 2^48 + c * 2^40 + d * 2^32 + e * 2^24 + f * 2^16 + g * 2^8 + h
  | _ => 0

/-- StringIdWithLenKey: prefix | be64(len id) | id -/
def lenKey (p : Nat) (id : List Nat) : List Nat := p :: (be64 id.length ++ id)

/-- legacy layout: prefix | id -/
def legacyKey (p : Nat) (id : List Nat) : List Nat := p :: id

/-- shape of the key space with prefix byte `p`, from the regenerated table -/
def shapeOf (p : Nat) : Option String :=
  match ICS.Generated.providerSpaces.find? (fun e => e.2.2 == p) with
  | some e => some e.2.1
  | none => none

/-- the consumer id (as bytes) that owns a raw store key, if the key lies in a per-consumer space -/
def ownerOf (key : List Nat) : Option (Nat × List Nat) :=
  match key with
  | [] => none
  | p :: rest =>
    match shapeOf p with
    | some "len" =>
      let n := ofBe64 (rest.take 8)
      if rest.length < 8 + n then none else some (p, (rest.drop 8).take n)
    | some "legacy" => some (p, rest)
    | _ => none

def hexVal (c : Char) : Nat :=
  if '0' ≤ c ∧ c ≤ '9' then c.toNat - '0'.toNat
  else if 'a' ≤ c ∧ c ≤ 'f' then c.toNat - 'a'.toNat + 10
  else if 'A' ≤ c ∧ c ≤ 'F' then c.toNat - 'A'.toNat + 10 else 0

def parseHex (s : String) : List Nat :=
  let rec go : List Char → List Nat
    | a :: b :: rest => (hexVal a * 16 + hexVal b) :: go rest
    | _ => []
  go s.toList

def asciiOf (bs : List Nat) : String := String.mk (bs.map Char.ofNat)

end ICS.Keys
