/-
  Model of the validator-set algebra shared by provider and consumer:
  DiffValidators (x/ccv/provider/keeper/validator_set_update.go),
  AccumulateChanges (x/ccv/types/utils.go),
  ApplyCCValidatorChanges (x/ccv/consumer/keeper/validators.go).
  A consensus key is a `Nat` (key id); power 0 in an update means removal.
-/
import ICS.Util
namespace ICS.ValSet

structure Val where
  key   : Nat
  power : Nat
deriving DecidableEq, Repr, Inhabited

abbrev Update := Val

/-- power of a key in a set, 0 = absent -/
def lookup (l : List Val) (k : Nat) : Nat :=
  match l.find? (fun v => v.key == k) with
  | some v => v.power
  | none => 0

/-- DiffValidators: removals/changes in `cur` order, then additions in `next` order. -/
def diff (cur next : List Val) : List Update :=
  (cur.filterMap fun c =>
      match next.find? (fun n => n.key == c.key) with
      | none => some ⟨c.key, 0⟩
      | some n => if c.power != n.power then some ⟨n.key, n.power⟩ else none)
  ++ (next.filterMap fun n =>
      match cur.find? (fun c => c.key == n.key) with
      | none => some ⟨n.key, n.power⟩
      | some _ => none)

/-- semantic application of an update list to a lookup function: later entries win -/
def applyF (us : List Update) (f : Nat → Nat) : Nat → Nat :=
  us.foldl (fun g u => fun k => if k = u.key then u.power else g k) f

/-- the Go map `m[key] = update`: one entry per key, the last write wins -/
def mapInsert (m : List Update) (u : Update) : List Update :=
  if m.any (fun x => x.key == u.key) then m.map (fun x => if x.key == u.key then u else x)
  else m ++ [u]

def toMap (us : List Update) : List Update := us.foldl mapInsert []

/-- comparator of AccumulateChanges: power descending, then `PubKey.String()` descending.
    `rank k` is the position of key `k` in the ascending order of `PubKey.String()`. -/
def accLE (rank : Nat → Nat) (a b : Update) : Bool :=
  decide (a.power > b.power) || (a.power == b.power && decide (rank a.key ≥ rank b.key))

/-- AccumulateChanges -/
def accumulate (rank : Nat → Nat) (cur new : List Update) : List Update :=
  isort (accLE rank) (toMap (cur ++ new))

/-- one step of ApplyCCValidatorChanges: new stored set and whether the change is forwarded -/
def applyOne (cc : List Val) (ch : Update) : List Val × Bool :=
  if cc.any (fun v => v.key == ch.key) then
    if ch.power < 1 then (cc.filter (fun v => v.key != ch.key), true)
    else (cc.map (fun v => if v.key == ch.key then { v with power := ch.power } else v), true)
  else if 0 < ch.power then (cc ++ [⟨ch.key, ch.power⟩], true)
  else (cc, false)

/-- ApplyCCValidatorChanges: (stored set afterwards, updates returned to the consensus engine) -/
def applyCC (cc : List Val) (changes : List Update) : List Val × List Update :=
  changes.foldl (fun (st : List Val × List Update) ch =>
    let r := applyOne st.1 ch
    (r.1, if r.2 then st.2 ++ [ch] else st.2)) (cc, [])

/-- how the consensus engine folds returned updates into its own set -/
def engineApply (eng : List Val) (us : List Update) : List Val := (applyCC eng us).1

end ICS.ValSet
