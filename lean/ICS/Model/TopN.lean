/-
  ComputeMinPowerInTopN (x/ccv/provider/keeper/power_shaping.go) with the exact LegacyDec
  arithmetic of cosmossdk.io/math v1.5: `a.Quo(b)` = round-half-even( floor(a·10^36 / b) / 10^18 )
  on the 10^18-scaled integers.
-/
import ICS.Util
namespace ICS.TopN

def prec : Nat := 10^18

/-- chopPrecisionAndRound on a non-negative integer: divide by 10^18, banker's rounding -/
def chopRound (x : Nat) : Nat :=
  let q := x / prec
  let r := x % prec
  if r < prec / 2 then q
  else if r > prec / 2 then q + 1
  else if q % 2 == 0 then q else q + 1

/-- LegacyNewDec(a).Quo(LegacyNewDec(b)) as a 10^18-scaled integer (b > 0) -/
def decQuo (a b : Nat) : Nat := chopRound ((a * prec * (prec * prec)) / (b * prec))

/-- LegacyNewDec(topN).QuoInt64(100) -/
def threshold (topN : Nat) : Nat := topN * prec / 100

def sortDescNat (l : List Nat) : List Nat := isort (fun a b => decide (a ≥ b)) l

/-- the scan over the descending powers: first power at which the cumulative share reaches N % -/
def scan (total thr : Nat) : List Nat → Nat → Option Nat
  | [], _ => none
  | p :: ps, acc =>
    let acc' := acc + p
    if decQuo acc' total ≥ thr then some p else scan total thr ps acc'

/-- ComputeMinPowerInTopN: `none` = error (topN outside (0,100], or the "never reached" branch) -/
def computeMinPowerInTopN (powers : List Nat) (topN : Nat) : Option Nat :=
  if topN == 0 || topN > 100 then none
  else
    let total := powers.sum
    if total == 0 then none   -- Quo by zero panics in the implementation; unreachable for bonded sets
    else scan total (threshold topN) (sortDescNat powers) 0

end ICS.TopN
