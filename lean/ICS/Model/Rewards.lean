/-
  Provider-side reward allocation (x/ccv/provider/keeper/distribution.go): AllocateTokens,
  AllocateConsumerRewards, AllocateTokensToConsumerValidators, and the crediting done by the
  transfer middleware (ibc_middleware.go).  `DecCoin` amounts are 10^18-scaled naturals.
-/
import ICS.Model.Provider
namespace ICS.Rewards
open ICS ICS.Provider ICS.Epoch

def one : Nat := 10^18

/-- LegacyDec.MulTruncate on scaled values -/
def mulTrunc (a b : Nat) : Nat := a * b / one

/-- LegacyNewDec(a).QuoTruncate(LegacyNewDec(b)) as a scaled value (b > 0) -/
def quoTruncInt (a b : Nat) : Nat := a * one / b

structure ValPay where
  v      : Nat
  amount : Nat        -- scaled
deriving DecidableEq, Repr

structure Payout where
  toDistr : Nat       -- whole tokens moved from the rewards pool to the distribution module
  sendsToDistr : Bool -- a bank transfer to distribution is attempted (even of zero tokens)
  pays    : List ValPay
  toCP    : Nat       -- whole tokens to the community pool
  fundsCP : Bool
  left    : Nat       -- credit that stays with the consumer (scaled)
deriving DecidableEq, Repr

def eligible (height join eligBlocks : Nat) : Bool := decide (height ≥ join + eligBlocks)

/-- AllocateConsumerRewards for one denom -/
def allocateConsumerRewards (credit tax : Nat) (vals : List CVal) (height eligBlocks : Nat) : Payout :=
  -- ComputeConsumerTotalVotingPower counts only validators that are already eligible
  let elig := vals.filter fun c => eligible height c.join eligBlocks
  let total := (elig.map (·.power)).sum
  if total == 0 then
    { toDistr := 0, sendsToDistr := false, pays := [], toCP := credit / one, fundsCP := true, left := credit % one }
  else
    let vr := mulTrunc credit (one - tax)          -- validators' rewards
    let rem := credit - vr                          -- community tax part
    let vT := vr / one
    let pays : List ValPay :=
      if vT == 0 then []                            -- AllocateTokensToConsumerValidators returns early on empty tokens
      else elig.map fun c =>
        { v := c.v, amount := mulTrunc (vT * one) (quoTruncInt c.power total) }
    { toDistr := vT, sendsToDistr := true, pays := pays, toCP := rem / one, fundsCP := true, left := vr % one + rem % one }

/-- the crediting rule of the transfer middleware: a successful transfer to the consumer rewards
    pool whose memo names an existing consumer is credited to that consumer, in full -/
def credit (old : Nat) (amount : Nat) : Nat := old + one * amount   -- (`one *`, not `* one`: keeps kernel unfolding shallow)


abbrev Credits := List ((CId × String) × Nat)

def getCredit (cr : Credits) (c : CId) (d : String) : Nat :=
  match cr.find? (fun e => e.1.1 == c && e.1.2 == d) with
  | some e => e.2
  | none => 0

def setCredit (cr : Credits) (c : CId) (d : String) (v : Nat) : Credits :=
  let rest := cr.filter fun e => !(e.1.1 == c && e.1.2 == d)
  if v == 0 then rest else rest ++ [((c, d), v)]

abbrev Bal := List (String × Nat)

def getBal (b : Bal) (d : String) : Nat := match b.find? (·.1 == d) with | some e => e.2 | none => 0
def setBal (b : Bal) (d : String) (v : Nat) : Bal := (b.filter (·.1 != d)) ++ (if v == 0 then [] else [(d, v)])

structure AllocStep where
  consumer : CId
  denom    : String
  payout   : Payout
deriving Repr

structure AllocResult where
  credits : Credits
  pool    : Bal
  distr   : Bal
  cp      : Bal
  steps   : List AllocStep
deriving Repr

/-- one (consumer, denom) step of AllocateTokens, in its own cached context: if the rewards pool
    cannot cover a transfer the whole step is dropped -/
def allocStep (tax height eligBlocks : Nat) (c : CId) (vals : List CVal) (r : AllocResult) (d : String) : AllocResult :=
  let cr := getCredit r.credits c d
  if cr == 0 then r
  else
    let p := allocateConsumerRewards cr tax vals height eligBlocks
    if getBal r.pool d < p.toDistr + p.toCP then r     -- a bank transfer fails: the step is rolled back
    else
      { credits := setCredit r.credits c d p.left,
        pool := setBal r.pool d (getBal r.pool d - p.toDistr - p.toCP),
        distr := setBal r.distr d (getBal r.distr d + p.toDistr),
        cp := setBal r.cp d (getBal r.cp d + p.toCP),
        steps := r.steps ++ [{ consumer := c, denom := d, payout := p }] }

/-- every registered denom followed by the consumer's own allow-listed denoms -/
def allocConsumer (tax height eligBlocks : Nat) (globalDenoms : List String) (r : AllocResult)
    (e : CId × List CVal × List String) : AllocResult :=
  (globalDenoms ++ e.2.2).foldl (allocStep tax height eligBlocks e.1 e.2.1) r

/-- AllocateTokens: every consumer with a client (store order) -/
def allocateTokens (consumers : List (CId × List CVal × List String)) (globalDenoms : List String)
    (credits : Credits) (pool distr cp : Bal) (tax height eligBlocks : Nat) : AllocResult :=
  consumers.foldl (allocConsumer tax height eligBlocks globalDenoms)
    { credits := credits, pool := pool, distr := distr, cp := cp, steps := [] }


/-! ### consumer side: EndBlockRD (x/ccv/consumer/keeper/distribution.go) -/

structure CRState where
  fc     : Bal := []      -- fee collector
  redis  : Bal := []      -- cons_redistribute
  toSend : Bal := []      -- cons_to_send_to_provider
  escrow : Bal := []      -- what the ICS-20 module holds for transfers in flight
  ltbh   : Nat := 0       -- LastTransmissionBlockHeight
deriving Repr

def addBal (b : Bal) (d : String) (v : Nat) : Bal := setBal b d (getBal b d + v)

/-- the consumer's share of one denom of the collected fees: the fraction, rounded down
    (DecCoins.MulDec of an integer amount is exact, then TruncateDecimal) -/
def consumerShare (amt frac : Nat) : Nat := amt * frac / one

def splitOne (frac : Nat) (s : CRState) (d : String) : CRState :=
  let amt := getBal s.fc d
  let c := consumerShare amt frac
  { s with fc := setBal s.fc d 0, redis := addBal s.redis d c, toSend := addBal s.toSend d (amt - c) }

/-- DistributeRewardsInternally: every denom the fee collector holds is split -/
def distributeInternally (s : CRState) (frac : Nat) : CRState :=
  (s.fc.map (·.1)).foldl (splitOne frac) s

def sendOneDenom (acc : CRState × List (String × Nat)) (d : String) : CRState × List (String × Nat) :=
  let b := getBal acc.1.toSend d
  if b == 0 then acc
  else ({ acc.1 with toSend := setBal acc.1.toSend d 0, escrow := addBal acc.1.escrow d b }, acc.2 ++ [(d, b)])

/-- SendRewardsToProvider (in a cached context): the whole balance of every allowed denom, if the
    transfer channel is open; a failing transfer (the `failNth`-th, 0 = none) rolls all of them back -/
def sendRewards (s : CRState) (allowed : List String) (chOpen : Bool) (failNth : Nat) : CRState × List (String × Nat) :=
  if !chOpen then (s, [])
  else
    let r := allowed.foldl sendOneDenom (s, [])
    if failNth != 0 && decide (failNth ≤ r.2.length) then (s, []) else r

def endBlockRD (s : CRState) (height frac bpdt : Nat) (allowed : List String) (chOpen : Bool) (failNth : Nat) :
    CRState × List (String × Nat) :=
  let s1 := distributeInternally s frac
  if height ≥ s1.ltbh + bpdt then
    let r := sendRewards s1 allowed chOpen failNth
    ({ r.1 with ltbh := height }, r.2)
  else (s1, [])

end ICS.Rewards
