/-
  Model of the consumer module: OnRecvVSCPacket, QueueSlashPacket / SlashWithInfractionReason,
  SendPackets, OnAcknowledgementPacket, the retry state machine (throttle_retry.go), BeginBlock's
  height ↦ update-id bookkeeping and EndBlock (x/ccv/consumer).
-/
import ICS.Model.ValSet
namespace ICS.Consumer
open ICS ICS.ValSet

inductive CPacket
  | slash (key power vscId infraction : Nat)     -- infraction: 1 double sign, 2 downtime
  | matured (vscId : Nat)
deriving DecidableEq, Repr, Inhabited

def CPacket.isSlash : CPacket → Bool
  | .slash .. => true
  | .matured .. => false

structure SlashRecord where
  sendTime : Int
  waiting  : Bool
deriving DecidableEq, Repr, Inhabited

structure State where
  cc          : List Val := []
  pending     : Option (List Update) := none
  h2v         : List (Nat × Nat) := []          -- height ↦ update id (sorted by height)
  pchan       : Option String := none
  outstanding : List Nat := []                  -- keys with an outstanding downtime report
  queue       : List CPacket := []
  record      : Option SlashRecord := none
  retryDelay  : Int := 0
  height      : Nat := 1
  now         : Int := 0
  chanOpen    : Bool := true          -- environment: the CCV channel is open (sends succeed)
deriving Repr, Inhabited

def getH2V (m : List (Nat × Nat)) (h : Nat) : Nat :=
  match m.find? (·.1 == h) with
  | some e => e.2
  | none => 0

def setH2V (m : List (Nat × Nat)) (h id : Nat) : List (Nat × Nat) :=
  if m.any (·.1 == h) then m.map fun e => if e.1 == h then (h, id) else e
  else isort (fun a b => decide (a.1 ≤ b.1)) (m ++ [(h, id)])

/-- BeginBlock: the next height inherits the id of the current one -/
def beginBlock (s : State) : State :=
  { s with h2v := setH2V s.h2v (s.height + 1) (getH2V s.h2v s.height) }

inductive RecvResult | ok | errorAck | panic
deriving DecidableEq, Repr

/-- OnRecvVSCPacket (after successful decoding) -/
def onRecvVSC (rank : Nat → Nat) (s : State) (chan : String) (id : Nat) (updates : Option (List Update))
    (acks : List Nat) : State × RecvResult :=
  match updates with
  | none => (s, .errorAck)                       -- Validate: updates must not be nil
  | some ups =>
    if id == 0 then (s, .errorAck)
    else
      match s.pchan with
      | some pc => if pc != chan then (s, .panic) else
          ({ s with pending := some (accumulate rank (s.pending.getD []) ups),
                    h2v := setH2V s.h2v (s.height + 1) id,
                    outstanding := s.outstanding.filter fun k => !acks.contains k }, .ok)
      | none =>
          ({ s with pchan := some chan,
                    pending := some (accumulate rank (s.pending.getD []) ups),
                    h2v := setH2V s.h2v (s.height + 1) id,
                    outstanding := s.outstanding.filter fun k => !acks.contains k }, .ok)

/-! ### channel handshake on the consumer (x/ccv/consumer/ibc_module.go, keeper VerifyProviderChain) -/

def blank (s : String) : Bool := s.toList.all fun c => c == ' '

/-- OnChanOpenInit: `connClient h` = client underlying connection `h` (none: no such connection);
    `providerClient` = the client recorded for the provider at genesis -/
def chanOpenInit (s : State) (ordered : Bool) (port cport ver : String) (hops : List String)
    (connClient : String → Option String) (providerClient : Option String) : Bool :=
  s.pchan.isNone && ordered && port == "consumer" && ((if blank ver then "1" else ver) == "1") &&
  cport == "provider" &&
  (match hops with
   | [h] => (match connClient h, providerClient with
             | some cl, some pc => cl == pc
             | _, _ => false)
   | _ => false)

/-- OnChanOpenTry / OnChanOpenConfirm: the consumer never accepts a handshake it did not initiate -/
def chanOpenTry : Bool := false
def chanOpenConfirm : Bool := false

/-- OnChanOpenAck: `mdVersion` = version in the provider's handshake metadata (none: undecodable) -/
def chanOpenAck (s : State) (mdVersion : Option String) (transferChanExists chanKnown : Bool := true) : Bool :=
  -- (afterwards the consumer opens the reward-transfer channel over the same connection unless one
  --  exists; that needs the acknowledged channel to exist in core IBC)
  s.pchan.isNone && mdVersion == some "1" && (transferChanExists || chanKnown)

/-- OnChanCloseInit: users may only close CCV channels that are NOT the established provider channel -/
def chanCloseInit (s : State) (ch : String) : Bool :=
  match s.pchan with
  | some pc => pc != ch
  | none => false

/-- SlashWithInfractionReason → QueueSlashPacket.  `infraction`: 0 unspecified, 1 double sign, 2 downtime -/
def slash (s : State) (key power infractionHeight infraction : Nat) : State :=
  if infraction == 0 then s
  else
    let vsc := getH2V s.h2v infractionHeight
    let downtime := infraction == 2
    if downtime && s.outstanding.contains key then s
    else
      let out := if downtime then isort (fun a b => decide (a ≤ b)) (s.outstanding ++ [key]) else s.outstanding
      { s with outstanding := out, queue := s.queue ++ [.slash key power vsc infraction] }

/-- PacketSendingPermitted -/
def sendingPermitted (s : State) : Bool :=
  match s.record with
  | none => true
  | some r => if r.waiting then false else decide (s.now > r.sendTime + s.retryDelay)

/-- SendPackets with a healthy channel: (state, packets sent in order) -/
def sendPackets (s : State) : State × List CPacket :=
  match s.pchan with
  | none => (s, [])
  | some _ =>
    if !s.chanOpen then (s, [])     -- the first send fails: everything stays queued
    else
    let rec go (q : List CPacket) (s : State) (sent : List CPacket) (fuel : Nat) : State × List CPacket :=
      match fuel, q with
      | 0, _ => (s, sent)
      | _, [] => (s, sent)
      | fuel + 1, p :: rest =>
        if !sendingPermitted s then (s, sent)
        else if p.isSlash then
          -- the slash packet stays at the head of the queue; nothing else is sent
          ({ s with record := some { sendTime := s.now, waiting := true } }, sent ++ [p])
        else go rest { s with queue := s.queue.erase p } (sent ++ [p]) fuel
    go s.queue s [] s.queue.length

/-- keys for which ApplyCCValidatorChanges creates a NEW cross-chain validator (their outstanding
    downtime flag is cleared as a sanity measure) -/
def createdKeys (cc : List Val) (changes : List Update) : List Nat :=
  (changes.foldl (fun (st : List Val × List Nat) ch =>
    let isNew := !(st.1.any fun v => v.key == ch.key) && decide (0 < ch.power)
    ((applyOne st.1 ch).1, if isNew then st.2 ++ [ch.key] else st.2)) (cc, [])).2

/-- EndBlock (after reward distribution): send packets, then flush pending changes -/
def endBlock (s : State) : State × List CPacket × List Update :=
  let r := sendPackets s
  match r.1.pending with
  | none => (r.1, r.2, [])
  | some ch =>
    let a := applyCC r.1.cc ch
    let created := createdKeys r.1.cc ch
    ({ r.1 with cc := a.1, pending := none,
                outstanding := r.1.outstanding.filter fun k => !created.contains k }, r.2, a.2)

inductive AckKind | handled | bounced | v1 | error
deriving DecidableEq, Repr

/-- OnAcknowledgementPacket for a result acknowledgement; `none` = the callback fails (an error
    acknowledgement closes the channel and is outside the retry machine) -/
def onAck (s : State) (pktIsSlash : Bool) (k : AckKind) : Option State :=
  match k with
  | .error => none
  | .handled => if pktIsSlash then some { s with record := none, queue := s.queue.drop 1 } else some s
  | .v1 => if pktIsSlash then some { s with record := none, queue := s.queue.drop 1 } else some s
  | .bounced =>
    if pktIsSlash then
      match s.record with
      | none => none          -- panics: reply without a slash record
      | some r => some { s with record := some { r with waiting := false } }
    else some s

end ICS.Consumer
