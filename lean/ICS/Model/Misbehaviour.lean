/-
  Model of the provider's handling of light-client-attack evidence
  (MsgSubmitConsumerMisbehaviour: ibc-go Misbehaviour.ValidateBasic; keeper/consumer_equivocation.go
   HandleConsumerMisbehaviour / CheckMisbehaviour / GetByzantineValidators / verifyLightBlockCommitSig;
   ibc-go 07-tendermint CheckForMisbehaviour / verifyMisbehaviour / checkMisbehaviourHeader;
   CometBFT VerifyCommitLight / VerifyCommitLightTrusting).

  Headers are abstracted to what those functions look at: chain id, height, commit round, the hash
  fields that make two headers "conflicting state transitions" (`state`), the remaining hashed
  content (`data`), the validator set in CometBFT's order and one commit signature per validator.
  A-CRYPTO as in Model/Equivocation.lean: `sigOK` says the signature was produced by the owner of
  the validator's key over this commit's vote bytes (which contain the header's chain id).
-/
import ICS.Model.Equivocation
namespace ICS.Equiv
open ICS ICS.Provider ICS.Epoch

inductive Flag | absent | commit | nil
deriving DecidableEq, Repr, Inhabited

structure CSig where
  key   : Nat
  flag  : Flag
  sigOK : Bool
deriving DecidableEq, Repr, Inhabited

structure Hdr where
  chain  : String
  height : Nat
  round  : Nat
  state  : Nat
  data   : Nat
  vals   : List (Nat × Nat)      -- (key, power) in validator-set order
  sigs   : List CSig             -- commit signatures, same order
deriving Repr, Inhabited

structure Misb where
  client : String
  h1 : Hdr
  h2 : Hdr
  th : Nat                       -- trusted height of both headers
  tvals : List (Nat × Nat)       -- trusted validators, in validator-set order
deriving Repr, Inhabited

/-- what the provider's IBC client store holds for the consumer's client -/
structure ClientEnv where
  clientChain    : String        -- chain id of the client state
  consFound      : Bool := true  -- a consensus state exists at the trusted height
  trustedMatches : Bool          -- … and its NextValidatorsHash is the hash of `tvals`
  expired        : Bool          -- … and it is older than the trusting period
deriving Repr, Inhabited

inductive VRes | ok | notEnough | badSig
deriving DecidableEq, Repr

def totalPower (vals : List (Nat × Nat)) : Nat := (vals.map (·.2)).sum

def powerOfKey (vals : List (Nat × Nat)) (k : Nat) : Option Nat := (vals.find? (·.1 == k)).map (·.2)

/-- CometBFT's commit verification loops: walk the signatures in order, look only at those for the
    block, check each visited signature, stop as soon as the tally exceeds `needed` -/
def tally (needed : Nat) (power : CSig → Option Nat) (sigValid : CSig → Bool) : List CSig → Nat → VRes
  | [], _ => .notEnough
  | s :: rest, acc =>
    if s.flag != .commit then tally needed power sigValid rest acc
    else match power s with
      | none => tally needed power sigValid rest acc
      | some p =>
        if !sigValid s then .badSig
        else if acc + p > needed then .ok
        else tally needed power sigValid rest (acc + p)

/-- VerifyCommitLight: more than 2/3 of the header's own validator set -/
def verifyLight (h : Hdr) (chain : String) : VRes :=
  if h.sigs.length != h.vals.length then .notEnough
  else tally (totalPower h.vals * 2 / 3) (fun s => powerOfKey h.vals s.key) (fun s => s.sigOK && chain == h.chain) h.sigs 0

/-- VerifyCommitLightTrusting at trust level 1/3 of the trusted validator set -/
def verifyTrusting (h : Hdr) (tvals : List (Nat × Nat)) (chain : String) : VRes :=
  tally (totalPower tvals * 1 / 3) (fun s => powerOfKey tvals s.key) (fun s => s.sigOK && chain == h.chain) h.sigs 0

/-- Misbehaviour.ValidateBasic -/
def misbBasicOK (m : Misb) : Bool :=
  decide (0 < m.th) && m.h1.chain == m.h2.chain &&
  decide (m.th < m.h1.height) && decide (m.th < m.h2.height) && decide (m.h2.height ≤ m.h1.height) &&
  !m.h1.sigs.isEmpty && !m.h2.sigs.isEmpty &&
  verifyLight m.h1 m.h1.chain == .ok && verifyLight m.h2 m.h2.chain == .ok

/-- the two header hashes differ -/
def hashesDiffer (m : Misb) : Bool :=
  m.h1.state != m.h2.state || m.h1.data != m.h2.data || m.h1.vals != m.h2.vals

/-- headersStateTransitionsAreConflicting -/
def conflicting (m : Misb) : Bool := m.h1.state != m.h2.state || m.h1.vals != m.h2.vals

/-- CheckMisbehaviour -/
def checkMisb (x : Consumer) (env : ClientEnv) (m : Misb) : Bool :=
  m.h1.chain == x.chain &&
  x.client == some m.client &&
  m.h1.height == m.h2.height &&
  decide (x.evmin ≤ m.h1.height) &&
  hashesDiffer m &&
  env.consFound && env.trustedMatches && !env.expired &&
  verifyTrusting m.h1 m.tvals env.clientChain == .ok &&
  verifyTrusting m.h2 m.tvals env.clientChain == .ok

/-- the last index at which `k` signed header 1 (Go: a map filled in signature order) -/
def signerOf (sigs : List CSig) (k : Nat) : Option CSig :=
  (sigs.filter fun s => s.flag != .absent && s.key == k).getLast?

/-- GetByzantineValidators: `none` = error; the keys that signed both headers, in header-2 order -/
def byzantine (m : Misb) : Option (List Nat) :=
  if !conflicting m && m.h1.round != m.h2.round then some []            -- amnesia: nobody identifiable
  else
    (m.h2.sigs.filter fun s => s.flag != .absent).foldl (fun acc s2 =>
      match acc with
      | none => none
      | some l =>
        match signerOf m.h1.sigs s2.key with
        | none => some l
        | some s1 =>
          -- verifyLightBlockCommitSig on both light blocks
          if (powerOfKey m.h1.vals s1.key).isNone || !s1.sigOK then none
          else if (powerOfKey m.h2.vals s2.key).isNone || !s2.sigOK then none
          else some (l ++ [s2.key])) (some [])

/-- the punishment loop: validators that cannot be slashed are skipped; effects accumulate -/
def punishAll (x : Consumer) (ds : SlashJail) (unb : List Unb) (now : Time) :
    List Nat → List SVal → List Effect → Nat → List Effect × Nat
  | [], _, effs, n => (effs, n)
  | k :: ks, stk, effs, n =>
    match punish stk unb now (providerOf x k) ds with
    | none => punishAll x ds unb now ks stk effs n
    | some es => punishAll x ds unb now ks (applyEffects (fun _ _ _ => 0) stk es) (effs ++ es) (n + 1)

/-- the whole message -/
def handleMisb (s : State) (unb : List Unb) (env : ClientEnv) (c : CId) (m : Misb) : Option (List Effect) :=
  if !misbBasicOK m then none
  else
    let x := s.get c
    if !checkMisb x env m then none
    else
      match byzantine m with
      | none => none
      | some byz =>
        match x.infr.bind (·.ds) with
        | none => none
        | some ds =>
          let r := punishAll x ds unb s.now byz s.stk [] 0
          if r.2 == 0 then none else some r.1

end ICS.Equiv
