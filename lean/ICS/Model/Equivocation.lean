/-
  Model of the provider's handling of consumer double-voting evidence
  (x/ccv/provider/types/msg.go ValidateBasic, keeper/msg_server.go SubmitConsumerDoubleVoting,
   keeper/consumer_equivocation.go HandleConsumerDoubleVoting / VerifyDoubleVotingEvidence /
   SlashValidator / ComputePowerToSlash / JailAndTombstoneValidator).

  Cryptography is abstracted (assumption A-CRYPTO, DESIGN.md §5): a vote records WHICH identity's
  private key produced its signature, over WHICH chain id, and whether the signature bytes are
  intact; an ed25519 signature verifies under identity k's public key iff it was produced by k's
  private key over exactly the bytes being verified (which contain the chain id and every vote
  field).  The harness builds the real signed votes from the same description.
-/
import ICS.Model.Provider
namespace ICS.Equiv
open ICS ICS.Provider ICS.Epoch

structure Vote where
  signer : Nat        -- identity whose private key signed
  addr   : Nat        -- identity whose address is in ValidatorAddress
  chain  : String     -- chain id the signature is over
  height : Nat
  round  : Nat
  type   : Nat        -- 1 prevote, 2 precommit
  block  : Nat        -- block id (0 = nil)
  sigOK  : Bool       -- signature bytes not tampered with
deriving DecidableEq, Repr, Inhabited

structure Evidence where
  a : Vote
  b : Vote
  /-- identities in the validator set of the submitted infraction block header; `none` = no set -/
  hv : Option (List Nat)
  /-- order of the two block-id keys as CometBFT compares them (-1, 0, 1) -/
  ord : Int
deriving Repr, Inhabited

/-- an unbonding-delegation or redelegation entry of a validator -/
structure Unb where
  v          : Nat
  isRed      : Bool
  amount     : Nat
  completion : Time
  onHold     : Bool
deriving DecidableEq, Repr, Inhabited

inductive Effect
  | slash (v power : Nat) (frac : String)
  | jail (v : Nat)
  | jailUntil (v : Nat) (t : Time)
  | tombstone (v : Nat)
deriving DecidableEq, Repr

def Effect.val : Effect → Nat
  | .slash v _ _ => v
  | .jail v => v
  | .jailUntil v _ => v
  | .tombstone v => v

def powerReduction : Nat := 1000000
def maxTime : Time := 9223372036854775807

/-- A-CRYPTO -/
def sigValid (v : Vote) (pk : Nat) (chainId : String) : Bool :=
  v.sigOK && v.signer == pk && v.chain == chainId

/-- MsgSubmitConsumerDoubleVoting.ValidateBasic (CometBFT's DuplicateVoteEvidence.ValidateBasic:
    both votes well-formed, block-id keys in strictly ascending order; header parts present) -/
def basicOK (e : Evidence) : Bool :=
  (e.a.type == 1 || e.a.type == 2) && (e.b.type == 1 || e.b.type == 2) &&
  decide (0 < e.a.height) && decide (0 < e.b.height) &&
  decide (e.ord < 0) && e.hv.isSome

/-- VerifyDoubleVotingEvidence with the public key `pk` -/
def verifyDV (e : Evidence) (chainId : String) (pk : Nat) : Bool :=
  pk == e.a.addr &&
  e.a.height == e.b.height && e.a.round == e.b.round && e.a.type == e.b.type &&
  e.a.addr == e.b.addr &&
  e.a.block != e.b.block &&
  sigValid e.a pk chainId && sigValid e.b pk chainId

/-- is the entry still slashable at `now` (x/staking: not matured, or on hold) -/
def Unb.live (u : Unb) (now : Time) : Bool := !(decide (u.completion ≤ now)) || u.onHold

/-- ComputePowerToSlash: last power + power of all live unbonding / redelegating tokens -/
def powerToSlash (r : SVal) (unb : List Unb) (now : Time) : Nat :=
  r.lastPower + (((unb.filter fun u => u.v == r.id && u.live now).map (·.amount)).sum) / powerReduction

/-- SlashValidator followed by JailAndTombstoneValidator; `none` = error (nothing changes) -/
def punish (stk : List SVal) (unb : List Unb) (now : Time) (v : Nat) (p : SlashJail) : Option (List Effect) :=
  match stk.find? (·.id == v) with
  | none => none
  | some r =>
    if r.status == 1 then none
    else if r.tomb then none
    else
      let jailEnd := if now + p.jail > maxTime then maxTime else now + p.jail
      some ([.slash v (powerToSlash r unb now) p.frac] ++ (if r.jailed then [] else [.jail v]) ++
            [.jailUntil v jailEnd] ++ (if p.tomb then [.tombstone v] else []))

/-- the whole message: ValidateBasic, msg server, HandleConsumerDoubleVoting -/
def handleDV (s : State) (unb : List Unb) (c : CId) (e : Evidence) : Option (List Effect) :=
  if !basicOK e then none
  else
    match e.hv with
    | none => none
    | some hv =>
      if hv.isEmpty then none                               -- ValidatorSetFromProto fails
      else if !hv.contains e.a.addr then none               -- misbehaving validator not in the header's set
      else
        let x := s.get c
        if x.client.isNone then none                        -- not an ICS consumer with a client
        else if e.a.height < x.evmin then none              -- too old
        else if !verifyDV e x.chain e.a.addr then none
        else
          match x.infr.bind (·.ds) with
          | none => none
          | some ds => punish s.stk unb s.now (providerOf x e.a.addr) ds

/-- effect of the staking / slashing calls on the staking view (`burn`: tokens burned by a slash) -/
def applyEffect (burn : Nat → Nat → String → Nat) (stk : List SVal) : Effect → List SVal
  | .slash v p f => stk.map fun r => if r.id == v then { r with tokens := r.tokens - burn r.tokens p f } else r
  | .jail v => stk.map fun r => if r.id == v then { r with jailed := true } else r
  | .jailUntil v t => stk.map fun r => if r.id == v then { r with jailedUntil := t } else r
  | .tombstone v => stk.map fun r => if r.id == v then { r with tomb := true } else r

def applyEffects (burn : Nat → Nat → String → Nat) (stk : List SVal) (es : List Effect) : List SVal :=
  es.foldl (applyEffect burn) stk

end ICS.Equiv
