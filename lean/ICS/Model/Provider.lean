/-
  Model of the provider module's consumer lifecycle: MsgCreateConsumer / MsgUpdateConsumer /
  MsgRemoveConsumer (keeper/msg_server.go), BeginBlockLaunchConsumers / LaunchConsumer /
  StopAndPrepareForConsumerRemoval / BeginBlockRemoveConsumers / DeleteConsumerChain
  (keeper/consumer_lifecycle.go), the time queues (ConsumeIdsFromTimeQueue), the infraction
  parameter queue (keeper/infraction_parameters.go) and the client/channel indexes.

  Messages are atomic (baseapp runs them in a cache context): a handler either fails and leaves
  the state unchanged, or succeeds with the final state computed here.  Times are nanosecond
  offsets (`Int`); 0 encodes Go's zero time.
-/
import ICS.Model.Epoch
namespace ICS.Provider
open ICS ICS.Epoch

abbrev Time := Int
abbrev CId := String

inductive Phase | unspecified | registered | initialized | launched | stopped | deleted
deriving DecidableEq, Repr, Inhabited

def Phase.toNat : Phase → Nat
  | .unspecified => 0 | .registered => 1 | .initialized => 2 | .launched => 3 | .stopped => 4 | .deleted => 5

def Phase.fromNat : Nat → Phase
  | 1 => .registered | 2 => .initialized | 3 => .launched | 4 => .stopped | 5 => .deleted | _ => .unspecified

structure SlashJail where
  frac : String
  jail : Int
  tomb : Bool
deriving DecidableEq, Repr, Inhabited

structure Infr where
  ds : Option SlashJail
  dt : Option SlashJail
deriving DecidableEq, Repr, Inhabited

structure Packet where
  id      : Nat
  updates : List ValSet.Update
  acks    : List Nat := []
deriving DecidableEq, Repr, Inhabited

structure Consumer where
  id      : CId
  phase   : Phase := .unspecified
  owner   : String := ""
  chain   : String := ""
  chainRev : Nat := 0            -- clienttypes.ParseChainID(chain)
  hasInit : Bool := false
  spawn   : Time := 0
  conn    : String := ""
  initRev : Nat := 1             -- InitialHeight.RevisionNumber
  ps      : Option PS := none
  allow   : List Nat := []
  deny    : List Nat := []
  prio    : List Nat := []
  optin   : List Nat := []
  valset  : List CVal := []
  client  : Option String := none
  channel : Option String := none
  removal : Option Time := none
  minpow  : Option Nat := none
  pend    : List Packet := []
  acks    : List Nat := []
  ka      : List (Nat × Nat) := []       -- validator ↦ consumer key
  byaddr  : List (Nat × Nat) := []       -- consumer key ↦ validator
  prune   : List (Time × List Nat) := []
  infr    : Option Infr := none
  qinfr   : Option Infr := none
  initH   : Option Nat := none
  genesis : Option (List ValSet.Update) := none
  evmin   : Nat := 0
  commission : List (Nat × String) := []
deriving Repr, Inhabited

abbrev TimeQueue := List (Time × List CId)

structure State where
  consumers : List Consumer := []
  nextId    : Nat := 0
  spawnQ    : TimeQueue := []
  removeQ   : TimeQueue := []
  infrQ     : TimeQueue := []
  vscId     : Nat := 1
  client2c  : List (String × CId) := []
  chan2c    : List (String × CId) := []
  -- environment / parameters (inputs)
  stk       : List SVal := []
  bonded    : List Nat := []       -- GetBondedValidatorsByPower
  maxVals   : Nat := 100
  m         : Nat := 100           -- MaxProviderConsensusValidators
  epoch     : Nat := 1
  unbonding : Int := 0
  now       : Time := 0
  height    : Nat := 1
  authority : String := "gov"
  nextClient : Nat := 0
deriving Repr, Inhabited

def State.get (s : State) (c : CId) : Consumer :=
  match s.consumers.find? (·.id == c) with
  | some x => x
  | none => { id := c }

def State.set (s : State) (x : Consumer) : State :=
  if s.consumers.any (·.id == x.id) then
    { s with consumers := s.consumers.map fun y => if y.id == x.id then x else y }
  else { s with consumers := s.consumers ++ [x] }

def State.phaseOf (s : State) (c : CId) : Phase := (s.get c).phase

def isPrelaunched (p : Phase) : Bool := p == .registered || p == .initialized
def isActive (p : Phase) : Bool := p == .registered || p == .initialized || p == .launched

/-! ### time queues -/

/-- appendConsumerIdOnTime: key order = time order -/
def tqAppend (q : TimeQueue) (t : Time) (c : CId) : TimeQueue :=
  if q.any (·.1 == t) then q.map fun e => if e.1 == t then (e.1, e.2 ++ [c]) else e
  else
    let before := q.filter (·.1 < t)
    let after := q.filter (fun e => decide (t < e.1))
    before ++ [(t, [c])] ++ after

/-- removeConsumerIdFromTime: `none` = error -/
def tqRemove (q : TimeQueue) (t : Time) (c : CId) : Option TimeQueue :=
  match q.find? (·.1 == t) with
  | none => none
  | some e =>
    if !e.2.contains c then none
    else if e.2.length == 1 then some (q.filter (fun x => x.1 != t))
    else some (q.map fun x => if x.1 == t then (x.1, x.2.erase c) else x)

/-- ConsumeIdsFromTimeQueue: (ids to process, queue afterwards) -/
def tqConsume (q : TimeQueue) (now : Time) (limit : Nat) : List CId × TimeQueue :=
  let rec go : TimeQueue → List CId → List CId × TimeQueue
    | [], res => (res, [])
    | (t, ids) :: rest, res =>
      if res.length ≥ limit then (res, (t, ids) :: rest)
      else if t > now then (res, (t, ids) :: rest)
      else
        let avail := limit - res.length
        if avail ≥ ids.length then go rest (res ++ ids)
        else (res ++ ids.take avail, (t, ids.drop avail) :: rest)
  go q []

/-! ### message validation (ValidateBasic of types/msg.go, the parts the streams exercise) -/

/-- strings.TrimSpace(s) == "" -/
def isBlank (s : String) : Bool := s.toList.all Char.isWhitespace

def validChainId (chain : String) : Bool :=
  !isBlank chain && chain.length ≤ 50 && chain != "neutron-1" && chain != "stride-1"

def validPS (ps : PS) : Bool :=
  (ps.topN == 0 || (50 ≤ ps.topN && ps.topN ≤ 100)) && ps.powCap ≤ 100

structure InitArgs where
  spawn : Time
  conn  : String
  rev   : Nat := 1
deriving Repr, Inhabited

structure PSArgs where
  ps    : PS
  allow : List Nat
  deny  : List Nat
  prio  : List Nat
deriving Repr, Inhabited

/-- the lists stored in the index stores are the de-duplicated, key-ordered address sets; the
    driver compares them as sorted id lists -/
def normList (l : List Nat) : List Nat := isort (fun a b => decide (a ≤ b)) l.eraseDups

def defaultInfr : Infr :=
  { ds := some { frac := "0.050000000000000000", jail := 9223372036854775807, tomb := true },
    dt := some { frac := "0.000000000000000000", jail := 600000000000, tomb := false } }

/-! ### launch -/

def epochInput (s : State) (x : Consumer) (current : List CVal) : Input :=
  { stk := s.stk, bonded := s.bonded.take s.maxVals, m := s.m, height := s.height,
    ps := x.ps.getD {}, allow := x.allow, deny := x.deny, prio := x.prio, optin := x.optin,
    ka := x.ka, current := current }

def hasActiveValidator (s : State) (next : List CVal) : Bool :=
  next.any fun c => (s.bonded.take s.m).contains c.v

/-- environment facts a launch depends on (inputs of the model, given by the trace) -/
structure LaunchEnv where
  /-- for a consumer with a named connection: the client of that connection, its chain id and
      latest height, if the connection and a tendermint client exist -/
  connClient : Option (String × String × Nat) := none
  envFails   : Bool := false      -- an injected failure of an external call inside the launch
deriving Repr, Inhabited

/-- the client binding part of a launch (CreateConsumerClient / the named-connection branch of
    MakeConsumerGenesis); `x` is the consumer record with the initial validator set already written -/
def launchBind (s : State) (c : CId) (x : Consumer) (env : LaunchEnv) : Option State :=
  if x.conn == "" then
    -- CreateConsumerClient: phase must be initialized; the light client validates the revision
    if x.phase != .initialized then none
    else if x.chainRev != x.initRev then none
    else
      let cid := s!"07-tendermint-{s.nextClient}"
      some { (s.set { x with client := some cid, evmin := 1, phase := .launched }) with
               client2c := s.client2c.filter (fun e => e.1 != cid) ++ [(cid, c)], nextClient := s.nextClient + 1 }
  else
    match env.connClient with
    | none => none
    | some (cid, chainOfClient, h) =>
      if chainOfClient != x.chain then none
      -- the client of the named connection must not already be bound to another consumer
      else if s.client2c.any (fun e => e.1 == cid && e.2 != c) then none
      else
        -- SetConsumerClientId: forward binding overwritten, reverse index moved
        let rev : List (String × CId) := match x.client with
          | some old => s.client2c.filter (fun e => e.1 != old)
          | none => s.client2c
        some { (s.set { x with client := some cid, evmin := h, phase := .launched }) with
                 client2c := rev.filter (fun e => e.1 != cid) ++ [(cid, c)] }

/-- the record after ComputeConsumerNextValSet at launch; `none` = the launch fails before binding -/
def launchRecord (s : State) (c : CId) (env : LaunchEnv) : Option Consumer :=
  let x := s.get c
  match x.ps with
  | none => none
  | some _ =>
  match computeNextValSet (epochInput s x []) with
  | none => none
  | some out =>
    if out.updates.isEmpty then none                 -- no consumer validator
    else if !hasActiveValidator s out.next then none -- no active provider validator among them
    else if env.envFails then none
    else some { x with optin := out.optin, valset := out.next,
                       minpow := match out.minpow with | some m => some m | none => x.minpow,
                       genesis := some out.updates }

/-- LaunchConsumer in its cached context: `none` = failed (nothing written) -/
def launchConsumer (s : State) (c : CId) (env : LaunchEnv) : Option State :=
  match launchRecord s c env with
  | none => none
  | some x => launchBind s c x env

/-- the fall-back after a failed launch: spawn time cleared, phase registered.  The code re-writes
    the initialization parameters through SetConsumerInitializationParameters, which validates the
    initial height against the chain id: `none` = that write fails and BeginBlock returns an error. -/
def launchFallback (s : State) (c : CId) : Option State :=
  let x := s.get c
  if x.initRev != x.chainRev then none
  else some (s.set { x with spawn := 0, phase := .registered })

/-- BeginBlockLaunchConsumers: `envOf c` gives the environment facts of each due consumer;
    `none` = the block fails -/
def beginBlockLaunch? (s : State) (envOf : CId → LaunchEnv) : Option State :=
  let r := tqConsume s.spawnQ s.now 200
  let s := { s with spawnQ := r.2 }
  r.1.foldl (fun (acc : Option State) c =>
    match acc with
    | none => none
    | some s =>
      match launchConsumer s c (envOf c) with
      | some s' => some s'
      | none => launchFallback s c) (some s)

def beginBlockLaunch (s : State) (envOf : CId → LaunchEnv) : State :=
  (beginBlockLaunch? s envOf).getD s

/-! ### stop and removal -/

/-- StopAndPrepareForConsumerRemoval -/
def stopRecord (t : Time) (x : Consumer) : Consumer := { x with phase := .stopped, removal := some t }

def stopConsumer (s : State) (c : CId) : State :=
  let t := s.now + s.unbonding
  { (s.set (stopRecord t (s.get c))) with removeQ := tqAppend s.removeQ t c }

/-- what DeleteConsumerChain leaves of a consumer: the descriptive records only -/
def clearRecord (x : Consumer) : Consumer :=
  { x with client := none, genesis := none, ka := [], byaddr := [], prune := [], minpow := none,
           evmin := 0, channel := none, commission := [], initH := none, acks := [], pend := [],
           allow := [], deny := [], optin := [], valset := [], prio := [], removal := none,
           qinfr := none, phase := .deleted }

/-- DeleteConsumerChain in its cached context: `none` = failed -/
def deleteConsumerChain (s : State) (c : CId) : Option State :=
  let x := s.get c
  if x.phase != .stopped then none
  else
    let client2c := match x.client with
      | some cid => s.client2c.filter (·.1 != cid)
      | none => s.client2c
    let chan2c := match x.channel with
      | some ch => s.chan2c.filter (·.1 != ch)
      | none => s.chan2c
    let infrQ := match x.qinfr with
      | some _ => s.infrQ.filterMap fun e =>
          let ids := e.2.erase c
          if ids.isEmpty then none else some (e.1, ids)
      | none => s.infrQ
    some { (s.set (clearRecord x)) with client2c := client2c, chan2c := chan2c, infrQ := infrQ }

def beginBlockRemove (s : State) : State :=
  let r := tqConsume s.removeQ s.now 200
  let s := { s with removeQ := r.2 }
  r.1.foldl (fun s c => match deleteConsumerChain s c with | some s' => s' | none => s) s

/-- BeginBlockUpdateInfractionParameters -/
def beginBlockInfraction (s : State) : State :=
  let r := tqConsume s.infrQ s.now 200
  let s := { s with infrQ := r.2 }
  r.1.foldl (fun s c =>
    let x := s.get c
    match x.qinfr with
    | some q => s.set { x with infr := some q, qinfr := none }
    | none => s) s

/-! ### messages -/

/-- InitializeConsumer + PrepareConsumerForLaunch; `none` = error -/
def initializeAndPrepare (s : State) (c : CId) (prevSpawn : Time) : Option State :=
  let x := s.get c
  if !(isPrelaunched x.phase) || !x.hasInit || x.spawn == 0 then some s
  else
    let s := s.set { x with phase := .initialized }
    let q := if prevSpawn != 0 then tqRemove s.spawnQ prevSpawn c else some s.spawnQ
    match q with
    | none => none
    | some q => some { s with spawnQ := tqAppend q x.spawn c }

structure CreateArgs where
  sender : String
  chain  : String
  chainRev : Nat
  init   : Option InitArgs
  ps     : Option PSArgs
  infr   : Option Infr
deriving Repr, Inhabited

/-- ValidateBasic and the handler's own checks of MsgCreateConsumer -/
def createOK (a : CreateArgs) : Bool :=
  validChainId a.chain &&
  (match a.ps with | some p => p.ps.topN == 0 && validPS p.ps | none => true) &&
  -- SetConsumerInitializationParameters: ValidateInitialHeight against the chain id's revision
  (a.init.getD { spawn := 0, conn := "", rev := 1 }).rev == a.chainRev

/-- the record written by MsgCreateConsumer before InitializeConsumer runs -/
def createRecord (c : CId) (a : CreateArgs) : Consumer :=
  let ini : InitArgs := a.init.getD { spawn := 0, conn := "", rev := 1 }
  let p : PSArgs := a.ps.getD { ps := {}, allow := [], deny := [], prio := [] }
  let infr : Infr := match a.infr with
    | some i => { ds := i.ds.orElse (fun _ => defaultInfr.ds), dt := i.dt.orElse (fun _ => defaultInfr.dt) }
    | none => defaultInfr
  { id := c, phase := .registered, owner := a.sender, chain := a.chain, chainRev := a.chainRev,
    hasInit := true, spawn := ini.spawn, conn := ini.conn, initRev := ini.rev,
    ps := some p.ps, allow := normList p.allow, deny := normList p.deny, prio := normList p.prio,
    infr := some infr }

/-- MsgCreateConsumer (ValidateBasic + handler); `none` = rejected -/
def createConsumer (s : State) (a : CreateArgs) : Option (State × CId) :=
  if createOK a then
    let c := toString s.nextId
    match initializeAndPrepare { (s.set (createRecord c a)) with nextId := s.nextId + 1 } c 0 with
    | none => none
    | some s2 => some (s2, c)
  else none

structure UpdateArgs where
  sender   : String
  c        : CId
  newOwner : Option String     -- some "" = syntactically invalid address
  newChain : String
  newChainRev : Nat
  init     : Option InitArgs
  ps       : Option PSArgs
  infr     : Option Infr
deriving Repr, Inhabited

def validConsumerId (c : CId) : Bool := c != "" && c.toList.all Char.isDigit

/-- UpdateMinimumPowerInTopN; `none` = error -/
def updateMinPower (s : State) (x : Consumer) (oldTopN newTopN : Nat) : Option Consumer :=
  if newTopN != oldTopN then
    if newTopN > 0 then
      let act := (s.bonded.take s.m)
      match TopN.computeMinPowerInTopN (act.map (lastPower s.stk)) newTopN with
      | some mp => some { x with minpow := some mp }
      | none => none
    else some { x with minpow := none }
  else some x

def mergeInfr (cur : Infr) (new : Infr) : Infr :=
  { ds := new.ds.orElse (fun _ => cur.ds), dt := new.dt.orElse (fun _ => cur.dt) }

def dropFromQueue (q : TimeQueue) (c : CId) : TimeQueue :=
  q.filterMap fun e =>
    let ids := e.2.erase c
    if ids.isEmpty then none else some (e.1, ids)

/-- RemoveConsumerInfractionQueuedData -/
def clearQueued (s : State) (c : CId) : State :=
  { (s.set { s.get c with qinfr := none }) with
      infrQ := if (s.get c).qinfr.isSome then dropFromQueue s.infrQ c else s.infrQ }

/-- UpdateQueuedInfractionParams -/
def updateQueuedInfr (s : State) (c : CId) (new : Infr) : State :=
  let s1 := clearQueued s c
  if (s1.get c).infr == some new then s1
  else { (s1.set { s1.get c with qinfr := some new }) with infrQ := tqAppend s1.infrQ (s1.now + s1.unbonding) c }

/-- MsgUpdateConsumer up to (not including) the final owner/Top-N cross check: the state written so
    far and the spawn time the consumer had before the message -/
def updateGuard (s : State) (a : UpdateArgs) : Bool :=
  validConsumerId a.c && (match a.ps with | some p => validPS p.ps | none => true) &&
  isActive (s.get a.c).phase && a.sender == (s.get a.c).owner

def updateCore (s : State) (a : UpdateArgs) : Option (State × Time) :=
  if !updateGuard s a then none
  else
    let x := s.get a.c
    let oldOwner := x.owner
    -- chain id
    let r1 : Option Consumer :=
      if !isBlank a.newChain && a.newChain != x.chain then
        if !validChainId a.newChain then none
        else if isPrelaunched x.phase then some { x with chain := a.newChain, chainRev := a.newChainRev }
        else none
      else some x
    match r1 with
    | none => none
    | some x =>
    -- owner
    let r2 : Option Consumer := match a.newOwner with
      | none => some x
      | some o => if o == "" then none else some { x with owner := o }
    match r2 with
    | none => none
    | some x =>
    let prevSpawn := x.spawn
    -- initialization parameters
    let r3 : Option (State × Consumer) := match a.init with
      | none =>
        -- the stored initial height must match the (possibly new) chain id (fix for F3)
        if x.initRev != x.chainRev then none else some (s, x)
      | some ini =>
        if !isPrelaunched x.phase then none
        else
          let r : Option (State × Consumer) :=
            if ini.spawn == 0 && x.phase == .initialized then
              match tqRemove s.spawnQ prevSpawn a.c with
              | none => none
              | some q => some ({ s with spawnQ := q }, { x with phase := .registered })
            else some (s, x)
          match r with
          | none => none
          | some (s, x) =>
            if ini.rev != x.chainRev then none
            else some (s, { x with hasInit := true, spawn := ini.spawn, conn := ini.conn, initRev := ini.rev })
    match r3 with
    | none => none
    | some (s, x) =>
    -- power shaping
    let r4 : Option Consumer := match a.ps with
      | none => some x
      | some p =>
        if p.ps.topN > 0 && oldOwner != s.authority then none
        else
          let oldTopN := (x.ps.getD {}).topN
          let x := { x with ps := some p.ps, allow := normList p.allow, deny := normList p.deny, prio := normList p.prio }
          updateMinPower s x oldTopN p.ps.topN
    match r4 with
    | none => none
    | some x =>
    -- infraction parameters
    let s := s.set x
    let s := match a.infr with
      | none => s
      | some i =>
        let cur := x.infr.getD defaultInfr
        let new := mergeInfr cur i
        if isPrelaunched x.phase then s.set { x with infr := some new }
        else updateQueuedInfr s a.c new
    some (s, prevSpawn)

/-- MsgUpdateConsumer; `none` = rejected -/
def updateConsumer (s : State) (a : UpdateArgs) : Option State :=
  match updateCore s a with
  | none => none
  | some (s1, prevSpawn) =>
    -- a Top-N consumer must be owned by the governance authority after the update
    if ((s1.get a.c).ps.getD {}).topN != 0 && (s1.get a.c).owner != s1.authority then none
    else initializeAndPrepare s1 a.c prevSpawn


/-- MsgRemoveConsumer; `none` = rejected -/
def removeConsumer (s : State) (sender : String) (c : CId) : Option State :=
  if !validConsumerId c then none
  else
    let x := s.get c
    if x.phase == .unspecified then none        -- no owner record
    else if sender != x.owner then none
    else if x.phase != .launched then none
    else some (stopConsumer s c)


/-! ### key assignment, opt-in / opt-out (key_assignment.go, partial_set_security.go, hooks.go) -/

def valExists (s : State) (v : Nat) : Bool := s.stk.any (·.id == v)

def assignedKey (x : Consumer) (v : Nat) : Option Nat :=
  match x.ka.find? (·.1 == v) with
  | some p => some p.2
  | none => none

def resolveKey (x : Consumer) (k : Nat) : Option Nat :=
  match x.byaddr.find? (·.1 == k) with
  | some p => some p.2
  | none => none

/-- GetProviderAddrFromConsumerAddr: identity fallback for keys that were never assigned.
    (key id k < number of validators = provider key of validator k) -/
def providerOf (x : Consumer) (k : Nat) : Nat := (resolveKey x k).getD k

def setAssoc (l : List (Nat × Nat)) (k v : Nat) : List (Nat × Nat) :=
  if l.any (·.1 == k) then l.map fun e => if e.1 == k then (k, v) else e else l ++ [(k, v)]

/-- AppendConsumerAddrsToPrune -/
def pruneAppend (pr : List (Time × List Nat)) (t : Time) (k : Nat) : List (Time × List Nat) :=
  if pr.any (·.1 == t) then pr.map fun e => if e.1 == t then (t, e.2 ++ [k]) else e
  else (pr.filter (·.1 < t)) ++ [(t, [k])] ++ pr.filter (fun e => decide (t < e.1))

/-- the checks of Keeper.AssignConsumerKey, in code order -/
def assignOK (s : State) (c : CId) (v key : Nat) : Bool :=
  let x := s.get c
  isActive x.phase &&
  -- the key is the provider key of an existing validator: only the validator itself may take it,
  -- and only after it had assigned a different key on this consumer
  (!valExists s key || (key == v && (assignedKey x v).isSome)) &&
  -- the key is in use on this consumer, or was replaced and still waits to be pruned
  (resolveKey x key).isNone

/-- the writes of Keeper.AssignConsumerKey -/
def assignRecord (pruneAt : Time) (v key : Nat) (x : Consumer) : Consumer :=
  let x1 : Consumer := match assignedKey x v with
    | some old =>
      if x.phase == Phase.launched then { x with prune := pruneAppend x.prune pruneAt old }
      else { x with byaddr := x.byaddr.filter fun b => b.1 != old }
    | none => x
  { x1 with ka := setAssoc x1.ka v key, byaddr := setAssoc x1.byaddr key v }

/-- Keeper.AssignConsumerKey; `none` = rejected -/
def assignKey (s : State) (c : CId) (v key : Nat) : Option State :=
  if assignOK s c v key then some (s.set (assignRecord (s.now + s.unbonding) v key (s.get c))) else none

/-- MsgAssignConsumerKey (ValidateBasic: signer is the validator's operator) -/
def msgAssignKey (s : State) (c : CId) (v signer key : Nat) : Option State :=
  if !validConsumerId c || signer != v then none
  else if !valExists s v then none
  else assignKey s c v key

/-- MsgOptIn -/
def msgOptIn (s : State) (c : CId) (v signer : Nat) (key : Option Nat) : Option State :=
  if !validConsumerId c || signer != v then none
  else if !valExists s v then none
  else
    let x := s.get c
    if !isActive x.phase then none
    else
      let s := s.set { x with optin := if x.optin.contains v then x.optin else x.optin ++ [v] }
      match key with
      | none => some s
      | some k => assignKey s c v k

/-- MsgOptOut -/
def msgOptOut (s : State) (c : CId) (v signer : Nat) : Option State :=
  if !validConsumerId c || signer != v then none
  else if !valExists s v then none
  else
    let x := s.get c
    if x.phase != .launched then none
    else
      let topN := (x.ps.getD {}).topN
      let blocked : Bool :=
        if topN > 0 then
          match x.minpow with
          | none => true
          | some mp => decide (lastPower s.stk v ≥ mp)
        else false
      if blocked then none
      else some (s.set { x with optin := x.optin.filter (· != v) })

/-- staking hook AfterValidatorCreated: the creation is aborted iff the new validator's consensus
    key is known (assigned or waiting for pruning) on some ACTIVE consumer -/
def validatorKeyInUse (s : State) (key : Nat) : Bool :=
  s.consumers.any fun x => isActive x.phase && (resolveKey x key).isSome

/-- staking hook AfterValidatorRemoved -/
def afterValidatorRemoved (s : State) (v : Nat) : State :=
  { s with consumers := s.consumers.map fun x =>
      match assignedKey x v with
      | some k => { x with ka := x.ka.filter (·.1 != v), byaddr := x.byaddr.filter (·.1 != k) }
      | none => x }

/-! ### jail throttling (throttle.go) and downtime slash packets (relay.go) -/

structure Throttle where
  meter     : Int := 0
  candidate : Time := 0           -- SlashMeterReplenishTimeCandidate
  period    : Int := 3600000000000
  fracScaled : Nat := 50000000000000000   -- replenish fraction as a 10^18-scaled integer
deriving Repr, Inhabited

/-- GetSlashMeterAllowance: banker's-rounded fraction of the total power, at least 1 -/
def allowance (t : Throttle) (totalPower : Nat) : Nat :=
  let r := TopN.chopRound (t.fracScaled * totalPower)
  if r == 0 then 1 else r

def totalPower (s : State) : Nat := (s.stk.map (·.lastPower)).sum

/-- ReplenishSlashMeter when the candidate time has been reached: add one allowance, capped at the
    allowance; the next candidate is one period from now -/
def replenishStep (t : Throttle) (now : Time) (allow : Nat) : Throttle :=
  if now ≥ t.candidate then
    { t with meter := if t.meter + allow > allow then allow else t.meter + allow, candidate := now + t.period }
  else t

/-- the meter is never above the allowance of this block; while it is full the candidate keeps moving -/
def clampStep (t : Throttle) (now : Time) (allow : Nat) : Throttle :=
  if t.meter ≥ allow then { t with candidate := now + t.period, meter := allow } else t

/-- CheckForSlashMeterReplenishment (BeginBlockCIS) -/
def checkReplenish (t : Throttle) (now : Time) (allow : Nat) : Throttle :=
  clampStep (replenishStep t now allow) now allow

structure SlashPkt where
  key        : Nat
  power      : Nat
  vscId      : Nat
  infraction : Nat      -- 0 unspecified, 1 double sign, 2 downtime
deriving Repr, Inhabited

inductive SlashAck | panic | error | v1 | handled | bounced
deriving DecidableEq, Repr

/-- an effect on the staking / slashing modules (what the keeper asks them to do) -/
inductive StkEffect
  | slash (v infractionHeight power : Nat) (frac : String)
  | jail (v : Nat)
  | jailUntil (v : Nat) (t : Time)
deriving DecidableEq, Repr

/-- getMappedInfractionHeight -/
def mappedInfractionHeight (x : Consumer) (vsc2h : List (Nat × Nat)) (vscId : Nat) : Option Nat :=
  if vscId == 0 then x.initH
  else match vsc2h.find? (·.1 == vscId) with
    | some e => some e.2
    | none => none

/-- GetEffectiveValPower -/
def effectivePower (s : State) (v : Nat) : Nat :=
  match s.stk.find? (·.id == v) with
  | some r => if r.jailed then 0 else r.lastPower
  | none => 0

/-- HandleSlashPacket: (slash acks afterwards, effects on staking) -/
def handleSlash (s : State) (x : Consumer) (vsc2h : List (Nat × Nat)) (p : SlashPkt) : List Nat × List StkEffect :=
  let v := providerOf x p.key
  match s.stk.find? (·.id == v) with
  | none => (x.acks, [])                               -- validator not found
  | some r =>
    if r.status == 1 then (x.acks, [])                 -- unbonded
    else if r.tomb then (x.acks, [])                   -- tombstoned
    else
      match mappedInfractionHeight x vsc2h p.vscId with
      | none => (x.acks, [])
      | some ih =>
        let acks := x.acks ++ [p.key]
        match x.infr with
        | none => (acks, [])
        | some ip =>
          match ip.dt with
          | none => (acks, [])
          | some dt =>
            if r.jailed then (acks, [])
            else (acks, [.slash v ih p.power dt.frac, .jail v, .jailUntil v (s.now + dt.jail)])

/-- when HandleSlashPacket jails: (validator, infraction height, the consumer's downtime parameters) -/
def jailPlan (s : State) (x : Consumer) (vsc2h : List (Nat × Nat)) (p : SlashPkt) : Option (Nat × Nat × SlashJail) :=
  let v := providerOf x p.key
  match s.stk.find? (·.id == v) with
  | none => none
  | some r =>
    if r.status == 1 || r.tomb || r.jailed then none
    else
      match mappedInfractionHeight x vsc2h p.vscId, x.infr.bind (·.dt) with
      | some ih, some dt => some (v, ih, dt)
      | _, _ => none

/-- OnRecvSlashPacket: new state, meter, staking effects, acknowledgement -/
def onRecvSlash (s : State) (t : Throttle) (vsc2h : List (Nat × Nat)) (chan : String) (p : SlashPkt) :
    State × Throttle × List StkEffect × SlashAck :=
  match s.chan2c.find? (·.1 == chan) with
  | none => (s, t, [], .panic)
  | some e =>
    let c := e.2
    let x := s.get c
    if p.power == 0 then (s, t, [], .error)
    else if p.infraction != 1 && p.infraction != 2 then (s, t, [], .error)
    else if (mappedInfractionHeight x vsc2h p.vscId).isNone then (s, t, [], .error)
    else if p.infraction == 1 then (s, t, [], .v1)                 -- double sign: logged, never punished here
    else if x.phase != .launched then (s.set { x with acks := x.acks ++ [p.key] }, t, [], .handled)
    else
      let v := providerOf x p.key
      if !(x.valset.any (·.v == v)) then (s.set { x with acks := x.acks ++ [p.key] }, t, [], .handled)
      else if t.meter < 0 then (s, t, [], .bounced)
      else
        let t' := { t with meter := t.meter - effectivePower s v }
        let r := handleSlash s x vsc2h p
        (s.set { x with acks := r.1 }, t', r.2, .handled)

/-! ### channel handshake (ibc_module.go, keeper.go VerifyConsumerChain / SetConsumerChain) -/

/-- a connection as the provider sees it: its client, and whether that client is a tendermint client -/
structure ConnInfo where
  client : String
  isTM   : Bool
deriving Repr, Inhabited

/-- OnChanOpenTry: accepted iff ordered, the provider port, the consumer port, the supported version,
    exactly one hop, whose client is the client recorded for exactly one consumer that has no CCV
    channel yet -/
def chanOpenTry (s : State) (ordered : Bool) (port cport ver : String) (hops : List String)
    (connOf : String → Option ConnInfo) : Bool :=
  ordered && port == "provider" && cport == "consumer" && ver == "1" &&
  (match hops with
   | [h] =>
     (match connOf h with
      | some ci =>
        ci.isTM &&
        (match s.client2c.find? (·.1 == ci.client) with
         | some e =>
           let x := s.get e.2
           x.client == some ci.client && x.channel.isNone
         | none => false)
      | none => false)
   | _ => false)

/-- OnChanOpenInit / OnChanOpenAck: the provider never initiates -/
def chanOpenInit : Bool := false

/-- OnChanOpenConfirm → SetConsumerChain; `none` = error -/
def chanOpenConfirm (s : State) (ch : String) (hopsOf : Option (List String))
    (connOf : String → Option ConnInfo) : Option State :=
  match hopsOf with
  | some [h] =>
    (match connOf h with
     | some ci =>
       if !ci.isTM then none
       else match s.client2c.find? (·.1 == ci.client) with
         | some e =>
           let x := s.get e.2
           if x.channel.isSome then none
           else some { (s.set { x with channel := some ch, initH := some s.height }) with
                        chan2c := s.chan2c.filter (fun p => p.1 != ch) ++ [(ch, e.2)] }
         | none => none
     | none => none)
  | _ => none

/-- OnTimeoutPacket, and OnAcknowledgementPacket with an error acknowledgement: the consumer of the
    channel is stopped (again, if it already was); `none` = unknown channel, the callback fails -/
def timeoutOrErrorAck (s : State) (ch : String) : Option State :=
  match s.chan2c.find? (·.1 == ch) with
  | some e => some (stopConsumer s e.2)
  | none => none

/-! ### EndBlock: CIS (id ↦ height, key pruning) then VSU (provider set, epoch: queue and send) -/

structure GlobalVS where
  lastProv : List CVal := []            -- LastProviderConsensusValSet
  vsc2h    : List (Nat × Nat) := []
deriving Repr, Inhabited

/-- GetAllConsumersWithIBCClients: store iteration over `prefix|consumerId`, i.e. byte order of ids -/
def consumersWithClients (s : State) : List Consumer :=
  isort (fun a b => decide (a.id ≤ b.id)) (s.consumers.filter fun x => x.client.isSome)

/-- PruneKeyAssignments -/
def pruneKeys (x : Consumer) (now : Time) : Consumer :=
  let due := x.prune.filter fun e => decide (e.1 ≤ now)
  let keys := due.flatMap (·.2)
  { x with prune := x.prune.filter (fun e => decide (now < e.1)),
           byaddr := x.byaddr.filter fun b => !keys.contains b.1 }

def setV2H (m : List (Nat × Nat)) (id h : Nat) : List (Nat × Nat) :=
  if m.any (·.1 == id) then m.map fun e => if e.1 == id then (id, h) else e
  else isort (fun a b => decide (a.1 ≤ b.1)) (m ++ [(id, h)])

def endBlockCIS (s : State) (g : GlobalVS) : State × GlobalVS :=
  let g := { g with vsc2h := setV2H g.vsc2h s.vscId (s.height + 1) }
  let s := (consumersWithClients s).foldl (fun s x => s.set (pruneKeys (s.get x.id) s.now)) s
  (s, g)

/-- ProviderValidatorUpdates -/
def providerValUpdates (s : State) (g : GlobalVS) : GlobalVS × List ValSet.Update :=
  let next : List CVal := (s.bonded.take s.m).map fun v => { v := v, key := v, power := lastPower s.stk v, join := 0 }
  ({ g with lastProv := next }, ValSet.diff (toVals g.lastProv) (toVals next))

/-- QueueVSCPackets; `none` = error (the block fails) -/
def queueOne (s : State) (c : CId) : Option State :=
  let x := s.get c
  if x.phase != .launched then some s          -- only launched consumers get validator updates
  else
    match x.ps with
    | none => none
    | some _ =>
    match computeNextValSet (epochInput s x x.valset) with
    | none => none
    | some out =>
      let x := { x with optin := out.optin, valset := out.next,
                        minpow := match out.minpow with | some m => some m | none => x.minpow }
      let x := if out.updates.isEmpty then x
               else { x with pend := x.pend ++ [{ id := s.vscId, updates := out.updates, acks := x.acks }], acks := [] }
      some (s.set x)

def queueVSC (s : State) : Option State :=
  let r := (consumersWithClients s).foldl (fun (acc : Option State) x0 =>
    match acc with
    | none => none
    | some s => queueOne s x0.id) (some s)
  match r with
  | none => none
  | some s => some { s with vscId := s.vscId + 1 }

/-- SendVSCPackets with a healthy channel: everything pending is sent, in order, and dropped -/
def sendOne (acc : State × List (CId × Packet)) (c : CId) : State × List (CId × Packet) :=
  let x := acc.1.get c
  if x.phase != .launched || x.channel.isNone then acc
  else (acc.1.set { x with pend := [] }, acc.2 ++ x.pend.map fun p => (x.id, p))

def sendVSC (s : State) : State × List (CId × Packet) :=
  (consumersWithClients s).foldl (fun acc x0 => sendOne acc x0.id) (s, [])

/-- EndBlock of the provider module; `none` = error -/
def endBlock (s : State) (g : GlobalVS) : Option (State × GlobalVS × List ValSet.Update × List (CId × Packet)) :=
  let r := endBlockCIS s g
  let pv := providerValUpdates r.1 r.2
  if r.1.height % r.1.epoch == 0 then
    match queueVSC r.1 with
    | none => none
    | some s2 =>
      let sent := sendVSC s2
      some (sent.1, pv.1, pv.2, sent.2)
  else some (r.1, pv.1, pv.2, [])

end ICS.Provider
