/-
  Model of the pure power-shaping functions of x/ccv/provider/keeper/power_shaping.go:
  NoMoreThanPercentOfTheSum, CapValidatorSet, PartitionBasedOnPriorityList,
  ComputeMinPowerInTopN (see Model/TopN.lean for the LegacyDec arithmetic).
  Core Lean only.
-/
import ICS.Util
namespace ICS.Shaping

/-- a consumer validator as far as shaping is concerned: provider validator id and power -/
structure CV where
  id    : Nat
  power : Nat
deriving DecidableEq, Repr, Inhabited

def sumPower (l : List CV) : Nat := (l.map (·.power)).sum

/-- `sort.Slice(validators, func(i, j) { return v[i].Power > v[j].Power })`.
    Go's pdqsort is a stable insertion sort for n ≤ 12. -/
def sortDesc (l : List CV) : List CV := isort (fun a b => decide (a.power ≥ b.power)) l

/-- `floor(sum * percent / 100)`, replaced by 1 when it is 0 -/
def maxPower (s percent : Nat) : Nat :=
  let m := s * percent / 100
  if m == 0 then 1 else m

/-- the redistribution loop.  `rem` = remainingPower, `k` = remainingValidators; the code's
    `powerPerValidator` always equals `rem / k` when it is read (it is read only for a validator
    below `maxP`, and `k` counts exactly those still ahead). -/
def capLoop (maxP : Nat) : List CV → Nat → Nat → List CV
  | [], _, _ => []
  | v :: vs, rem, k =>
    if v.power ≥ maxP then
      { v with power := maxP } :: capLoop maxP vs rem k
    else
      let ppv := rem / k
      if v.power + ppv ≥ maxP then
        { v with power := maxP } :: capLoop maxP vs (rem - (maxP - v.power)) (k - 1)
      else
        { v with power := v.power + ppv } :: capLoop maxP vs (rem - ppv) (k - 1)

def excess (maxP : Nat) (l : List CV) : Nat :=
  (l.map fun v => if v.power ≥ maxP then v.power - maxP else 0).sum

def countLow (maxP : Nat) (l : List CV) : Nat := (l.filter fun v => v.power < maxP).length

/-- NoMoreThanPercentOfTheSum -/
def noMoreThanPercentOfTheSum (vals : List CV) (percent : Nat) : List CV :=
  let maxP := maxPower (sumPower vals) percent
  let sorted := sortDesc vals
  capLoop maxP sorted (excess maxP sorted) (countLow maxP sorted)

/-- CapValidatorsPower -/
def capValidatorsPower (powerCap : Nat) (vals : List CV) : List CV :=
  if powerCap > 0 then noMoreThanPercentOfTheSum vals powerCap else vals

/-- CapValidatorSet -/
def capValidatorSet (topN setCap : Nat) (vals : List CV) : List CV :=
  if topN > 0 then vals
  else if setCap ≠ 0 ∧ setCap < vals.length then vals.take setCap
  else vals

/-- PartitionBasedOnPriorityList followed by the append in ComputeNextValidators -/
def partitionPriority (isPrio : Nat → Bool) (vals : List CV) : List CV × List CV :=
  (sortDesc (vals.filter fun v => isPrio v.id), sortDesc (vals.filter fun v => !isPrio v.id))

def rankByPriority (isPrio : Nat → Bool) (vals : List CV) : List CV :=
  let p := partitionPriority isPrio vals
  p.1 ++ p.2

end ICS.Shaping
