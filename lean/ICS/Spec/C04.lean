/-
  C04 — decidable statement of what the set cap / priority list / power cap must do.
  Written over observable inputs and outputs only; evaluated by the driver on the
  IMPLEMENTATION's outputs and proved of the model in Props/C04.lean.
-/
import ICS.Model.Shaping
namespace ICS.Spec.C04
open ICS.Shaping

def lookupPower (l : List CV) (id : Nat) : Nat :=
  match l.find? (·.id == id) with
  | some v => v.power
  | none => 0

/-- same validators, only powers may differ -/
def sameIds (inp out : List CV) : Bool := (inp.map (·.id)).isPerm (out.map (·.id))

def feasible (inp : List CV) (percent : Nat) : Bool :=
  decide (sumPower inp ≤ inp.length * maxPower (sumPower inp) percent)

/-- power-cap clauses -/
def capBound (inp : List CV) (percent : Nat) (out : List CV) : Bool :=
  !feasible inp percent || out.all fun o => decide (o.power ≤ maxPower (sumPower inp) percent)

def sumKept (inp : List CV) (percent : Nat) (out : List CV) : Bool :=
  !feasible inp percent || sumPower out == sumPower inp

def nobodyZero (inp : List CV) (out : List CV) : Bool :=
  !(inp.all fun v => decide (0 < v.power)) || out.all fun o => decide (0 < o.power)

def orderKept (inp : List CV) (percent : Nat) (out : List CV) : Bool :=
  !feasible inp percent ||
  inp.all fun a => inp.all fun b =>
    !(decide (a.power > b.power)) || decide (lookupPower out a.id ≥ lookupPower out b.id)

def infeasibleEqual (inp : List CV) (percent : Nat) (out : List CV) : Bool :=
  feasible inp percent || out.all fun o => o.power == maxPower (sumPower inp) percent

def powerCapOK (inp : List CV) (percent : Nat) (out : List CV) : Bool :=
  sameIds inp out && capBound inp percent out && sumKept inp percent out &&
  nobodyZero inp out && orderKept inp percent out && infeasibleEqual inp percent out

/-- which clause fails (for the violation witness) -/
def powerCapFailing (inp : List CV) (percent : Nat) (out : List CV) : List String :=
  (if sameIds inp out then [] else ["same-ids"]) ++
  (if capBound inp percent out then [] else ["cap-bound"]) ++
  (if sumKept inp percent out then [] else ["sum-kept"]) ++
  (if nobodyZero inp out then [] else ["nobody-zero"]) ++
  (if orderKept inp percent out then [] else ["order-kept"]) ++
  (if infeasibleEqual inp percent out then [] else ["infeasible-equal"])

/-- set-cap / priority clauses: `ranked` is the eligible list as ranked, `out` the capped list.
    (a) at most `k` validators; (b) no excluded eligible validator strictly outranks an included
    one, rank = (priority-listed first, then power descending). -/
def outranks (isPrio : Nat → Bool) (a b : CV) : Bool :=
  (isPrio a.id && !isPrio b.id) || (isPrio a.id == isPrio b.id && decide (a.power > b.power))

def setCapOK (isPrio : Nat → Bool) (topN setCap : Nat) (eligible out : List CV) : Bool :=
  -- out ⊆ eligible, no duplicates
  out.all (fun o => eligible.contains o) && (out.map (·.id)).eraseDups.length == out.length &&
  -- size
  (if topN == 0 && setCap != 0 then decide (out.length ≤ setCap) else true) &&
  (if topN == 0 && setCap != 0 then decide (out.length = min setCap eligible.length)
   else (eligible.map (·.id)).isPerm (out.map (·.id))) &&
  -- rank
  eligible.all fun e => out.contains e || out.all fun o => !outranks isPrio e o

end ICS.Spec.C04
