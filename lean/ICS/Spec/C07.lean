/-
  C07 — decidable clauses about one double-voting submission, evaluated on the implementation's own
  states and on the calls it made to staking / slashing.
-/
import ICS.Model.Equivocation
import ICS.Model.Misbehaviour
namespace ICS.Spec.C07
open ICS ICS.Provider ICS.Epoch ICS.Equiv

/-- the evidence is cryptographically valid for consumer `x`: two intact signatures of ONE identity,
    which is the identity named in both votes, over x's chain id, on different blocks at the same
    height / round / type, not older than x's minimum evidence height; and x is an ICS consumer with
    a client -/
def validFor (x : Consumer) (e : Evidence) : Bool :=
  x.client.isSome && decide (x.evmin ≤ e.a.height) &&
  e.a.sigOK && e.b.sigOK && e.a.signer == e.a.addr && e.b.signer == e.a.addr && e.b.addr == e.a.addr &&
  e.a.chain == x.chain && e.b.chain == x.chain &&
  e.a.height == e.b.height && e.a.round == e.b.round && e.a.type == e.b.type && e.a.block != e.b.block

/-- accepted ⇒ valid -/
def acceptedOnlyIfValid (x : Consumer) (e : Evidence) (ok : Bool) : Bool := !ok || validFor x e

/-- valid, well-formed evidence against a validator that exists, is not unbonded and not tombstoned
    IS punished (bonded or still unbonding, jailed or not), provided the consumer has double-sign
    settings and the submitted header's validator set contains the signer -/
def validIsPunished (x : Consumer) (stk : List SVal) (e : Evidence) (ok : Bool) : Bool :=
  ok || !(validFor x e && basicOK e && (match e.hv with | some hv => hv.contains e.a.addr | none => false) &&
          (x.infr.bind (·.ds)).isSome &&
          (match stk.find? (·.id == providerOf x e.a.addr) with
           | some r => r.status != 1 && !r.tomb
           | none => false))

/-- every call made to staking / slashing names the one validator that owns the signing key on
    this consumer -/
def onlySigner (x : Consumer) (e : Evidence) (effs : List Effect) : Bool :=
  effs.all fun f => f.val == providerOf x e.a.addr

/-- accepted ⇒ slashed exactly once with the consumer's double-sign fraction and the power that
    counts live unbonding / redelegating stake; jailed iff not yet jailed; jail end and tombstone per
    the consumer's settings -/
def punishedPerSettings (x : Consumer) (stk : List SVal) (unb : List Unb) (now : Time) (e : Evidence)
    (ok : Bool) (effs : List Effect) : Bool :=
  if !ok then effs.isEmpty
  else
    let v := providerOf x e.a.addr
    match stk.find? (·.id == v), x.infr.bind (·.ds) with
    | some r, some ds =>
      (effs.filter fun f => match f with | .slash .. => true | _ => false) == [.slash v (powerToSlash r unb now) ds.frac] &&
      ((effs.contains (.jail v)) == !r.jailed) &&
      (effs.any fun f => match f with | .jailUntil w t => w == v && (t == now + ds.jail || t == maxTime) | _ => false) &&
      ((effs.contains (.tombstone v)) == ds.tomb) &&
      !r.tomb && r.status != 1
    | _, _ => false

/-- a rejected submission changes nothing; an accepted one changes only the punished validator -/
def frame (x : Consumer) (e : Evidence) (ok : Bool) (stkB stkA : List SVal) : Bool :=
  if !ok then stkB == stkA
  else
    let v := providerOf x e.a.addr
    stkB.length == stkA.length &&
    (stkB.zip stkA).all fun p => p.1.id == p.2.id && (p.1.id == v || p.1 == p.2)

/-- with tombstoning, at most once: a tombstoned validator is never punished again -/
def tombstonedNeverAgain (stkB : List SVal) (effs : List Effect) : Bool :=
  effs.all fun f => match stkB.find? (·.id == f.val) with | some r => !r.tomb | none => true


/-! ### light-client-attack evidence -/

/-- identity `k` genuinely signed both headers (a non-absent commit signature of its own key) -/
def genuineBoth (m : Misb) (k : Nat) : Bool :=
  (m.h1.sigs.any fun s => s.key == k && s.flag != .absent && s.sigOK) &&
  (m.h2.sigs.any fun s => s.key == k && s.flag != .absent && s.sigOK)

/-- every call to staking / slashing names a validator owning (on this consumer) a key that
    genuinely signed BOTH conflicting headers -/
def misbOnlyDoubleSigners (x : Consumer) (m : Misb) (effs : List Effect) : Bool :=
  effs.all fun f => m.h2.sigs.any fun s => genuineBoth m s.key && providerOf x s.key == f.val

/-- accepted ⇒ the headers are for this consumer's chain and client, at one height not below the
    minimum evidence height, really different, conflicting or of the same round, and the trusted
    consensus state backs them -/
def misbAcceptedOnlyIfValid (x : Consumer) (env : ClientEnv) (m : Misb) (ok : Bool) : Bool :=
  !ok || (m.h1.chain == x.chain && m.h2.chain == x.chain && x.client == some m.client &&
          m.h1.height == m.h2.height && decide (x.evmin ≤ m.h1.height) && hashesDiffer m &&
          (conflicting m || m.h1.round == m.h2.round) &&
          env.trustedMatches && !env.expired)

/-- accepted ⇒ each punished validator is slashed with the consumer's double-sign fraction and
    tombstoned iff the consumer says so -/
def misbPerSettings (x : Consumer) (ok : Bool) (effs : List Effect) : Bool :=
  if !ok then effs.isEmpty
  else match x.infr.bind (·.ds) with
    | none => false
    | some ds =>
      !effs.isEmpty &&
      (effs.all fun f => match f with
        | .slash _ _ fr => fr == ds.frac
        | .tombstone _ => ds.tomb
        | _ => true) &&
      (ds.tomb == false || ((effs.filter fun f => match f with | .slash .. => true | _ => false).map (·.val)).all
        fun v => effs.contains (.tombstone v))

/-- frame for several punished validators -/
def misbFrame (ok : Bool) (effs : List Effect) (stkB stkA : List SVal) : Bool :=
  if !ok then stkB == stkA
  else stkB.length == stkA.length &&
    (stkB.zip stkA).all fun p => p.1.id == p.2.id && ((effs.any fun f => f.val == p.1.id) || p.1 == p.2)

end ICS.Spec.C07
