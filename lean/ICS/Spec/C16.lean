/-
  C16 (provider side) — decidable conservation and eligibility predicates over one BeginBlock's
  reward allocation, from the bank balances, the credits and the calls made to the distribution
  module.  Amounts of credits / validator payouts are 10^18-scaled.
-/
import ICS.Model.Rewards
namespace ICS.Spec.C16
open ICS ICS.Rewards ICS.Epoch

structure DenomFlow where
  denom      : String
  poolBefore : Nat
  poolAfter  : Nat
  distrDelta : Nat          -- tokens that arrived in the distribution module account
  cpDelta    : Nat          -- tokens that arrived in the community pool
  creditBefore : Nat        -- Σ over consumers, scaled
  creditAfter  : Nat
  paid       : List (String × Nat × Nat)   -- (consumer, validator, scaled amount) handed to AllocateTokensToValidator
deriving Repr

/-- no tokens are created or lost between the rewards pool, the distribution module and the
    community pool -/
def bankConserved (f : DenomFlow) : Bool :=
  decide (f.poolAfter ≤ f.poolBefore) && f.poolBefore - f.poolAfter == f.distrDelta + f.cpDelta

/-- credits go down by exactly what left the pool: never more is paid out than was credited -/
def creditConserved (f : DenomFlow) : Bool :=
  decide (f.creditAfter ≤ f.creditBefore) &&
  f.creditBefore - f.creditAfter == (f.distrDelta + f.cpDelta) * one

/-- what validators receive never exceeds what was moved to the distribution module -/
def neverOverpay (f : DenomFlow) : Bool :=
  decide ((f.paid.map (·.2.2)).sum ≤ f.distrDelta * one)

/-- … and everything moved to the distribution module IS handed to validators, up to less than one
    token of truncation dust per paid validator (no part of it is left dangling) -/
def nothingDangling (f : DenomFlow) : Bool :=
  decide (f.distrDelta * one ≤ (f.paid.map (·.2.2)).sum + f.paid.length * (f.distrDelta + 1))

/-- a validator is paid at most the credits of the consumers it is an eligible member of: one that
    is eligible nowhere is paid nothing (stated without attributing single payments to consumers:
    `credits` lists (valset, credit) of every consumer with a client for this denom) -/
def paidWithinEligibleCredits (paid : List (Nat × Nat)) (credits : List (List CVal × Nat)) (height eligBlocks : Nat) : Bool :=
  (paid.map (·.1)).eraseDups.all fun v =>
    let got : Nat := ((paid.filter (·.1 == v)).map (·.2)).sum
    let may : Nat := ((credits.filter fun e => e.1.any fun c => c.v == v && eligible height c.join eligBlocks).map (·.2)).sum
    decide (got ≤ may)

/-- only validators that are in the consumer's set and have been for the required number of blocks
    are paid -/
def onlyEligibleMembers (paid : List (String × Nat × Nat)) (valsetOf : String → List CVal) (height eligBlocks : Nat) : Bool :=
  paid.all fun p =>
    (valsetOf p.1).any fun c => c.v == p.2.1 && eligible height c.join eligBlocks

end ICS.Spec.C16
