/-
  C12 — Validator-set update ids and infraction heights line up across chains (provider side).
-/
import ICS.Model.Provider
namespace ICS.Spec.C12
open ICS ICS.Provider

def lookupH (m : List (Nat × Nat)) (id : Nat) : Option Nat :=
  match m.find? (·.1 == id) with
  | some e => some e.2
  | none => none

/-- provider EndBlock: the id counter grows by exactly one at an epoch boundary and not otherwise;
    the id that was open during the block maps to this block's height + 1; every other entry of the
    id↦height map is untouched -/
def endBlockIds (height epoch vscBefore vscAfter : Nat) (mapBefore mapAfter : List (Nat × Nat)) : Bool :=
  (if height % epoch == 0 then vscAfter == vscBefore + 1 else vscAfter == vscBefore) &&
  lookupH mapAfter vscBefore == some (height + 1) &&
  (mapBefore.all fun e => e.1 == vscBefore || lookupH mapAfter e.1 == some e.2) &&
  (mapAfter.all fun e => e.1 == vscBefore || lookupH mapBefore e.1 == some e.2)

/-- ids of queued packets of a consumer are strictly increasing and were all issued -/
def packetIdsOK (vscId : Nat) (pend : List Packet) : Bool :=
  (pend.all fun p => decide (p.id < vscId)) &&
  (match pend with
   | [] => true
   | p :: rest => (rest.foldl (fun (acc : Bool × Nat) q => (acc.1 && decide (acc.2 < q.id), q.id)) (true, p.id)).1)

/-- every closed id has a height, heights do not decrease with the id -/
def mapMonotone (vscId : Nat) (m : List (Nat × Nat)) : Bool :=
  ((List.range vscId).all fun i => i == 0 || (lookupH m i).isSome) &&
  (m.all fun a => m.all fun b => !(decide (a.1 < b.1)) || decide (a.2 ≤ b.2))

/-- getMappedInfractionHeight: id 0 resolves to the channel-opening height of the consumer, any
    other id through the id↦height map; an id the provider never issued does not resolve -/
def resolveInfraction (initH : Option Nat) (m : List (Nat × Nat)) (id : Nat) : Option Nat :=
  if id == 0 then initH else lookupH m id

end ICS.Spec.C12
