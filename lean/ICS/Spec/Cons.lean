/-
  Consumer-side decidable predicates (C01, C08, C09, C12), evaluated on the implementation's states.
-/
import ICS.Model.Consumer
import ICS.Spec.C01
namespace ICS.Spec.Cons
open ICS ICS.Consumer ICS.ValSet

/-- C09: while a slash packet is in flight (waiting for its acknowledgement), or was bounced and the
    retry delay has not elapsed, the consumer sends no CCV packet at all -/
def noSendWhileBlocked (before : State) (sent : List CPacket) : Bool :=
  match before.record with
  | none => true
  | some r =>
    if r.waiting then sent.isEmpty
    else if before.now ≤ r.sendTime + before.retryDelay then sent.isEmpty
    else true

/-- C09: packets are not held back longer than required: with an established, open channel and a
    non-empty queue, something is sent unless a slash packet is in flight or was bounced less than
    (or exactly) the retry delay ago -/
def sendWhenPermitted (before : State) (sent : List CPacket) : Bool :=
  before.pchan.isNone || !before.chanOpen || before.queue.isEmpty ||
  (match before.record with
   | none => !sent.isEmpty
   | some r => r.waiting || decide (before.now ≤ r.sendTime + before.retryDelay) || !sent.isEmpty)

/-- C09: what is sent in one EndBlock is a prefix of the queue, in order, ending at the first
    slash packet; the slash packet stays queued, the others leave the queue -/
def sendShape (before after : State) (sent : List CPacket) : Bool :=
  sent == before.queue.take sent.length &&
  ((sent.dropLast).all fun p => !p.isSlash) &&
  (match sent.getLast? with
   | some p => if p.isSlash then after.queue == before.queue.drop (sent.length - 1)
               else after.queue == before.queue.drop sent.length
   | none => after.queue == before.queue)

/-- C09: a bounced slash packet is neither dropped nor duplicated: it is still the head of the queue;
    a handled one is removed exactly once -/
def ackEffect (before after : State) (isSlash : Bool) (kind : String) : Bool :=
  if !isSlash then after.queue == before.queue && after.record == before.record
  else if kind == "bounced" then
    after.queue == before.queue &&
    (match before.record, after.record with
     | some b, some a => a.sendTime == b.sendTime && a.waiting == false
     | _, _ => false)
  else if kind == "handled" || kind == "v1" then
    after.queue == before.queue.drop 1 && after.record.isNone
  else true

/-- C08: at most one downtime report per validator is outstanding: a further downtime infraction of
    a flagged validator queues nothing; a new one sets the flag and queues exactly one packet -/
def downtimeOnce (before after : State) (key : Nat) (infraction : Nat) : Bool :=
  if infraction != 2 then after.outstanding == before.outstanding
  else if before.outstanding.contains key then after.queue == before.queue && after.outstanding == before.outstanding
  else after.outstanding.contains key && after.queue.length == before.queue.length + 1

/-- C08: applying validator-set changes never clears an outstanding-downtime flag, except for a key
    that only now becomes a validator of the consumer (its stale flag is dropped) -/
def flagsSurviveApply (before after : State) : Bool :=
  before.outstanding.all fun k =>
    after.outstanding.contains k || (!(before.cc.any (·.key == k)) && after.cc.any (·.key == k))

/-- C08: slash acknowledgements carried by a VSC packet clear exactly the named flags -/
def acksClear (before after : State) (acks : List Nat) : Bool :=
  after.outstanding == before.outstanding.filter fun k => !acks.contains k

/-- C12: every recorded height carries the id of the latest update received in an earlier block
    (0 before any).  `recv` = (height at which a VSC packet was received, its id), oldest first. -/
def heightIds (h2v : List (Nat × Nat)) (recv : List (Nat × Nat)) : Bool :=
  h2v.all fun e =>
    let earlier := recv.filter fun r => decide (r.1 < e.1)
    e.2 == (match earlier.getLast? with | some r => r.2 | none => 0)

/-- C12: a slash packet carries the id associated with the infraction height -/
def slashCarriesId (before after : State) (ih : Nat) : Bool :=
  match after.queue.drop before.queue.length with
  | [CPacket.slash _ _ v _] => v == getH2V before.h2v ih
  | [] => true
  | _ => false

end ICS.Spec.Cons
