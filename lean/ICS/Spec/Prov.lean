/-
  Decidable state invariants and transition predicates of the provider module, one clause per
  property sentence.  The driver evaluates them on the IMPLEMENTATION's state after every
  operation of every provider stream; Props/*.lean prove them of the model.
-/
import ICS.Model.Provider
namespace ICS.Spec.Prov
open ICS ICS.Provider ICS.Epoch

def flatQ (q : TimeQueue) : List CId := q.flatMap (·.2)

def countIn (q : TimeQueue) (c : CId) : Nat := ((flatQ q).filter (· == c)).length

def sortedQ (q : TimeQueue) : Bool :=
  match q with
  | [] => true
  | e :: rest => rest.all (fun f => decide (e.1 < f.1)) && sortedQ rest

/-! ### C10 -/

/-- a consumer is initialized exactly while it has a non-zero spawn time, and is then scheduled
    exactly once, at that time; consumers in other phases are not scheduled -/
def schedInv (s : State) : Bool :=
  sortedQ s.spawnQ &&
  (s.consumers.all fun x =>
    match x.phase with
    | .initialized =>
      x.spawn != 0 && countIn s.spawnQ x.id == 1 &&
      (s.spawnQ.any fun e => e.1 == x.spawn && e.2.contains x.id)
    | .registered => x.spawn == 0 && countIn s.spawnQ x.id == 0
    | _ => countIn s.spawnQ x.id == 0) &&
  (flatQ s.spawnQ).all fun c => s.consumers.any (·.id == c)

/-- allowed phase moves -/
def edgeOK (p q : Phase) : Bool :=
  p == q ||
  (p == .unspecified && (q == .registered || q == .initialized)) ||
  (p == .registered && q == .initialized) || (p == .initialized && q == .registered) ||
  (p == .initialized && q == .launched) || (p == .launched && q == .stopped) ||
  (p == .stopped && q == .deleted)

def phaseEdges (before after : State) : Bool :=
  after.consumers.all fun x => edgeOK (before.get x.id).phase x.phase

/-- ids are issued once, in increasing order: consumers are exactly the ids below the counter -/
def idsOK (s : State) : Bool :=
  s.consumers.length == s.nextId &&
  (s.consumers.zipIdx.all fun p => p.1.id == toString p.2)

def idsMonotone (before after : State) : Bool := decide (before.nextId ≤ after.nextId)

/-- a launched consumer has its genesis, client and validator set recorded -/
def launchArtifacts (before s : State) : Bool :=
  s.consumers.all fun x =>
    x.phase != .launched ||
    (x.genesis.isSome && x.client.isSome &&
     -- at the moment of launch the initial validator set is non-empty and is what the genesis records
     ((before.get x.id).phase == .launched ||
       (!x.valset.isEmpty &&
        (x.genesis.map fun g => isort (fun (a b : ValSet.Update) => decide (a.key ≤ b.key)) g) ==
          some (isort (fun (a b : ValSet.Update) => decide (a.key ≤ b.key))
            (x.valset.map fun c => { key := c.key, power := c.power })))))

/-- after BeginBlock nothing due is left in the spawn queue, unless the per-block limit was hit -/
def launchWhenDue (before after : State) (limit : Nat) : Bool :=
  let due := (before.spawnQ.filter fun e => decide (e.1 ≤ after.now)).flatMap (·.2)
  let left := (after.spawnQ.filter fun e => decide (e.1 ≤ after.now)).flatMap (·.2)
  if due.length ≤ limit then left.isEmpty else left.length == due.length - limit

/-! ### C11 -/

/-- a stopped consumer is scheduled for removal at its removal time; a deleted one holds no
    protocol state any more (descriptive records only) -/
def stopInv (s : State) : Bool :=
  s.consumers.all fun x =>
    match x.phase with
    | .stopped =>
      (match x.removal with
       | some t => s.removeQ.any fun e => e.1 == t && e.2.contains x.id
       | none => false)
    | .deleted =>
      x.client.isNone && x.channel.isNone && x.genesis.isNone && x.valset.isEmpty && x.optin.isEmpty &&
      x.ka.isEmpty && x.byaddr.isEmpty && x.prune.isEmpty && x.pend.isEmpty && x.acks.isEmpty &&
      x.allow.isEmpty && x.deny.isEmpty && x.prio.isEmpty && x.commission.isEmpty && x.minpow.isNone &&
      x.qinfr.isNone && x.removal.isNone && x.initH.isNone && x.evmin == 0 &&
      countIn s.infrQ x.id == 0
    | _ => true

/-- removal happens exactly when due: a consumer is deleted in a block only if its (first)
    removal time has been reached, and a stopped consumer whose removal time has been reached
    does not survive BeginBlock (unless more than `limit` are due) -/
def removalTiming (before after : State) (limit : Nat) : Bool :=
  (after.consumers.all fun x =>
    let b := before.get x.id
    -- deleted now ⇒ it was stopped and some queue entry for it was due
    (!(x.phase == .deleted && b.phase == .stopped) ||
      (before.removeQ.any fun e => decide (e.1 ≤ after.now) && e.2.contains x.id))) &&
  (let due := (before.removeQ.filter fun e => decide (e.1 ≤ after.now)).flatMap (·.2)
   decide (due.length > limit) ||
   after.consumers.all fun x =>
     !(x.phase == .stopped && due.contains x.id))

/-- until removal, block processing leaves a stopped consumer's bindings and slashing state alone -/
def stoppedKept (before after : State) : Bool :=
  after.consumers.all fun x =>
    let b := before.get x.id
    !(b.phase == .stopped && x.phase == .stopped) ||
    (x.client == b.client && x.channel == b.channel && x.valset == b.valset && x.optin == b.optin &&
     x.ka == b.ka && x.evmin == b.evmin && x.genesis == b.genesis && x.removal == b.removal)

/-- no validator updates are computed or queued for a consumer that is not launched -/
def noUpdatesUnlessLaunched (before after : State) : Bool :=
  after.consumers.all fun x =>
    let b := before.get x.id
    b.phase == .launched || x.phase == .launched ||
    (decide (x.pend.length ≤ b.pend.length) && (x.valset == b.valset || x.valset.isEmpty))

/-! ### C14 -/

def topNInv (s : State) : Bool :=
  s.consumers.all fun x =>
    match x.ps with
    | some p => p.topN == 0 || (x.owner == s.authority && decide (50 ≤ p.topN ∧ p.topN ≤ 100)) || x.phase == .deleted
    | none => true

/-- ownership changes only by the owner's own update message -/
def ownerChange (before after : State) (opName sender target : String) (ok : Bool) : Bool :=
  after.consumers.all fun x =>
    let b := before.get x.id
    b.phase == .unspecified || x.owner == b.owner ||
    (opName == "update" && ok && target == x.id && sender == b.owner)

/-! ### C17 -/

/-- consumer ↔ client and consumer ↔ channel are one to one -/
def bindingInv (s : State) : Bool :=
  (s.consumers.all fun x =>
    (match x.client with
     | some cl => s.client2c.any (fun e => e.1 == cl && e.2 == x.id) &&
                  s.consumers.all (fun y => y.id == x.id || y.client != some cl)
     | none => true) &&
    (match x.channel with
     | some ch => s.chan2c.any (fun e => e.1 == ch && e.2 == x.id) &&
                  s.consumers.all (fun y => y.id == x.id || y.channel != some ch)
     | none => true)) &&
  (s.client2c.all fun e => (s.get e.2).client == some e.1) &&
  (s.chan2c.all fun e => (s.get e.2).channel == some e.1)

/-! ### C20 -/

/-- at most one change is pending per consumer, the schedule and the queued parameters agree,
    nothing is pending before launch or after deletion -/
def infrInv (s : State) : Bool :=
  sortedQ s.infrQ &&
  (s.consumers.all fun x =>
    match x.qinfr with
    | some q => countIn s.infrQ x.id == 1 && some q != x.infr && !isPrelaunched x.phase && x.phase != .deleted
    | none => countIn s.infrQ x.id == 0) &&
  (flatQ s.infrQ).all fun c => s.consumers.any (·.id == c)

/-- the parameters in force change only (a) by an update message before launch, or (b) in
    BeginBlock, to the value that was pending -/
def infrChange (before after : State) (opName : String) : Bool :=
  after.consumers.all fun x =>
    let b := before.get x.id
    b.phase == .unspecified || x.infr == b.infr ||
    (opName == "update" && isPrelaunched b.phase) ||
    (opName == "begin" && b.qinfr == x.infr && x.qinfr.isNone)

/-! ### C13 -/

/-- an operation addressed to one consumer leaves every field of every other consumer alone -/
def othersUntouched (before after : State) (target : CId) : Bool :=
  after.consumers.all fun x =>
    x.id == target ||
    (let b := before.get x.id
     b.phase == .unspecified ||
     (x.phase == b.phase && x.owner == b.owner && x.chain == b.chain && x.spawn == b.spawn && x.ps == b.ps &&
      x.allow == b.allow && x.deny == b.deny && x.prio == b.prio && x.optin == b.optin && x.valset == b.valset &&
      x.client == b.client && x.channel == b.channel && x.removal == b.removal && x.minpow == b.minpow &&
      x.pend == b.pend && x.acks == b.acks && x.ka == b.ka && x.byaddr == b.byaddr && x.prune == b.prune &&
      x.infr == b.infr && x.qinfr == b.qinfr && x.genesis == b.genesis && x.commission == b.commission))

/-- C13: an operation addressed to one consumer does not move any other consumer in the spawn,
    removal or infraction schedules -/
def schedulesUntouched (before after : State) (target : CId) : Bool :=
  after.consumers.all fun x =>
    x.id == target ||
    (countIn after.spawnQ x.id == countIn before.spawnQ x.id &&
     countIn after.removeQ x.id == countIn before.removeQ x.id &&
     countIn after.infrQ x.id == countIn before.infrQ x.id)

/-- C06 / C13: key pruning at EndBlock forgets, for every consumer, exactly the keys listed in ITS
    OWN prune entries whose time has come — no other consumer's, none early, none left behind -/
def pruneExact (before after : State) : Bool :=
  after.consumers.all fun x =>
    let b := before.get x.id
    b.client.isNone || x.phase == .deleted ||
    (let due := b.prune.filter fun e => decide (e.1 ≤ before.now)
     let dueKeys := due.flatMap (·.2)
     x.prune == b.prune.filter (fun e => decide (before.now < e.1)) &&
     x.byaddr == b.byaddr.filter fun p => !dueKeys.contains p.1)

/-! ### C05 (key assignment) -/

/-- I1: an assigned key resolves back to its validator; I2: a resolvable key is either the current
    assignment of its validator or waits for pruning; I4: every key waiting for pruning resolves;
    I3 (active consumers): a resolvable key that is some validator's provider key belongs to that
    very validator.  Key ids below `nVals` are provider keys of the validator with the same id. -/
def keyInv (s : State) : Bool :=
  s.consumers.all fun x =>
    (x.ka.all fun e => x.byaddr.any fun b => b.1 == e.2 && b.2 == e.1) &&
    (x.byaddr.all fun b =>
      (x.ka.any fun e => e.1 == b.2 && e.2 == b.1) || (x.prune.any fun p => p.2.contains b.1)) &&
    (x.prune.all fun p => p.2.all fun k => x.byaddr.any fun b => b.1 == k) &&
    ((x.byaddr.map (·.1)).eraseDups.length == x.byaddr.length) &&
    ((x.ka.map (·.1)).eraseDups.length == x.ka.length) &&
    (!isActive x.phase ||
      x.byaddr.all fun b => !(s.stk.any fun v => v.id == b.1) || b.1 == b.2)


/-- C06: the key a validator currently uses on a consumer always resolves to that validator -/
def currentKeyResolves (s : State) : Bool :=
  s.consumers.all fun x => x.ka.all fun e => x.byaddr.any fun b => b.1 == e.2 && b.2 == e.1

/-- C06: on a launched consumer a key stops resolving only by pruning, i.e. only if it was scheduled
    for pruning of THIS consumer with a deadline that has passed -/
def prunedOnlyWhenDue (before after : State) : Bool :=
  after.consumers.all fun x =>
    let b := before.get x.id
    b.phase != .launched || x.phase != .launched ||
    b.byaddr.all fun e =>
      x.byaddr.any (·.1 == e.1) ||
      b.prune.any fun p => decide (p.1 ≤ after.now) && p.2.contains e.1

/-! ### C19 -/

/-- everything of a consumer record that a launch or a deletion may touch -/
def sameRecord (a b : Consumer) : Bool :=
  a.phase == b.phase && a.owner == b.owner && a.chain == b.chain && a.spawn == b.spawn && a.ps == b.ps &&
  a.allow == b.allow && a.deny == b.deny && a.prio == b.prio && a.optin == b.optin && a.valset == b.valset &&
  a.client == b.client && a.channel == b.channel && a.removal == b.removal && a.minpow == b.minpow &&
  a.pend == b.pend && a.acks == b.acks && a.ka == b.ka && a.byaddr == b.byaddr && a.prune == b.prune &&
  a.infr == b.infr && a.qinfr == b.qinfr && a.genesis == b.genesis && a.evmin == b.evmin &&
  a.initH == b.initH && a.commission == b.commission

/-- a launch attempted in this BeginBlock is all or nothing: the consumer is either launched with
    client, genesis and validator set recorded, or exactly as before except registered with its
    spawn time cleared (no client, genesis, validator set or Top-N threshold written) -/
def launchAllOrNothing (before after : State) : Bool :=
  after.consumers.all fun x =>
    let b := before.get x.id
    -- consumers that were scheduled and due
    !(b.phase == .initialized && decide (b.spawn ≤ after.now) && countIn after.spawnQ x.id == 0) ||
    (x.phase == .launched && x.client.isSome && x.genesis.isSome && !x.valset.isEmpty) ||
    sameRecord x { b with phase := .registered, spawn := 0 }

/-- a deletion attempted in this BeginBlock is all or nothing -/
def deleteAllOrNothing (before after : State) : Bool :=
  after.consumers.all fun x =>
    let b := before.get x.id
    b.phase != .stopped ||
    (x.phase == .deleted && x.client.isNone && x.ka.isEmpty && x.valset.isEmpty && x.pend.isEmpty) ||
    -- not deleted: untouched by the deletion (a queued infraction-parameter change may still come
    -- into force for a stopped consumer in the same block; that is not part of the deletion)
    sameRecord { x with infr := b.infr, qinfr := b.qinfr } b

/-- the light clients created in this block are exactly those of the consumers launched on a new
    client: a client created for a launch that failed later is rolled back with it -/
def clientsMatchLaunches (before after : State) : Bool :=
  let launchedNew := after.consumers.filter fun x =>
    x.phase == .launched && (before.get x.id).phase != .launched && x.conn == ""
  after.nextClient == before.nextClient + launchedNew.length

/-- a failing send stops the consumer instead of failing the block; nobody else is affected -/
def sendFailureContained (before after : State) : Bool :=
  after.consumers.all fun x =>
    let b := before.get x.id
    b.phase != .launched || x.phase == .launched || (x.phase == .stopped && x.removal.isSome)

end ICS.Spec.Prov
