/-
  C01 — decidable trace predicates for the set algebra:
  * a diff applied to the current set yields exactly the next set,
  * an accumulated change list has the same effect as applying the two lists in order,
  * the consumer's stored set after applying changes is "old set overridden by the changes, later
    entries winning", and what is handed to the consensus engine has the same effect.
-/
import ICS.Model.ValSet
namespace ICS.Spec.C01
open ICS.ValSet

def keysOf (ls : List (List Val)) : List Nat := (ls.flatMap fun l => l.map (·.key)).eraseDups

/-- `applyF upd (lookup cur)` agrees with `lookup next` on every key in sight -/
def diffOK (cur next upd : List Val) : Bool :=
  (keysOf [cur, next, upd]).all fun k => applyF upd (lookup cur) k == lookup next k

/-- accumulate: same effect as cur then new, no duplicate keys in the output -/
def accumOK (cur new out : List Val) : Bool :=
  ((keysOf [cur, new, out]).all fun k =>
      applyF out (fun _ => 0) k == applyF new (applyF cur (fun _ => 0)) k &&
      -- effect on an arbitrary base value as well (keys not mentioned keep the base)
      applyF out (fun _ => 7) k == applyF new (applyF cur (fun _ => 7)) k) &&
  (out.map (·.key)).eraseDups.length == out.length

/-- canonical form of a set: sorted by key -/
def canon (l : List Val) : List Val := isort (fun a b => decide (a.key ≤ b.key)) (l.filter fun v => v.power != 0)

/-- applyCC: the stored set afterwards is the old set overridden by the changes, and the returned
    updates, applied by the engine to the same old set, give the same set; no returned update
    removes a key the engine does not have. -/
def applyOK (ccBefore changes ret ccAfter : List Val) : Bool :=
  ((keysOf [ccBefore, changes, ret, ccAfter]).all fun k =>
      lookup ccAfter k == applyF changes (lookup ccBefore) k &&
      applyF ret (lookup ccBefore) k == lookup ccAfter k) &&
  (ccAfter.map (·.key)).eraseDups.length == ccAfter.length &&
  ccAfter.all (fun v => decide (0 < v.power))

end ICS.Spec.C01
