/-
  C15 — The provider's own consensus set is the top-M bonded validators.
-/
import ICS.Model.Provider
namespace ICS.Spec.C15
open ICS ICS.Provider ICS.Epoch

/-- the recorded set is exactly the first min(M, n) bonded validators (staking power order) with
    their provider keys and current powers -/
def storedIsTopM (bonded : List Nat) (stk : List SVal) (m : Nat) (stored : List CVal) : Bool :=
  let want := (bonded.take m).map fun v => (v, v, lastPower stk v)
  let have_ := stored.map fun c => (c.v, c.key, c.power)
  (isort (fun (a b : Nat × Nat × Nat) => decide (a.1 ≤ b.1)) want) ==
  (isort (fun (a b : Nat × Nat × Nat) => decide (a.1 ≤ b.1)) have_)

def sizeOK (m : Nat) (stored : List CVal) : Bool := decide (stored.length ≤ m)

/-- the consensus engine's set (all returned updates folded) equals the recorded set -/
def engineEqualsStored (engine : List ValSet.Val) (stored : List CVal) : Bool :=
  let e := (engine.filter fun v => v.power != 0).map fun v => (v.key, v.power)
  let s := stored.map fun c => (c.key, c.power)
  (isort (fun (a b : Nat × Nat) => decide (a.1 ≤ b.1)) e) == (isort (fun (a b : Nat × Nat) => decide (a.1 ≤ b.1)) s)

/-- staking views cover exactly the active validators -/
def viewsOK (bonded : List Nat) (stk : List SVal) (m : Nat) (iter : List Nat) (total supply : Nat) (ratio : String) : Bool :=
  iter == bonded.take m &&
  total == ((bonded.take m).map (bondedTokens stk)).sum &&
  (supply == 0 || ratio == ICS.decString (total * 10^18 / supply))

end ICS.Spec.C15
