/-
  C02 / C03 / C04 at the level of one epoch (or launch): decidable predicates over the staking
  view, the consumer's settings and the validator set the provider computed.  Evaluated by the
  driver on the IMPLEMENTATION's stored set after every epoch and launch.
-/
import ICS.Model.Epoch
import ICS.Spec.C04
namespace ICS.Spec.Epoch
open ICS ICS.Epoch

/-- what the oracle may look at: staking view + consumer settings (not ComputeNextValidators) -/
structure View where
  stk      : List SVal
  bonded   : List Nat          -- bonded validators in staking order (≤ MaxValidators)
  m        : Nat               -- provider active-set size
  ps       : PS
  allow    : List Nat          -- as recorded in the consumer's power-shaping parameters
  deny     : List Nat
  prio     : List Nat
  optin    : List Nat          -- opted in after the computation
  minpow   : Option Nat        -- stored Top-N threshold after the computation
  ka       : List (Nat × Nat)
  valset   : List CVal         -- the computed consumer validator set

def View.active (w : View) : List Nat := w.bonded.take w.m

def sumGE (ps : List Nat) (m : Nat) : Nat := ((ps.filter fun p => decide (p ≥ m))).sum

/-- the threshold as the property defines it: the largest power `m` among `ps` such that the
    validators with power ≥ m hold at least N % of the total (exact rational arithmetic) -/
def trueThreshold (ps : List Nat) (n : Nat) : Option Nat :=
  let total := ps.sum
  let ok := ps.filter fun m => decide (100 * sumGE ps m ≥ n * total)
  ok.foldl (fun (acc : Option Nat) m => match acc with | none => some m | some a => some (max a m)) none



def View.isBondedOK (w : View) (v : Nat) : Bool :=
  w.bonded.contains v && (sval w.stk v).status == 3 && !(sval w.stk v).jailed

/-- opted in, or required by the Top-N rule — with the threshold as the PROPERTY defines it
    (recomputed here from the active powers), not the one the implementation stored -/
def View.optedOrTopN (w : View) (v : Nat) : Bool :=
  w.optin.contains v ||
  (w.ps.topN > 0 &&
    (match trueThreshold (w.active.map (lastPower w.stk)) w.ps.topN with
     | some mp => decide (lastPower w.stk v ≥ mp)
     | none => false))

def View.listsOK (w : View) (v : Nat) : Bool :=
  (w.allow.isEmpty || w.allow.contains v) && (w.deny.isEmpty || !w.deny.contains v) &&
  (w.ps.minStake == 0 || decide (bondedTokens w.stk v ≥ w.ps.minStake))

def View.eligible (w : View) (v : Nat) : Bool :=
  w.isBondedOK v && w.optedOrTopN v && w.listsOK v && (w.ps.inactive || w.active.contains v)

/-! ### C02 -/

/-- every member is bonded, not jailed, opted in or required by Top-N, permitted by the lists and
    the minimum stake -/
def c02Sound (w : View) : Bool :=
  w.valset.all fun c => w.isBondedOK c.v && w.optedOrTopN c.v && w.listsOK c.v

/-- unless inactive validators are allowed, members belong to the provider's active set -/
def c02Active (w : View) : Bool :=
  w.ps.inactive || w.valset.all fun c => w.active.contains c.v

/-- without a power cap the consumer power is the provider power -/
def c02Power (w : View) : Bool :=
  w.ps.powCap != 0 || w.valset.all fun c => c.power == lastPower w.stk c.v

/-- the consensus key is the assigned key or else the provider key -/
def c02Key (w : View) : Bool :=
  w.valset.all fun c =>
    c.key == (match w.ka.find? (·.1 == c.v) with | some p => p.2 | none => c.v)

/-- when no validator-set cap applies every eligible validator is included -/
def c02Complete (w : View) : Bool :=
  !(w.ps.setCap == 0 || w.ps.topN > 0) ||
  w.bonded.all fun v => !w.eligible v || w.valset.any (·.v == v)

def c02NoDup (w : View) : Bool := (w.valset.map (·.v)).eraseDups.length == w.valset.length

/-! ### C03 -/

/-- the stored threshold `m` is the least power of the shortest descending prefix reaching N %:
    it occurs among the active powers, the validators at or above it hold ≥ N %, and no larger
    occurring power has that property -/
def c03Threshold (w : View) : Bool :=
  w.ps.topN == 0 ||
  (let ps := w.active.map (lastPower w.stk)
   let total := ps.sum
   match w.minpow with
   | none => false
   | some m =>
     ps.contains m && decide (100 * sumGE ps m ≥ w.ps.topN * total) &&
     ps.all fun m' => !(decide (m' > m)) || decide (100 * sumGE ps m' < w.ps.topN * total))

/-- every active validator at or above the threshold is opted in and is in the set unless the
    lists or the minimum stake exclude it -/
def c03Included (w : View) : Bool :=
  w.ps.topN == 0 ||
  (match w.minpow with
   | none => false
   | some m =>
     w.active.all fun v =>
       !(decide (lastPower w.stk v ≥ m)) ||
       (w.optin.contains v && (!w.listsOK v || !w.isBondedOK v || w.valset.any (·.v == v))))

/-! ### C04 at epoch level -/

def toCV (w : View) (v : Nat) : Shaping.CV := { id := v, power := lastPower w.stk v }

/-- at most `k` validators for an opt-in consumer with cap `k`; none of the eligible validators
    left out strictly outranks (priority first, then provider power) one that is in -/
def c04SetCap (w : View) : Bool :=
  (!(w.ps.topN == 0 && w.ps.setCap != 0) || decide (w.valset.length ≤ w.ps.setCap)) &&
  (w.bonded.filter w.eligible).all fun e =>
    w.valset.any (·.v == e) ||
    w.valset.all fun c => !(Spec.C04.outranks (fun v => w.prio.contains v) (toCV w e) (toCV w c.v))

/-- the power-cap clauses of Spec.C04 with the uncapped powers = provider powers -/
def c04PowerCap (w : View) : Bool :=
  w.ps.powCap == 0 ||
  Spec.C04.powerCapOK (w.valset.map fun c => toCV w c.v) w.ps.powCap
    (w.valset.map fun c => { id := c.v, power := c.power })


end ICS.Spec.Epoch
