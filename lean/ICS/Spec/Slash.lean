/-
  C08 / C09 (provider side): decidable predicates over one delivered slash packet and over one
  BeginBlock, written declaratively from the property text (not by calling the model's handler).
-/
import ICS.Model.Provider
namespace ICS.Spec.Slash
open ICS ICS.Provider ICS.Epoch

structure Delivery where
  before   : State
  after    : State
  meterB   : Int
  meterA   : Int
  vsc2h    : List (Nat × Nat)
  chan     : String
  pkt      : SlashPkt
  ack      : String          -- "error" | "res1" | "res2" | "res3" | "panic"
  effects  : List StkEffect

def Delivery.consumer (d : Delivery) : Option Consumer :=
  match d.before.chan2c.find? (·.1 == d.chan) with
  | some e => some (d.before.get e.2)
  | none => none

/-- the validator the report is about: owner of the reported consumer key -/
def Delivery.target (d : Delivery) : Option Nat := d.consumer.map fun x => providerOf x d.pkt.key

def idKnown (x : Consumer) (vsc2h : List (Nat × Nat)) (id : Nat) : Bool :=
  if id == 0 then x.initH.isSome else vsc2h.any (·.1 == id)

/-- the conditions under which the property says the validator IS jailed -/
def shouldJail (d : Delivery) : Bool :=
  match d.consumer with
  | none => false
  | some x =>
    let v := providerOf x d.pkt.key
    d.pkt.infraction == 2 && d.pkt.power != 0 && idKnown x d.vsc2h d.pkt.vscId &&
    x.phase == .launched && x.valset.any (·.v == v) && decide (d.meterB ≥ 0) &&
    (match d.before.stk.find? (·.id == v) with
     | some r => r.status != 1 && !r.jailed && !r.tomb
     | none => false)

/-- C08: jailed iff all conditions hold; the effects hit exactly the resolved validator, with the
    consumer's own downtime parameters in force at handling time (C20) -/
def jailIff (d : Delivery) : Bool :=
  if shouldJail d then
    match d.consumer, d.effects with
    | some x, [.slash v _ pw fr, .jail v2, .jailUntil v3 t] =>
      let tv := providerOf x d.pkt.key
      v == tv && v2 == tv && v3 == tv && pw == d.pkt.power &&
      (match x.infr with
       | some ip => (match ip.dt with
          | some dt => fr == dt.frac && t == d.before.now + dt.jail
          | none => false)
       | none => false)
    | _, _ => false
  else d.effects.isEmpty

/-- C08: double-sign slash packets never punish anyone -/
def doubleSignNoop (d : Delivery) : Bool :=
  d.pkt.infraction != 1 || d.effects.isEmpty

/-- C08: the report is acknowledged (slash ack appended for the consumer) whenever the provider
    jails, or declines because already jailed / not in the consumer's set / consumer not launched -/
def ackCases (d : Delivery) : Bool :=
  match d.before.chan2c.find? (·.1 == d.chan) with
  | none => true
  | some e =>
    let x := d.before.get e.2
    let xa := d.after.get e.2
    let v := providerOf x d.pkt.key
    let valid := d.pkt.infraction == 2 && d.pkt.power != 0 && idKnown x d.vsc2h d.pkt.vscId
    let mustAck := valid &&
      (x.phase != .launched || !(x.valset.any (·.v == v)) ||
       (decide (d.meterB ≥ 0) &&
        (match d.before.stk.find? (·.id == v) with
         | some r => r.status != 1 && !r.tomb      -- jailed now, or already jailed
         | none => false)))
    if mustAck then xa.acks == x.acks ++ [d.pkt.key]
    else decide (x.acks.length ≤ xa.acks.length)

/-- C09: a downtime packet is handled only while the meter is non-negative, the jailed validator's
    power is deducted, otherwise the packet is bounced and nothing changes -/
def meterRule (d : Delivery) : Bool :=
  match d.consumer with
  | none => d.meterA == d.meterB
  | some x =>
    let v := providerOf x d.pkt.key
    let reachesMeter := d.pkt.infraction == 2 && d.pkt.power != 0 && idKnown x d.vsc2h d.pkt.vscId &&
                        x.phase == .launched && x.valset.any (·.v == v)
    if !reachesMeter then d.meterA == d.meterB && d.ack != "res3"
    else if d.meterB < 0 then d.ack == "res3" && d.meterA == d.meterB && d.effects.isEmpty
    else d.ack == "res2" && d.meterA == d.meterB - effectivePower d.before v

/-- C09: after BeginBlock the meter is at most the current allowance; it grows by at most one
    allowance, and only when the replenish candidate time has been reached (then the next candidate
    is one period away) -/
def beginBlockMeter (tb ta : Throttle) (now : Time) (allow : Nat) : Bool :=
  decide (ta.meter ≤ allow) && decide (ta.meter ≤ tb.meter + allow) &&
  (decide (ta.meter ≤ tb.meter) || (decide (now ≥ tb.candidate) && ta.candidate == now + tb.period)) &&
  decide (1 ≤ allow)

end ICS.Spec.Slash
