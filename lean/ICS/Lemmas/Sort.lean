import ICS.Util
namespace ICS

theorem insertBy_perm (le : α → α → Bool) (x : α) (l : List α) : (insertBy le x l).Perm (x :: l) := by
  induction l with
  | nil => simp [insertBy]
  | cons y ys ih =>
    simp only [insertBy]
    split
    · exact List.Perm.refl _
    · exact (List.Perm.cons y ih).trans (List.Perm.swap x y ys)

theorem isort_perm (le : α → α → Bool) (l : List α) : (isort le l).Perm l := by
  induction l with
  | nil => simp [isort]
  | cons x xs ih =>
    simp only [isort]
    exact (insertBy_perm le x _).trans (List.Perm.cons x ih)

theorem insertBy_pairwise (le : α → α → Bool)
    (trans : ∀ a b c, le a b → le b c → le a c) (total : ∀ a b, le a b || le b a)
    (x : α) (l : List α) (h : l.Pairwise (fun a b => le a b)) :
    (insertBy le x l).Pairwise (fun a b => le a b) := by
  induction l with
  | nil => simp [insertBy]
  | cons y ys ih =>
    simp only [insertBy]
    have hy := List.pairwise_cons.mp h
    split
    · rename_i hxy
      rw [List.pairwise_cons]
      refine ⟨?_, h⟩
      intro b hb
      rcases List.mem_cons.mp hb with rfl | hb
      · exact hxy
      · exact trans _ _ _ hxy (hy.1 b hb)
    · rename_i hxy
      rw [List.pairwise_cons]
      refine ⟨?_, ih hy.2⟩
      intro b hb
      have hyx : le y x = true := by
        have := total x y
        simp only [Bool.or_eq_true] at this
        rcases this with h | h
        · exact absurd h hxy
        · exact h
      rcases List.mem_cons.mp ((insertBy_perm le x ys).mem_iff.mp hb) with rfl | hb
      · exact hyx
      · exact hy.1 b hb

theorem isort_pairwise (le : α → α → Bool)
    (trans : ∀ a b c, le a b → le b c → le a c) (total : ∀ a b, le a b || le b a)
    (l : List α) : (isort le l).Pairwise (fun a b => le a b) := by
  induction l with
  | nil => simp [isort]
  | cons x xs ih => exact insertBy_pairwise le trans total x _ ih

/-- an already sorted list is left unchanged (stability of the insertion sort) -/
theorem insertBy_of_le_all (le : α → α → Bool) (x : α) (l : List α) (h : ∀ y ∈ l, le x y) :
    insertBy le x l = x :: l := by
  cases l with
  | nil => rfl
  | cons y ys => simp [insertBy, h y (by simp)]

theorem isort_of_pairwise (le : α → α → Bool) (l : List α) (h : l.Pairwise (fun a b => le a b)) :
    isort le l = l := by
  induction l with
  | nil => rfl
  | cons x xs ih =>
    have hx := List.pairwise_cons.mp h
    simp only [isort, ih hx.2]
    exact insertBy_of_le_all le x xs hx.1

end ICS
