/-
  Lemmas about diff / applyF / accumulate / applyCC.
-/
import ICS.Model.ValSet
import ICS.Lemmas.Sort
namespace ICS.ValSet

theorem applyF_not_mem (us : List Update) (f : Nat → Nat) (k : Nat)
    (h : ∀ u ∈ us, u.key ≠ k) : applyF us f k = f k := by
  induction us generalizing f with
  | nil => rfl
  | cons u us ih =>
    simp only [applyF, List.foldl_cons] at *
    rw [ih]
    · have : u.key ≠ k := h u (by simp)
      simp [Ne.symm this]
    · intro u' hu'; exact h u' (by simp [hu'])

theorem applyF_append (a b : List Update) (f : Nat → Nat) :
    applyF (a ++ b) f = applyF b (applyF a f) := by
  simp [applyF, List.foldl_append]

theorem applyF_cons (u : Update) (us : List Update) (f : Nat → Nat) :
    applyF (u :: us) f = applyF us (fun k => if k = u.key then u.power else f k) := by
  simp [applyF]

/-- if keys are distinct and ⟨k,p⟩ occurs, the result at k is p -/
theorem applyF_mem (us : List Update) (f : Nat → Nat) (k p : Nat)
    (hnd : (us.map (·.key)).Nodup) (hm : (⟨k, p⟩ : Update) ∈ us) : applyF us f k = p := by
  induction us generalizing f with
  | nil => cases hm
  | cons u us ih =>
    simp only [List.map_cons, List.nodup_cons] at hnd
    simp only [applyF, List.foldl_cons]
    rcases List.mem_cons.mp hm with h | h
    · subst h
      have := applyF_not_mem us (fun k' => if k' = k then p else f k') k (by
        intro u' hu' heq
        exact hnd.1 (List.mem_map.mpr ⟨u', hu', heq⟩))
      simp only [applyF] at this
      rw [this]; simp
    · exact ih _ hnd.2 h

theorem lookup_eq_of_mem (l : List Val) (v : Val) (hnd : (l.map (·.key)).Nodup) (hm : v ∈ l) :
    lookup l v.key = v.power := by
  induction l with
  | nil => cases hm
  | cons a l ih =>
    simp only [List.map_cons, List.nodup_cons] at hnd
    unfold lookup
    simp only [List.find?_cons]
    by_cases hak : a.key = v.key
    · simp [hak]
      rcases List.mem_cons.mp hm with h | h
      · rw [h]
      · exact absurd (List.mem_map.mpr ⟨v, h, rfl⟩) (hak ▸ hnd.1)
    · have : (a.key == v.key) = false := by simp [hak]
      simp only [this]
      rcases List.mem_cons.mp hm with h | h
      · exact absurd (by rw [h]) hak
      · have := ih hnd.2 h
        unfold lookup at this
        exact this

theorem lookup_eq_zero_of_not_mem (l : List Val) (k : Nat) (h : ∀ v ∈ l, v.key ≠ k) :
    lookup l k = 0 := by
  unfold lookup
  have : l.find? (fun v => v.key == k) = none := by
    rw [List.find?_eq_none]; intro v hv; simp [h v hv]
  simp [this]

theorem find?_key_some {l : List Val} {k : Nat} {v : Val}
    (h : l.find? (fun x => x.key == k) = some v) : v ∈ l ∧ v.key = k := by
  have h1 := List.mem_of_find?_eq_some h
  have h2 := List.find?_some h
  exact ⟨h1, by simpa using h2⟩

theorem find?_key_none {l : List Val} {k : Nat}
    (h : l.find? (fun x => x.key == k) = none) : ∀ v ∈ l, v.key ≠ k := by
  intro v hv
  have := List.find?_eq_none.mp h v hv
  simpa using this

/-- membership characterisation of the two halves of `diff` -/
theorem mem_diff_iff (cur next : List Val) (u : Update) :
    u ∈ diff cur next ↔
      (∃ c ∈ cur, (next.find? (fun n => n.key == c.key) = none ∧ u = ⟨c.key, 0⟩) ∨
                  (∃ n, next.find? (fun n => n.key == c.key) = some n ∧ c.power ≠ n.power ∧ u = ⟨n.key, n.power⟩))
      ∨ (∃ n ∈ next, cur.find? (fun c => c.key == n.key) = none ∧ u = ⟨n.key, n.power⟩) := by
  unfold diff
  simp only [List.mem_append, List.mem_filterMap]
  constructor
  · rintro (⟨c, hc, h⟩ | ⟨n, hn, h⟩)
    · left
      refine ⟨c, hc, ?_⟩
      split at h
      · left; rename_i hnone; exact ⟨hnone, by simpa using h.symm⟩
      · rename_i n hsome
        right
        split at h
        · rename_i hne; exact ⟨n, hsome, by simpa using hne, by simpa using h.symm⟩
        · cases h
    · right
      refine ⟨n, hn, ?_⟩
      split at h
      · rename_i hnone; exact ⟨hnone, by simpa using h.symm⟩
      · cases h
  · rintro (⟨c, hc, h⟩ | ⟨n, hn, hnone, hu⟩)
    · left
      refine ⟨c, hc, ?_⟩
      rcases h with ⟨hnone, hu⟩ | ⟨n, hsome, hne, hu⟩
      · simp [hnone, hu]
      · simp [hsome, hne, hu]
    · right
      exact ⟨n, hn, by simp [hnone, hu]⟩

theorem applyF_cases (us : List Update) (f : Nat → Nat) (k : Nat) :
    ((∀ u ∈ us, u.key ≠ k) ∧ applyF us f k = f k) ∨
    (∃ u ∈ us, u.key = k ∧ applyF us f k = u.power) := by
  induction us generalizing f with
  | nil => left; exact ⟨by simp, rfl⟩
  | cons a us ih =>
    simp only [applyF, List.foldl_cons]
    rcases ih (fun k' => if k' = a.key then a.power else f k') with ⟨hno, heq⟩ | ⟨u, hu, hk, heq⟩
    · simp only [applyF] at heq
      by_cases hak : a.key = k
      · right; refine ⟨a, by simp, hak, ?_⟩; rw [heq]; simp [hak]
      · left; refine ⟨?_, ?_⟩
        · intro u hu; rcases List.mem_cons.mp hu with h | h
          · rw [h]; exact hak
          · exact hno u h
        · rw [heq]; simp [Ne.symm hak]
    · right; exact ⟨u, by simp [hu], hk, by simpa [applyF] using heq⟩

/-- in a list with distinct keys, an element is determined by its key -/
theorem eq_of_key_eq {l : List Val} (hnd : (l.map (·.key)).Nodup) {a b : Val}
    (ha : a ∈ l) (hb : b ∈ l) (hk : a.key = b.key) : a = b := by
  induction l with
  | nil => cases ha
  | cons x xs ih =>
    simp only [List.map_cons, List.nodup_cons] at hnd
    rcases List.mem_cons.mp ha with h1 | h1 <;> rcases List.mem_cons.mp hb with h2 | h2
    · rw [h1, h2]
    · subst h1; exact absurd (List.mem_map.mpr ⟨b, h2, hk.symm⟩) hnd.1
    · subst h2; exact absurd (List.mem_map.mpr ⟨a, h1, hk⟩) hnd.1
    · exact ih hnd.2 h1 h2

/-- value of `applyF` over a list with distinct keys, by membership -/
theorem applyF_nodup_val (us : List Update) (f : Nat → Nat) (k : Nat) (hnd : (us.map (·.key)).Nodup) :
    (∃ u ∈ us, u.key = k ∧ applyF us f k = u.power) ∨ ((∀ u ∈ us, u.key ≠ k) ∧ applyF us f k = f k) := by
  rcases applyF_cases us f k with h | h
  · right; exact h
  · left; exact h

theorem applyF_perm (l₁ l₂ : List Update) (f : Nat → Nat) (k : Nat)
    (hnd : (l₁.map (·.key)).Nodup) (hp : l₁.Perm l₂) : applyF l₁ f k = applyF l₂ f k := by
  have hnd2 : (l₂.map (·.key)).Nodup := (hp.map _).nodup_iff.mp hnd
  rcases applyF_cases l₁ f k with ⟨hno, heq⟩ | ⟨u, hu, hk, heq⟩
  · rw [heq, applyF_not_mem l₂ f k (fun u hu => hno u (hp.mem_iff.mpr hu))]
  · rw [heq]
    have : (⟨k, u.power⟩ : Update) ∈ l₂ := by
      have := hp.mem_iff.mp hu
      rw [← hk]; exact this
    exact (applyF_mem l₂ f k u.power hnd2 this).symm

/-! ### the Go map -/

theorem mapInsert_keys (m : List Update) (u : Update) (h : m.any (fun x => x.key == u.key) = true) :
    (mapInsert m u).map (·.key) = m.map (·.key) := by
  unfold mapInsert
  simp only [h, if_true, List.map_map]
  apply List.map_congr_left
  intro x _
  simp only [Function.comp]
  by_cases hx : x.key = u.key
  · simp [hx]
  · have : (x.key == u.key) = false := by simp [hx]
    simp [this]

theorem mapInsert_nodup (m : List Update) (u : Update) (hnd : (m.map (·.key)).Nodup) :
    ((mapInsert m u).map (·.key)).Nodup := by
  by_cases h : m.any (fun x => x.key == u.key) = true
  · rw [mapInsert_keys m u h]; exact hnd
  · unfold mapInsert
    simp only [h]
    simp only [Bool.false_eq_true, if_false, List.map_append, List.map_cons, List.map_nil]
    rw [List.nodup_append]
    refine ⟨hnd, by simp, ?_⟩
    intro a ha b hb
    simp only [List.mem_singleton] at hb
    subst hb
    obtain ⟨x, hx, rfl⟩ := List.mem_map.mp ha
    intro he
    apply h
    rw [List.any_eq_true]
    exact ⟨x, hx, by simp [he]⟩

theorem applyF_mapInsert (m : List Update) (u : Update) (f : Nat → Nat) (k : Nat)
    (hnd : (m.map (·.key)).Nodup) :
    applyF (mapInsert m u) f k = if k = u.key then u.power else applyF m f k := by
  by_cases h : m.any (fun x => x.key == u.key) = true
  · -- replace in place
    have hnd' := mapInsert_nodup m u hnd
    rw [List.any_eq_true] at h
    obtain ⟨x, hx, hxk⟩ := h
    have hxk : x.key = u.key := by simpa using hxk
    have hmem : ∀ y, y ∈ mapInsert m u ↔ ∃ z ∈ m, y = if z.key == u.key then u else z := by
      intro y
      unfold mapInsert
      have : m.any (fun x => x.key == u.key) = true := by
        rw [List.any_eq_true]; exact ⟨x, hx, by simp [hxk]⟩
      simp only [this, if_true, List.mem_map]
      constructor
      · rintro ⟨z, hz, rfl⟩; exact ⟨z, hz, rfl⟩
      · rintro ⟨z, hz, rfl⟩; exact ⟨z, hz, rfl⟩
    by_cases hk : k = u.key
    · simp only [hk, if_true]
      have : (⟨u.key, u.power⟩ : Update) ∈ mapInsert m u := by
        rw [hmem]; exact ⟨x, hx, by simp [hxk]⟩
      exact applyF_mem _ f u.key u.power hnd' this
    · simp only [hk, if_false]
      rcases applyF_cases m f k with ⟨hno, heq⟩ | ⟨y, hy, hyk, heq⟩
      · rw [heq]
        apply applyF_not_mem
        intro y hy
        rw [hmem] at hy
        obtain ⟨z, hz, rfl⟩ := hy
        by_cases hzk : z.key = u.key
        · simp [hzk]; exact fun h => hk h.symm
        · have : (z.key == u.key) = false := by simp [hzk]
          simp only [this]; exact hno z hz
      · rw [heq]
        have hyne : y.key ≠ u.key := by rw [hyk]; exact hk
        have : (⟨k, y.power⟩ : Update) ∈ mapInsert m u := by
          rw [hmem]
          refine ⟨y, hy, ?_⟩
          have : (y.key == u.key) = false := by simp [hyne]
          simp only [this]
          subst hyk
          cases y; rfl
        exact applyF_mem _ f k y.power hnd' this
  · unfold mapInsert
    simp only [h]
    simp only [Bool.false_eq_true, if_false]
    rw [applyF_append]
    simp [applyF]

theorem foldl_mapInsert (us m : List Update) (hnd : (m.map (·.key)).Nodup) :
    ((us.foldl mapInsert m).map (·.key)).Nodup ∧
    ∀ f k, applyF (us.foldl mapInsert m) f k = applyF us (applyF m f) k := by
  induction us generalizing m with
  | nil => exact ⟨hnd, fun f k => rfl⟩
  | cons u us ih =>
    simp only [List.foldl_cons]
    obtain ⟨h1, h2⟩ := ih (mapInsert m u) (mapInsert_nodup m u hnd)
    refine ⟨h1, ?_⟩
    intro f k
    rw [h2, applyF_cons]
    congr 1
    funext k'
    exact applyF_mapInsert m u f k' hnd

theorem toMap_nodup (us : List Update) : ((toMap us).map (·.key)).Nodup :=
  (foldl_mapInsert us [] (by simp)).1

theorem toMap_effect (us : List Update) (f : Nat → Nat) (k : Nat) :
    applyF (toMap us) f k = applyF us f k :=
  (foldl_mapInsert us [] (by simp)).2 f k

/-! ### the comparator of AccumulateChanges -/

theorem accLE_trans (rank : Nat → Nat) (a b c : Update) :
    accLE rank a b = true → accLE rank b c = true → accLE rank a c = true := by
  unfold accLE
  simp only [Bool.or_eq_true, Bool.and_eq_true, decide_eq_true_eq, beq_iff_eq]
  omega

theorem accLE_total (rank : Nat → Nat) (a b : Update) : (accLE rank a b || accLE rank b a) = true := by
  unfold accLE
  simp only [Bool.or_eq_true, Bool.and_eq_true, decide_eq_true_eq, beq_iff_eq]
  omega

theorem accLE_antisymm (rank : Nat → Nat) (a b : Update) :
    accLE rank a b = true → accLE rank b a = true → a.power = b.power ∧ rank a.key = rank b.key := by
  unfold accLE
  simp only [Bool.or_eq_true, Bool.and_eq_true, decide_eq_true_eq, beq_iff_eq]
  omega

/-! ### ApplyCCValidatorChanges -/

theorem lookup_cons (a : Val) (t : List Val) (k : Nat) :
    lookup (a :: t) k = if a.key = k then a.power else lookup t k := by
  unfold lookup
  by_cases h : a.key = k
  · simp [List.find?_cons, h]
  · have : (a.key == k) = false := by simp [h]
    simp [List.find?_cons, this, h]

theorem lookup_nil (k : Nat) : lookup [] k = 0 := by simp [lookup]

theorem lookup_filter_ne (cc : List Val) (k k' : Nat) :
    lookup (cc.filter fun v => v.key != k') k = if k = k' then 0 else lookup cc k := by
  induction cc with
  | nil => simp [lookup_nil]
  | cons a t ih =>
    by_cases ha : a.key = k'
    · have : (a.key != k') = false := by simp [ha]
      rw [List.filter_cons, this]
      simp only [Bool.false_eq_true, if_false]
      rw [ih, lookup_cons]
      by_cases hk : k = k'
      · simp [hk]
      · have : ¬ a.key = k := by rw [ha]; exact fun h => hk h.symm
        simp [hk, this]
    · have : (a.key != k') = true := by simp [ha]
      rw [List.filter_cons, this]
      simp only [if_true]
      rw [lookup_cons, lookup_cons, ih]
      by_cases hak : a.key = k
      · have hkk : k ≠ k' := by rw [← hak]; exact ha
        simp [hak, hkk]
      · simp [hak]

theorem lookup_map_set (cc : List Val) (k k' p : Nat) :
    lookup (cc.map fun v => if v.key == k' then { v with power := p } else v) k
      = if k = k' ∧ cc.any (fun v => v.key == k') then p else lookup cc k := by
  induction cc with
  | nil => simp [lookup_nil]
  | cons a t ih =>
    rw [List.map_cons, lookup_cons, lookup_cons, ih, List.any_cons]
    by_cases ha : a.key = k'
    · have h1 : (a.key == k') = true := by simp [ha]
      simp only [h1, if_true, Bool.true_or, and_true]
      by_cases hk : k = k'
      · have : a.key = k := by rw [ha, hk]
        simp [hk, ha]
      · have : ¬ a.key = k := by rw [ha]; exact fun h => hk h.symm
        simp [hk, this]
    · have h0 : (a.key == k') = false := by simp [ha]
      simp only [h0, Bool.false_eq_true, if_false, Bool.false_or]
      by_cases hak : a.key = k
      · have hkk : ¬ k = k' := by rw [← hak]; exact ha
        simp [hak, hkk]
      · simp [hak]

theorem lookup_append_single (cc : List Val) (k k' p : Nat) (h : ∀ v ∈ cc, v.key ≠ k') :
    lookup (cc ++ [⟨k', p⟩]) k = if k = k' then p else lookup cc k := by
  induction cc with
  | nil =>
    simp only [List.nil_append, lookup_cons, lookup_nil]
    by_cases hk : k = k'
    · simp [hk]
    · have : ¬ k' = k := fun h => hk h.symm
      simp [hk, this]
  | cons a t ih =>
    have ha : a.key ≠ k' := h a (by simp)
    have ih := ih (fun v hv => h v (by simp [hv]))
    rw [List.cons_append, lookup_cons, lookup_cons, ih]
    by_cases hak : a.key = k
    · have : ¬ k = k' := by rw [← hak]; exact ha
      simp [hak, this]
    · simp [hak]

theorem any_key_iff (cc : List Val) (k : Nat) :
    cc.any (fun v => v.key == k) = true ↔ ∃ v ∈ cc, v.key = k := by
  rw [List.any_eq_true]
  constructor
  · rintro ⟨v, hv, h⟩; exact ⟨v, hv, by simpa using h⟩
  · rintro ⟨v, hv, h⟩; exact ⟨v, hv, by simp [h]⟩

/-- invariant of the stored cross-chain validator set -/
def CCWF (cc : List Val) : Prop := (cc.map (·.key)).Nodup ∧ ∀ v ∈ cc, 0 < v.power

theorem lookup_pos_of_any (cc : List Val) (k : Nat) (hwf : CCWF cc)
    (h : cc.any (fun v => v.key == k) = true) : 0 < lookup cc k := by
  obtain ⟨v, hv, hk⟩ := (any_key_iff cc k).mp h
  rw [← hk, lookup_eq_of_mem cc v hwf.1 hv]; exact hwf.2 v hv

theorem lookup_zero_of_not_any (cc : List Val) (k : Nat)
    (h : ¬ cc.any (fun v => v.key == k) = true) : lookup cc k = 0 := by
  apply lookup_eq_zero_of_not_mem
  intro v hv hk
  exact h ((any_key_iff cc k).mpr ⟨v, hv, hk⟩)

theorem applyOne_spec (cc : List Val) (ch : Update) (hwf : CCWF cc) :
    CCWF (applyOne cc ch).1 ∧
    (∀ k, lookup (applyOne cc ch).1 k = if k = ch.key then ch.power else lookup cc k) ∧
    ((applyOne cc ch).2 = false → ch.power = 0 ∧ lookup cc ch.key = 0) := by
  unfold applyOne
  by_cases hany : cc.any (fun v => v.key == ch.key) = true
  · simp only [hany, if_true]
    by_cases hp : ch.power < 1
    · simp only [hp, if_true]
      refine ⟨⟨?_, ?_⟩, ?_, by simp⟩
      · exact (List.filter_sublist.map _).nodup hwf.1
      · intro v hv; exact hwf.2 v (List.mem_filter.mp hv).1
      · intro k; rw [lookup_filter_ne]
        by_cases hk : k = ch.key
        · simp [hk]; omega
        · simp [hk]
    · simp only [hp, if_false]
      refine ⟨⟨?_, ?_⟩, ?_, by simp⟩
      · have : (cc.map fun v => if v.key == ch.key then { v with power := ch.power } else v).map (·.key)
            = cc.map (·.key) := by
          rw [List.map_map]; apply List.map_congr_left; intro x _
          simp only [Function.comp]; split <;> rfl
        rw [this]; exact hwf.1
      · intro v hv
        obtain ⟨x, hx, rfl⟩ := List.mem_map.mp hv
        split
        · simp; omega
        · exact hwf.2 x hx
      · intro k; rw [lookup_map_set]
        by_cases hk : k = ch.key
        · simp [hk, hany]
        · simp [hk]
  · simp only [hany]
    simp only [Bool.false_eq_true, if_false]
    have hno : ∀ v ∈ cc, v.key ≠ ch.key := by
      intro v hv hk; exact hany ((any_key_iff cc ch.key).mpr ⟨v, hv, hk⟩)
    by_cases hp : 0 < ch.power
    · simp only [hp, if_true]
      refine ⟨⟨?_, ?_⟩, ?_, by simp⟩
      · rw [List.map_append, List.nodup_append]
        refine ⟨hwf.1, by simp, ?_⟩
        intro a ha b hb
        simp only [List.map_cons, List.map_nil, List.mem_singleton] at hb
        subst hb
        obtain ⟨x, hx, rfl⟩ := List.mem_map.mp ha
        exact hno x hx
      · intro v hv
        rcases List.mem_append.mp hv with h | h
        · exact hwf.2 v h
        · simp only [List.mem_singleton] at h; subst h; exact hp
      · intro k; exact lookup_append_single cc k ch.key ch.power hno
    · simp only [hp, if_false]
      refine ⟨hwf, ?_, ?_⟩
      · intro k
        by_cases hk : k = ch.key
        · subst hk; simp; rw [lookup_zero_of_not_any cc _ hany]; omega
        · simp [hk]
      · intro _; exact ⟨by omega, lookup_zero_of_not_any cc _ hany⟩

end ICS.ValSet
