import ICS.Lemmas.CapOrder
import ICS.Spec.C04
namespace ICS.Shaping
open ICS.Spec.C04

theorem lookupPower_cons_ne (o : CV) (os : List CV) (i : Nat) (h : o.id ≠ i) :
    lookupPower (o :: os) i = lookupPower os i := by
  unfold lookupPower
  have : (o.id == i) = false := by simp [h]
  simp [List.find?_cons, this]

theorem lookupPower_cons_eq (o : CV) (os : List CV) : lookupPower (o :: os) o.id = o.power := by
  unfold lookupPower; simp [List.find?_cons]

/-- in aligned lists with distinct ids, the lookup of a member's id is its aligned partner -/
theorem aligned_lookup (xs os : List CV) (hid : os.map (·.id) = xs.map (·.id))
    (hnd : (xs.map (·.id)).Nodup) (b : CV) (hb : b ∈ xs) :
    ∃ ob, (b, ob) ∈ xs.zip os ∧ lookupPower os b.id = ob.power := by
  induction xs generalizing os with
  | nil => cases hb
  | cons x xs' ih =>
    cases os with
    | nil => simp at hid
    | cons o os' =>
      simp only [List.map_cons, List.cons.injEq] at hid
      simp only [List.map_cons, List.nodup_cons] at hnd
      rcases List.mem_cons.mp hb with h | h
      · subst h
        exact ⟨o, by simp, by rw [← hid.1]; exact lookupPower_cons_eq o os'⟩
      · obtain ⟨ob, hz, hl⟩ := ih os' hid.2 hnd.2 h
        refine ⟨ob, by simp [hz], ?_⟩
        have hne : o.id ≠ b.id := by
          rw [hid.1]; intro he
          exact hnd.1 (List.mem_map.mpr ⟨b, h, he.symm⟩)
        rw [lookupPower_cons_ne o os' b.id hne]; exact hl

theorem zip_pairwise_lookup (xs os : List CV) (hid : os.map (·.id) = xs.map (·.id))
    (hnd : (xs.map (·.id)).Nodup) (hd : Desc xs)
    (hp : (xs.zip os).Pairwise (fun p1 p2 => p1.1.power > p2.1.power → p1.2.power ≥ p2.2.power)) :
    ∀ a ∈ xs, ∀ b ∈ xs, a.power > b.power → lookupPower os a.id ≥ lookupPower os b.id := by
  induction xs generalizing os with
  | nil => intro a ha; cases ha
  | cons x xs' ih =>
    cases os with
    | nil => simp at hid
    | cons o os' =>
      have hid' := hid
      simp only [List.map_cons, List.cons.injEq] at hid
      have hnd' := hnd
      simp only [List.map_cons, List.nodup_cons] at hnd
      rw [List.zip_cons_cons, List.pairwise_cons] at hp
      have hdx := List.pairwise_cons.mp hd
      intro a ha b hb hgt
      have hne : ∀ c ∈ xs', o.id ≠ c.id := by
        intro c hc; rw [hid.1]; intro he
        exact hnd.1 (List.mem_map.mpr ⟨c, hc, he.symm⟩)
      rcases List.mem_cons.mp ha with h1 | h1 <;> rcases List.mem_cons.mp hb with h2 | h2
      · subst h1; subst h2; omega
      · subst h1
        obtain ⟨ob, hz, hl⟩ := aligned_lookup xs' os' hid.2 hnd.2 b h2
        rw [← hid.1, lookupPower_cons_eq, lookupPower_cons_ne o os' b.id (hne b h2), hl]
        exact hp.1 (b, ob) hz hgt
      · subst h2
        have := hdx.1 a h1
        omega
      · rw [lookupPower_cons_ne o os' a.id (hne a h1), lookupPower_cons_ne o os' b.id (hne b h2)]
        exact ih os' hid.2 hnd.2 hdx.2 hp.2 a h1 b h2 hgt

end ICS.Shaping
