/-
  Order preservation of the power-cap loop: a validator with strictly more power before the cap
  never ends with strictly less power after it.
-/
import ICS.Lemmas.Cap
namespace ICS.Shaping

/-- Lemma B: once `q·K ≤ R ≤ (q+1)·K` and every remaining validator has room ≥ q+1, every later
    validator gains at most `q+1`. -/
theorem capLoop_gain_le (m q : Nat) (l : List CV) (R : Nat)
    (hroom : ∀ x ∈ l, x.power + q + 1 ≤ m)
    (hlo : q * l.length ≤ R) (hhi : R ≤ (q + 1) * l.length) :
    ∀ p ∈ l.zip (capLoop m l R l.length), p.2.power ≤ p.1.power + q + 1 := by
  induction l generalizing R with
  | nil => simp [capLoop]
  | cons v vs ih =>
    have hv := hroom v (by simp)
    have hvs : ∀ x ∈ vs, x.power + q + 1 ≤ m := fun x hx => hroom x (by simp [hx])
    have hnh : ¬ v.power ≥ m := by omega
    simp only [List.length_cons] at hlo hhi
    have hk : 0 < vs.length + 1 := by omega
    have hq1 : q ≤ R / (vs.length + 1) := by
      rw [Nat.le_div_iff_mul_le hk]; exact hlo
    have hq2 : R / (vs.length + 1) ≤ q + 1 := by
      apply Nat.div_le_of_le_mul; rw [Nat.mul_comm]; exact hhi
    have hmul1 : q * (vs.length + 1) = q * vs.length + q := by rw [Nat.mul_add, Nat.mul_one]
    have hmul2 : (q + 1) * (vs.length + 1) = (q + 1) * vs.length + (q + 1) := by
      rw [Nat.mul_add, Nat.mul_one]
    have hlt : R < (vs.length + 1) * (R / (vs.length + 1) + 1) := Nat.lt_mul_div_succ R hk
    intro p hp
    simp only [capLoop, List.length_cons, hnh, if_false, Nat.add_sub_cancel] at hp
    split at hp
    · -- capped: room ≤ R/K ≤ q+1 ≤ room
      rename_i hcap
      have hroomeq : m - v.power = q + 1 := by omega
      have hdiv : R / (vs.length + 1) = q + 1 := by omega
      rw [List.zip_cons_cons] at hp
      rcases List.mem_cons.mp hp with h | h
      · subst h; simp; omega
      · have hR : (vs.length + 1) * (q + 1) ≤ R := by
          have := Nat.div_mul_le_self R (vs.length + 1)
          rw [hdiv, Nat.mul_comm] at this; exact this
        have hR' : (vs.length + 1) * (q + 1) = (q + 1) * vs.length + (q + 1) := by
          rw [Nat.mul_comm]; exact hmul2
        refine ih (R - (m - v.power)) hvs ?_ ?_ p h
        · have : q * vs.length ≤ (q + 1) * vs.length := Nat.mul_le_mul_right _ (by omega)
          omega
        · omega
    · rename_i hnc
      rw [List.zip_cons_cons] at hp
      rcases List.mem_cons.mp hp with h | h
      · subst h; simp; omega
      · by_cases hd : R / (vs.length + 1) = q
        · rw [hd] at hlt h
          have hexp : (vs.length + 1) * (q + 1) = (q + 1) * vs.length + (q + 1) := by
            rw [Nat.mul_comm]; exact hmul2
          refine ih (R - q) hvs ?_ ?_ p h
          · omega
          · omega
        · have hd' : R / (vs.length + 1) = q + 1 := by omega
          rw [hd'] at h
          have hR : (vs.length + 1) * (q + 1) ≤ R := by
            have := Nat.div_mul_le_self R (vs.length + 1)
            rw [hd', Nat.mul_comm] at this; exact this
          have hR' : (vs.length + 1) * (q + 1) = (q + 1) * vs.length + (q + 1) := by
            rw [Nat.mul_comm]; exact hmul2
          refine ih (R - (q + 1)) hvs ?_ ?_ p h
          · have : q * vs.length ≤ (q + 1) * vs.length := Nat.mul_le_mul_right _ (by omega)
            omega
          · omega

theorem mem_zip_capLoop_le (m : Nat) (l : List CV) (r k : Nat) :
    ∀ p ∈ l.zip (capLoop m l r k), p.2.power ≤ m := by
  intro p hp
  exact capLoop_le m l r k p.2 (List.of_mem_zip hp).2

/-- order preservation, positional form -/
theorem capLoop_order (m : Nat) (l : List CV) (rem : Nat) (hd : Desc l) :
    (l.zip (capLoop m l rem (countLow m l))).Pairwise
      (fun p1 p2 => p1.1.power > p2.1.power → p1.2.power ≥ p2.2.power) := by
  induction l generalizing rem with
  | nil => simp [capLoop]
  | cons v vs ih =>
    have hd' : Desc vs := (List.pairwise_cons.mp hd).2
    rw [countLow_cons]
    simp only [capLoop]
    by_cases hv : v.power ≥ m
    · have hv' : ¬ v.power < m := by omega
      simp only [hv, hv', if_true, if_false, Nat.zero_add]
      rw [List.zip_cons_cons, List.pairwise_cons]
      refine ⟨?_, ih rem hd'⟩
      intro p hp _
      exact mem_zip_capLoop_le m vs _ _ p hp
    · have hv' : v.power < m := by omega
      obtain ⟨hle, hcl, _⟩ := desc_low_tail hd hv'
      simp only [hv, hv', if_true, if_false]
      rw [hcl] at ih ⊢
      have hsub : 1 + vs.length - 1 = vs.length := by omega
      rw [hsub]
      split
      · rw [List.zip_cons_cons, List.pairwise_cons]
        refine ⟨?_, ih _ hd'⟩
        intro p hp _
        exact mem_zip_capLoop_le m vs _ _ p hp
      · rename_i hnc
        rw [List.zip_cons_cons, List.pairwise_cons]
        refine ⟨?_, ih _ hd'⟩
        intro p hp hgt
        have hk : 0 < 1 + vs.length := by omega
        have hlo : rem / (1 + vs.length) * vs.length ≤ rem - rem / (1 + vs.length) := by
          have := Nat.div_mul_le_self rem (1 + vs.length)
          rw [Nat.mul_add, Nat.mul_one] at this; omega
        have hhi : rem - rem / (1 + vs.length) ≤ (rem / (1 + vs.length) + 1) * vs.length := by
          have := Nat.lt_mul_div_succ rem hk
          rw [Nat.mul_comm, Nat.mul_add, Nat.mul_one] at this; omega
        have := capLoop_gain_le m (rem / (1 + vs.length)) vs (rem - rem / (1 + vs.length))
          (by intro x hx; have := hle x hx; omega) hlo hhi p hp
        simp only at hgt ⊢
        omega

end ICS.Shaping
