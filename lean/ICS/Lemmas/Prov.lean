/-
  Basic lemmas about the provider model state (get/set) and the time queues.
-/
import ICS.Model.Provider
import ICS.Spec.Prov
namespace ICS.Provider
open ICS.Spec.Prov

theorem get_set_same (s : State) (x : Consumer) : (s.set x).get x.id = x := by
  unfold State.get State.set
  by_cases h : s.consumers.any (·.id == x.id) = true
  · simp only [h, if_true]
    have : ∀ l : List Consumer, l.any (·.id == x.id) = true →
        (l.map fun y => if y.id == x.id then x else y).find? (·.id == x.id) = some x := by
      intro l
      induction l with
      | nil => simp
      | cons a t ih =>
        intro hl
        simp only [List.map_cons, List.find?_cons]
        by_cases ha : a.id = x.id
        · simp [ha]
        · have hf : (a.id == x.id) = false := by simp [ha]
          simp only [hf, Bool.false_eq_true, if_false]
          apply ih
          simpa [List.any_cons, hf] using hl
    rw [this _ h]
  · simp only [h]
    simp only [Bool.false_eq_true, if_false]
    have hn : s.consumers.find? (·.id == x.id) = none := by
      rw [List.find?_eq_none]
      intro y hy hyx
      apply h
      rw [List.any_eq_true]; exact ⟨y, hy, hyx⟩
    rw [List.find?_append, hn]
    simp

theorem get_set_other (s : State) (x : Consumer) (c : CId) (h : c ≠ x.id) : (s.set x).get c = s.get c := by
  unfold State.get State.set
  have hne : ∀ y : Consumer, y.id = x.id → (y.id == c) = false := by
    intro y hy; simp [hy]; exact fun e => h e.symm
  by_cases hany : s.consumers.any (·.id == x.id) = true
  · simp only [hany, if_true]
    have : ∀ l : List Consumer,
        (l.map fun y => if y.id == x.id then x else y).find? (·.id == c) = l.find? (·.id == c) := by
      intro l
      induction l with
      | nil => simp
      | cons a t ih =>
        simp only [List.map_cons, List.find?_cons]
        by_cases ha : a.id = x.id
        · have h1 : (a.id == x.id) = true := by simp [ha]
          simp only [h1, if_true, hne x rfl, hne a ha]
          exact ih
        · have h1 : (a.id == x.id) = false := by simp [ha]
          simp only [h1, Bool.false_eq_true, if_false]
          rw [ih]
    rw [this]
  · simp only [hany]
    simp only [Bool.false_eq_true, if_false]
    rw [List.find?_append]
    have : [x].find? (·.id == c) = none := by simp [hne x rfl]
    rw [this]; simp

theorem get_id (s : State) (c : CId) : (s.get c).id = c := by
  unfold State.get
  split
  · rename_i x hx
    have := List.find?_some hx
    simpa using this
  · rfl

theorem get_set_id (s : State) (x : Consumer) (c : CId) (h : x.id = c) : (s.set x).get c = x := by
  subst h; exact get_set_same s x

/-- updating the record of `c` by an id-preserving function -/
theorem get_set_upd (s : State) (c : CId) (f : Consumer → Consumer) (hf : ∀ x, (f x).id = x.id) :
    (s.set (f (s.get c))).get c = f (s.get c) :=
  get_set_id s _ c (by rw [hf, get_id])

theorem get_set_upd_other (s : State) (c c' : CId) (f : Consumer → Consumer) (hf : ∀ x, (f x).id = x.id)
    (h : c' ≠ c) : (s.set (f (s.get c))).get c' = s.get c' :=
  get_set_other s _ c' (by rw [hf, get_id]; exact h)

/-- `set` only touches the list of consumers -/
theorem set_nextId (s : State) (x : Consumer) : (s.set x).nextId = s.nextId := by
  unfold State.set; split <;> rfl

theorem set_spawnQ (s : State) (x : Consumer) : (s.set x).spawnQ = s.spawnQ := by
  unfold State.set; split <;> rfl

/-! ### ConsumeIdsFromTimeQueue -/

theorem tqConsume_go_conserves (q : TimeQueue) (now : Time) (limit : Nat) (res : List CId) :
    (tqConsume.go now limit q res).1 ++ flatQ (tqConsume.go now limit q res).2 = res ++ flatQ q := by
  induction q generalizing res with
  | nil => simp [tqConsume.go, flatQ]
  | cons e rest ih =>
    obtain ⟨t, ids⟩ := e
    simp only [tqConsume.go]
    split
    · rfl
    · split
      · rfl
      · split
        · rw [ih]; simp [flatQ, List.append_assoc]
        · simp only [flatQ, List.flatMap_cons, List.append_assoc]
          rw [← List.append_assoc (List.take _ ids), List.take_append_drop]

/-- nothing is lost, duplicated or reordered: consumed ids followed by what stays queued is the
    original queue content -/
theorem tqConsume_conserves (q : TimeQueue) (now : Time) (limit : Nat) :
    (tqConsume q now limit).1 ++ flatQ (tqConsume q now limit).2 = flatQ q := by
  unfold tqConsume
  simpa using tqConsume_go_conserves q now limit []

theorem tqConsume_go_limit (q : TimeQueue) (now : Time) (limit : Nat) (res : List CId)
    (h : res.length ≤ limit) : (tqConsume.go now limit q res).1.length ≤ limit := by
  induction q generalizing res with
  | nil => simpa [tqConsume.go]
  | cons e rest ih =>
    obtain ⟨t, ids⟩ := e
    simp only [tqConsume.go]
    split
    · exact h
    · split
      · exact h
      · split
        · apply ih; simp; omega
        · simp [List.length_take]; omega

/-- at most `limit` ids per block -/
theorem tqConsume_limit (q : TimeQueue) (now : Time) (limit : Nat) :
    (tqConsume q now limit).1.length ≤ limit := by
  unfold tqConsume
  exact tqConsume_go_limit q now limit [] (by simp)

theorem tqConsume_go_due (q : TimeQueue) (now : Time) (limit : Nat) (res : List CId) :
    ∀ c ∈ (tqConsume.go now limit q res).1, c ∈ res ∨ ∃ e ∈ q, e.1 ≤ now ∧ c ∈ e.2 := by
  induction q generalizing res with
  | nil => intro c hc; left; simpa [tqConsume.go] using hc
  | cons e rest ih =>
    obtain ⟨t, ids⟩ := e
    intro c hc
    simp only [tqConsume.go] at hc
    split at hc
    · left; exact hc
    · split at hc
      · left; exact hc
      · rename_i hnl hnt
        have htn : t ≤ now := Int.not_lt.mp hnt
        split at hc
        · rcases ih _ c hc with h | ⟨e, he, h1, h2⟩
          · rcases List.mem_append.mp h with h | h
            · left; exact h
            · right; exact ⟨(t, ids), by simp, htn, h⟩
          · right; exact ⟨e, by simp [he], h1, h2⟩
        · rcases List.mem_append.mp hc with h | h
          · left; exact h
          · right; exact ⟨(t, ids), by simp, htn, List.mem_of_mem_take h⟩

/-- only ids whose time has come are consumed -/
theorem tqConsume_due (q : TimeQueue) (now : Time) (limit : Nat) :
    ∀ c ∈ (tqConsume q now limit).1, ∃ e ∈ q, e.1 ≤ now ∧ c ∈ e.2 := by
  intro c hc
  unfold tqConsume at hc
  rcases tqConsume_go_due q now limit [] c hc with h | h
  · cases h
  · exact h

end ICS.Provider
