/-
  Helper lemmas about the power-cap redistribution loop (`capLoop`).
-/
import ICS.Model.Shaping
import ICS.Lemmas.Sort
namespace ICS.Shaping

/-- descending by power -/
def Desc (l : List CV) : Prop := l.Pairwise fun a b => a.power ≥ b.power

def rooms (maxP : Nat) (l : List CV) : Nat :=
  (l.map fun v => if v.power < maxP then maxP - v.power else 0).sum

theorem sortDesc_perm (l : List CV) : (sortDesc l).Perm l := isort_perm _ _

theorem sortDesc_desc (l : List CV) : Desc (sortDesc l) := by
  have := isort_pairwise (fun (a b : CV) => decide (a.power ≥ b.power))
    (by intro a b c; simp; omega) (by intro a b; simp; omega) l
  unfold Desc sortDesc
  exact this.imp (by intro a b h; simpa using h)

theorem sumPower_perm {a b : List CV} (h : a.Perm b) : sumPower a = sumPower b := by
  unfold sumPower; exact (h.map _).sum_nat

theorem sumPower_cons (v : CV) (l : List CV) : sumPower (v :: l) = v.power + sumPower l := by
  simp [sumPower]

theorem excess_cons (m : Nat) (v : CV) (l : List CV) :
    excess m (v :: l) = (if v.power ≥ m then v.power - m else 0) + excess m l := by
  simp [excess]

theorem rooms_cons (m : Nat) (v : CV) (l : List CV) :
    rooms m (v :: l) = (if v.power < m then m - v.power else 0) + rooms m l := by
  simp [rooms]

theorem countLow_cons (m : Nat) (v : CV) (l : List CV) :
    countLow m (v :: l) = (if v.power < m then 1 else 0) + countLow m l := by
  unfold countLow
  by_cases h : v.power < m <;> simp [h] <;> omega

/-- `Σ v + rooms = n·maxP + excess` -/
theorem sum_rooms_excess (m : Nat) (l : List CV) :
    sumPower l + rooms m l = l.length * m + excess m l := by
  induction l with
  | nil => simp [sumPower, rooms, excess]
  | cons v vs ih =>
    rw [sumPower_cons, rooms_cons, excess_cons, List.length_cons, Nat.add_mul]
    by_cases h : v.power < m
    · have h' : ¬ v.power ≥ m := by omega
      simp only [h, h', if_true, if_false]; omega
    · have h' : v.power ≥ m := by omega
      simp only [h, h', if_true, if_false]; omega

theorem capLoop_ids (m : Nat) (l : List CV) (r k : Nat) :
    (capLoop m l r k).map (·.id) = l.map (·.id) := by
  induction l generalizing r k with
  | nil => simp [capLoop]
  | cons v vs ih =>
    simp only [capLoop]
    split
    · simp [ih]
    · split <;> simp [ih]

theorem capLoop_length (m : Nat) (l : List CV) (r k : Nat) :
    (capLoop m l r k).length = l.length := by
  have := congrArg List.length (capLoop_ids m l r k)
  simpa using this

theorem capLoop_le (m : Nat) (l : List CV) (r k : Nat) :
    ∀ o ∈ capLoop m l r k, o.power ≤ m := by
  induction l generalizing r k with
  | nil => simp [capLoop]
  | cons v vs ih =>
    intro o ho
    simp only [capLoop] at ho
    split at ho
    · rcases List.mem_cons.mp ho with h | h
      · subst h; simp
      · exact ih _ _ o h
    · split at ho
      · rcases List.mem_cons.mp ho with h | h
        · subst h; simp
        · exact ih _ _ o h
      · rcases List.mem_cons.mp ho with h | h
        · subst h; simp; omega
        · exact ih _ _ o h

theorem capLoop_pos (m : Nat) (hm : 0 < m) (l : List CV) (r k : Nat)
    (hpos : ∀ v ∈ l, 0 < v.power) : ∀ o ∈ capLoop m l r k, 0 < o.power := by
  induction l generalizing r k with
  | nil => simp [capLoop]
  | cons v vs ih =>
    intro o ho
    have hv := hpos v (by simp)
    have hvs : ∀ x ∈ vs, 0 < x.power := fun x hx => hpos x (by simp [hx])
    simp only [capLoop] at ho
    split at ho
    · rcases List.mem_cons.mp ho with h | h
      · subst h; simpa using hm
      · exact ih _ _ hvs o h
    · split at ho
      · rcases List.mem_cons.mp ho with h | h
        · subst h; simpa using hm
        · exact ih _ _ hvs o h
      · rcases List.mem_cons.mp ho with h | h
        · subst h; exact Nat.lt_of_lt_of_le hv (Nat.le_add_right _ _)
        · exact ih _ _ hvs o h

/-- below a low head of a descending list everything is low -/
theorem desc_low_tail {m : Nat} {v : CV} {vs : List CV} (hd : Desc (v :: vs)) (hv : v.power < m) :
    (∀ x ∈ vs, x.power ≤ v.power) ∧ countLow m vs = vs.length ∧ excess m vs = 0 := by
  have hle : ∀ x ∈ vs, x.power ≤ v.power := by
    intro x hx; exact (List.pairwise_cons.mp hd).1 x hx
  refine ⟨hle, ?_, ?_⟩
  · unfold countLow
    rw [List.filter_eq_self.mpr]
    intro x hx; have := hle x hx; simp; omega
  · unfold excess
    apply List.sum_eq_zero_iff_forall_eq_nat.mpr
    intro n hn
    obtain ⟨x, hx, rfl⟩ := List.mem_map.mp hn
    have := hle x hx
    have : ¬ x.power ≥ m := by omega
    simp [this]

theorem rooms_ge_of_all_low (m r : Nat) (l : List CV) (h : ∀ x ∈ l, x.power < m ∧ r ≤ m - x.power) :
    l.length * r ≤ rooms m l := by
  induction l with
  | nil => simp [rooms]
  | cons a t ih =>
    have h1 := h a (by simp)
    have h2 := ih (fun x hx => h x (by simp [hx]))
    rw [rooms_cons, List.length_cons, Nat.add_mul]
    simp only [h1.1, if_true]; omega

/-- sum preservation of the loop on a descending list, as long as `rem` fits into the rooms -/
theorem capLoop_sum (m : Nat) (l : List CV) (rem : Nat) (hd : Desc l) (hR : rem ≤ rooms m l) :
    sumPower (capLoop m l rem (countLow m l)) + excess m l = sumPower l + rem := by
  induction l generalizing rem with
  | nil => simp [rooms] at hR; simp [capLoop, sumPower, excess, hR]
  | cons v vs ih =>
    have hd' : Desc vs := (List.pairwise_cons.mp hd).2
    rw [countLow_cons, excess_cons, sumPower_cons]
    rw [rooms_cons] at hR
    simp only [capLoop]
    by_cases hv : v.power ≥ m
    · have hv' : ¬ v.power < m := by omega
      simp only [hv, hv', if_true, if_false, Nat.zero_add] at hR ⊢
      rw [sumPower_cons]
      have := ih rem hd' hR
      simp only; omega
    · have hv' : v.power < m := by omega
      obtain ⟨hle, hcl, hex⟩ := desc_low_tail hd hv'
      simp only [hv, hv', if_true, if_false] at hR ⊢
      rw [hcl] at ih ⊢
      rw [hex] at ih ⊢
      have hk : 0 < 1 + vs.length := by omega
      have hsub : 1 + vs.length - 1 = vs.length := by omega
      rw [hsub]
      have hdivle : rem / (1 + vs.length) ≤ rem := Nat.div_le_self _ _
      split
      · rename_i hcap
        have : rem - (m - v.power) ≤ rooms m vs := by omega
        have := ih _ hd' this
        rw [sumPower_cons]; simp only; omega
      · rename_i hnc
        have hppv : rem / (1 + vs.length) < m - v.power := by omega
        have hrooms : vs.length * (rem / (1 + vs.length) + 1) ≤ rooms m vs := by
          apply rooms_ge_of_all_low
          intro x hx
          have := hle x hx
          omega
        have hlt2 : rem < (1 + vs.length) * (rem / (1 + vs.length) + 1) := by
          have := Nat.lt_mul_div_succ rem hk
          simpa [Nat.mul_comm] using this
        have h3 : (1 + vs.length) * (rem / (1 + vs.length) + 1)
            = vs.length * (rem / (1 + vs.length) + 1) + (rem / (1 + vs.length) + 1) := by
          rw [Nat.add_mul]; omega
        have : rem - rem / (1 + vs.length) ≤ rooms m vs := by omega
        have := ih _ hd' this
        rw [sumPower_cons]; simp only; omega

/-- when `rem` exceeds the rooms, everybody ends at `maxP` -/
theorem capLoop_infeasible (m : Nat) (l : List CV) (rem : Nat) (hd : Desc l) (hR : rooms m l < rem) :
    ∀ o ∈ capLoop m l rem (countLow m l), o.power = m := by
  induction l generalizing rem with
  | nil => simp [capLoop]
  | cons v vs ih =>
    have hd' : Desc vs := (List.pairwise_cons.mp hd).2
    rw [countLow_cons]
    rw [rooms_cons] at hR
    intro o ho
    simp only [capLoop] at ho
    by_cases hv : v.power ≥ m
    · have hv' : ¬ v.power < m := by omega
      simp only [hv, hv', if_true, if_false, Nat.zero_add] at hR ho
      rcases List.mem_cons.mp ho with h | h
      · subst h; rfl
      · exact ih rem hd' hR o h
    · have hv' : v.power < m := by omega
      obtain ⟨hle, hcl, _⟩ := desc_low_tail hd hv'
      simp only [hv, hv', if_true, if_false] at hR ho
      rw [hcl] at ih ho
      have hsub : 1 + vs.length - 1 = vs.length := by omega
      rw [hsub] at ho
      have hrooms : vs.length * (m - v.power) ≤ rooms m vs := by
        apply rooms_ge_of_all_low
        intro x hx
        have := hle x hx
        omega
      have hk : 0 < 1 + vs.length := by omega
      have hge : m - v.power ≤ rem / (1 + vs.length) := by
        rw [Nat.le_div_iff_mul_le hk, Nat.mul_add, Nat.mul_one, Nat.mul_comm]; omega
      have hcap : v.power + rem / (1 + vs.length) ≥ m := by omega
      simp only [hcap, if_true] at ho
      rcases List.mem_cons.mp ho with h | h
      · subst h; rfl
      · exact ih _ hd' (by omega) o h

end ICS.Shaping
