import ICS.Model.Provider
namespace ICS.Provider

theorem find_map_replace_other (l : List (Nat × Nat)) (k v k' : Nat) (hne : k' ≠ k) :
    (l.map fun e => if e.1 == k then (k, v) else e).find? (·.1 == k') = l.find? (·.1 == k') := by
  have hkk : (k == k') = false := by simp; exact fun h => hne h.symm
  induction l with
  | nil => simp
  | cons a t ih =>
    simp only [List.map_cons, List.find?_cons]
    by_cases ha : a.1 = k
    · have h1 : (a.1 == k) = true := by simp [ha]
      have h2 : (a.1 == k') = false := by rw [ha]; exact hkk
      simp only [h1, if_true, hkk, h2]
      exact ih
    · have h1 : (a.1 == k) = false := by simp [ha]
      simp only [h1, Bool.false_eq_true, if_false]
      rw [ih]

theorem find_map_replace_same (l : List (Nat × Nat)) (k v : Nat) (h : l.any (·.1 == k) = true) :
    (l.map fun e => if e.1 == k then (k, v) else e).find? (·.1 == k) = some (k, v) := by
  induction l with
  | nil => simp at h
  | cons a t ih =>
    simp only [List.map_cons, List.find?_cons]
    by_cases ha : a.1 = k
    · simp [ha]
    · have hf : (a.1 == k) = false := by simp [ha]
      simp only [hf, Bool.false_eq_true, if_false]
      apply ih
      simpa [List.any_cons, hf] using h

theorem find_setAssoc_same (l : List (Nat × Nat)) (k v : Nat) :
    (setAssoc l k v).find? (·.1 == k) = some (k, v) := by
  unfold setAssoc
  by_cases h : l.any (·.1 == k) = true
  · simp only [h, if_true]; exact find_map_replace_same l k v h
  · simp only [h]
    simp only [Bool.false_eq_true, if_false]
    rw [List.find?_append]
    have : l.find? (·.1 == k) = none := by
      rw [List.find?_eq_none]; intro x hx hxk
      apply h; rw [List.any_eq_true]; exact ⟨x, hx, hxk⟩
    rw [this]; simp

theorem find_setAssoc_other (l : List (Nat × Nat)) (k v k' : Nat) (hne : k' ≠ k) :
    (setAssoc l k v).find? (·.1 == k') = l.find? (·.1 == k') := by
  unfold setAssoc
  have hkk : (k == k') = false := by simp; exact fun h => hne h.symm
  by_cases h : l.any (·.1 == k) = true
  · simp only [h, if_true]; exact find_map_replace_other l k v k' hne
  · simp only [h]
    simp only [Bool.false_eq_true, if_false]
    rw [List.find?_append]
    have : [(k, v)].find? (·.1 == k') = none := by simp [hkk]
    rw [this]; simp

theorem find_filter_ne (l : List (Nat × Nat)) (k k' : Nat) (hne : k' ≠ k) :
    (l.filter fun b => b.1 != k).find? (·.1 == k') = l.find? (·.1 == k') := by
  induction l with
  | nil => simp
  | cons a t ih =>
    by_cases ha : a.1 = k
    · have h1 : (a.1 != k) = false := by simp [ha]
      have h2 : (a.1 == k') = false := by simp [ha]; exact fun h => hne h.symm
      rw [List.filter_cons, h1]
      simp only [Bool.false_eq_true, if_false, List.find?_cons, h2]
      exact ih
    · have h1 : (a.1 != k) = true := by simp [ha]
      rw [List.filter_cons, h1]
      simp only [if_true, List.find?_cons]
      rw [ih]

end ICS.Provider
