package main

import (
	"bufio"
	"encoding/base64"
	"flag"
	"fmt"
	"os"
	"sort"
	"strconv"
	"strings"
)

// ---------------------------------------------------------------------------------------------
// PRNG: splitmix64; every random choice of a run derives from one state

type Rng struct{ s uint64 }

func (r *Rng) next() uint64 {
	r.s += 0x9e3779b97f4a7c15
	z := r.s
	z = (z ^ (z >> 30)) * 0xbf58476d1ce4e5b9
	z = (z ^ (z >> 27)) * 0x94d049bb133111eb
	return z ^ (z >> 31)
}
func (r *Rng) intn(n int) int {
	if n <= 0 {
		return 0
	}
	return int(r.next() % uint64(n))
}
func (r *Rng) i64n(n int64) int64 {
	if n <= 0 {
		return 0
	}
	return int64(r.next() % uint64(n))
}
func (r *Rng) chance(pct int) bool { return r.intn(100) < pct }
func (r *Rng) pick(xs []int64) int64 { return xs[r.intn(len(xs))] }

// ---------------------------------------------------------------------------------------------
// trace writer

type Trace struct {
	w      *bufio.Writer
	nOps   int
	kinds  map[string]int
	sample []string
}

func (t *Trace) line(s string) {
	t.w.WriteString(s)
	t.w.WriteByte('\n')
}
func (t *Trace) op(line string) {
	t.nOps++
	name := line
	if i := strings.IndexByte(line, ' '); i >= 0 {
		name = line[:i]
	}
	t.kinds[name]++
	t.line("op " + line)
}
func (t *Trace) obs(name string, kv ...any) { t.line("obs " + name + fmtKV(kv)) }

func fmtKV(kv []any) string {
	var b strings.Builder
	for i := 0; i+1 < len(kv); i += 2 {
		b.WriteByte(' ')
		b.WriteString(fmt.Sprint(kv[i]))
		b.WriteByte('=')
		b.WriteString(fmt.Sprint(kv[i+1]))
	}
	return b.String()
}

type pair struct{ a, b int64 }

func fmtPairs(ps []pair) string {
	s := make([]string, len(ps))
	for i, p := range ps {
		s[i] = fmt.Sprintf("%d:%d", p.a, p.b)
	}
	return strings.Join(s, ",")
}

func fmtIntList(xs []int) string {
	s := make([]string, len(xs))
	for i, x := range xs {
		s[i] = strconv.Itoa(x)
	}
	return strings.Join(s, ",")
}

// ---------------------------------------------------------------------------------------------

// A Runner owns the world of one trace and executes fully resolved operation lines against the
// real code, writing the op line and the implementation's observations to the trace.
type Runner interface {
	Do(op string) // op = "<name> k=v k=v ..."
}

type StreamDef struct {
	New func(t *Trace) Runner
	Gen func(r *Rng, run Runner, n int, tier string)
}

var streams = map[string]StreamDef{}

// parsed op line
type Op struct {
	name string
	kv   map[string]string
}

func parseOp(s string) Op {
	toks := strings.Fields(s)
	o := Op{kv: map[string]string{}}
	if len(toks) == 0 {
		return o
	}
	o.name = toks[0]
	for _, t := range toks[1:] {
		if i := strings.IndexByte(t, '='); i >= 0 {
			o.kv[t[:i]] = t[i+1:]
		}
	}
	return o
}
func (o Op) s(k string) string { return o.kv[k] }
func (o Op) has(k string) bool { _, ok := o.kv[k]; return ok }
func (o Op) i(k string) int64 {
	v, _ := strconv.ParseInt(o.kv[k], 10, 64)
	return v
}
func (o Op) ints(k string) []int64 {
	if o.kv[k] == "" {
		return nil
	}
	var out []int64
	for _, t := range strings.Split(o.kv[k], ",") {
		v, _ := strconv.ParseInt(t, 10, 64)
		out = append(out, v)
	}
	return out
}
func (o Op) pairs(k string) []pair {
	if o.kv[k] == "" {
		return nil
	}
	var out []pair
	for _, t := range strings.Split(o.kv[k], ",") {
		ab := strings.SplitN(t, ":", 2)
		a, _ := strconv.ParseInt(ab[0], 10, 64)
		b, _ := strconv.ParseInt(ab[1], 10, 64)
		out = append(out, pair{a, b})
	}
	return out
}

func opLine(name string, kv ...any) string { return name + fmtKV(kv) }

func main() {
	stream := flag.String("stream", "", "stream name")
	seed := flag.Uint64("seed", 1, "seed")
	n := flag.Int("n", 100, "number of cases / operations")
	out := flag.String("out", "", "trace output file")
	tier := flag.String("tier", "quick", "tier")
	replay := flag.String("replay", "", "re-execute the op lines of this trace instead of generating")
	list := flag.Bool("list", false, "list streams")
	flag.Parse()
	if *list {
		var names []string
		for k := range streams {
			names = append(names, k)
		}
		sort.Strings(names)
		fmt.Println(strings.Join(names, "\n"))
		return
	}
	var replayOps []string
	if *replay != "" {
		bz, err := os.ReadFile(*replay)
		if err != nil {
			panic(err)
		}
		for _, l := range strings.Split(string(bz), "\n") {
			if strings.HasPrefix(l, "hdr ") && *stream == "" {
				for _, t := range strings.Fields(l) {
					if strings.HasPrefix(t, "stream=") {
						*stream = t[7:]
					}
				}
			}
			if strings.HasPrefix(l, "op ") {
				replayOps = append(replayOps, l[3:])
			}
		}
	}
	// "<stream>@r<N>": the same generator, with every block hook first run N times on throw-away
	// branches and the replicas compared (C18)
	base := *stream
	if i := strings.Index(base, "@r"); i > 0 {
		fmt.Sscan(base[i+2:], &replicas)
		base = base[:i]
	}
	def, ok := streams[base]
	if !ok {
		fmt.Fprintln(os.Stderr, "unknown stream", *stream)
		os.Exit(2)
	}
	fh, err := os.Create(*out)
	if err != nil {
		panic(err)
	}
	t := &Trace{w: bufio.NewWriterSize(fh, 1<<20), kinds: map[string]int{}}
	t.line(fmt.Sprintf("hdr stream=%s seed=%d n=%d tier=%s", *stream, *seed, *n, *tier))
	run := def.New(t)
	if *replay != "" {
		for _, o := range replayOps {
			run.Do(o)
		}
	} else {
		r := &Rng{s: *seed*0x2545F4914F6CDD1D + 0x1234567}
		def.Gen(r, run, *n, *tier)
	}
	t.w.Flush()
	fh.Close()
	var ks []string
	for k, v := range t.kinds {
		ks = append(ks, fmt.Sprintf("%s:%d", k, v))
	}
	sort.Strings(ks)
	fmt.Printf("HARNESS stream=%s seed=%d ops=%d kinds=%s\n", *stream, *seed, t.nOps, strings.Join(ks, ","))
}

func itoa(i int) string { return strconv.Itoa(i) }

func stdB64(bz []byte) string { return base64.StdEncoding.EncodeToString(bz) }

func (r *Rng) perm(n int) []int {
	p := make([]int, n)
	for i := range p {
		p[i] = i
	}
	for i := n - 1; i > 0; i-- {
		j := r.intn(i + 1)
		p[i], p[j] = p[j], p[i]
	}
	return p
}
