package main

// stream "consumer": the real consumer keeper / AppModule (BeginBlock, EndBlock, OnRecvPacket,
// OnAcknowledgementPacket, slashing entry point) over the scripted environment.
// Serves C01 (consumer side), C08/C09 (downtime flags, retry state machine), C12 (height -> id).

import (
	"fmt"
	"sort"
	"strconv"
	"strings"
	"time"

	clienttypes "github.com/cosmos/ibc-go/v10/modules/core/02-client/types"
	channeltypes "github.com/cosmos/ibc-go/v10/modules/core/04-channel/types"

	"cosmossdk.io/math"

	sdk "github.com/cosmos/cosmos-sdk/types"
	stakingtypes "github.com/cosmos/cosmos-sdk/x/staking/types"

	abci "github.com/cometbft/cometbft/abci/types"

	ccv "github.com/cosmos/interchain-security/v7/x/ccv/types"
)

type consRunner struct {
	t     *Trace
	w     *CWorld
	prev  map[string]string
	seq   uint64
	sent  []SentPacket // packets sent and not yet acknowledged (FIFO)
	ready bool
}

const consChan = "channel-0"

func (c *consRunner) snapshot() map[string]string {
	w := c.w
	m := map[string]string{}
	m["cc"] = w.ccSet()
	if pc, ok := w.ck.GetPendingChanges(w.ctx); ok {
		m["pendch"] = w.pool.fmtUpdates(pc.ValidatorUpdates)
		if len(pc.ValidatorUpdates) == 0 {
			m["pendch"] = "empty"
		}
	} else {
		m["pendch"] = "-"
	}
	var h2v []string
	for _, e := range w.ck.GetAllHeightToValsetUpdateIDs(w.ctx) {
		h2v = append(h2v, fmt.Sprintf("%d:%d", e.Height, e.ValsetUpdateId))
	}
	m["h2v"] = strings.Join(h2v, ",")
	if ch, ok := w.ck.GetProviderChannel(w.ctx); ok {
		m["pchan"] = ch
	} else {
		m["pchan"] = "-"
	}
	var od []int
	for _, o := range w.ck.GetAllOutstandingDowntimes(w.ctx) {
		a, _ := sdk.ConsAddressFromBech32(o.ValidatorConsensusAddress)
		od = append(od, w.pool.byCons[string(a)])
	}
	sort.Ints(od)
	m["outstanding"] = fmtIntList(od)
	var q []string
	for _, p := range w.ck.GetAllPendingPacketsWithIdx(w.ctx) {
		switch p.Type {
		case ccv.SlashPacket:
			d := p.GetSlashPacketData()
			q = append(q, fmt.Sprintf("s/%d/%d/%d/%d", w.pool.byCons[string(d.Validator.Address)], d.Validator.Power, d.ValsetUpdateId, int(d.Infraction)))
		case ccv.VscMaturedPacket:
			q = append(q, fmt.Sprintf("m/%d", p.GetVscMaturedPacketData().ValsetUpdateId))
		}
	}
	m["queue"] = strings.Join(q, ",")
	if r, ok := w.ck.GetSlashRecord(w.ctx); ok {
		wa := 0
		if r.WaitingOnReply {
			wa = 1
		}
		m["record"] = fmt.Sprintf("%d/%d", r.SendTime.UnixNano()-t0.UnixNano(), wa)
	} else {
		m["record"] = "-"
	}
	snapshotConsRewards(w, m)
	var conns []string
	for i := 0; i < 3; i++ {
		var r ConnRec
		if w.env.get(w.ctx, fmt.Sprintf("conn/connection-%d", i), &r) {
			conns = append(conns, fmt.Sprintf("connection-%d:%s", i, r.ClientID))
		}
	}
	m["conns"] = strings.Join(conns, ",")
	if pc, ok := w.ck.GetProviderClientID(w.ctx); ok {
		m["pclient"] = pc
	} else {
		m["pclient"] = "-"
	}
	m["h"] = fmt.Sprint(w.ctx.BlockHeight())
	m["now"] = fmt.Sprint(w.ctx.BlockTime().UnixNano() - t0.UnixNano())
	// environment: is the CCV channel still open?
	m["chanopen"] = "1"
	if ch, ok := w.ck.GetProviderChannel(w.ctx); ok {
		if r, ok := w.chk.rec(w.ctx, ccv.ConsumerPortID, ch); !ok || r.State != int(channeltypes.OPEN) {
			m["chanopen"] = "0"
		}
	}
	return m
}

var extraConsOps = map[string]func(c *consRunner, op Op, extra *[]any) error{}

func (c *consRunner) emit() {
	s := c.snapshot()
	var kv []any
	keys := make([]string, 0, len(s))
	for k := range s {
		keys = append(keys, k)
	}
	sort.Strings(keys)
	for _, k := range keys {
		if c.prev == nil || c.prev[k] != s[k] {
			kv = append(kv, k, s[k])
		}
	}
	c.prev = s
	if len(kv) > 0 {
		c.t.obs("cs", kv...)
	}
}

func (c *consRunner) guard(f func() error) (err error) {
	defer func() {
		if r := recover(); r != nil {
			err = fmt.Errorf("panic: %v", r)
		}
	}()
	return f()
}

func (c *consRunner) fmtSentC(sent []SentPacket) string {
	var out []string
	for _, s := range sent {
		var d ccv.ConsumerPacketDataV1
		if err := ccv.ModuleCdc.UnmarshalJSON(s.Data, &d); err != nil {
			out = append(out, "undecodable")
			continue
		}
		switch d.Type {
		case ccv.SlashPacket:
			sd := d.GetSlashPacketData()
			out = append(out, fmt.Sprintf("s/%d/%d/%d/%d", c.w.pool.byCons[string(sd.Validator.Address)], sd.Validator.Power, sd.ValsetUpdateId, int(sd.Infraction)))
		case ccv.VscMaturedPacket:
			out = append(out, fmt.Sprintf("m/%d", d.GetVscMaturedPacketData().ValsetUpdateId))
		}
	}
	return strings.Join(out, ",")
}

func (c *consRunner) Do(line string) {
	op := parseOp(line)
	c.t.op(line)
	var err error
	extra := []any{}
	switch op.name {
	case "keyorder":
	case "cinit":
		c.w = NewCWorld("consumer-1")
		p := ccv.DefaultParams()
		p.RetryDelayPeriod = time.Duration(op.i("retry"))
		if op.has("frac") {
			p.ConsumerRedistributionFraction = op.s("frac")
			p.BlocksPerDistributionTransmission = op.i("bpdt")
			p.RewardDenoms = splitPlus(op.s("denoms"))
			p.DistributionTransmissionChannel = op.s("tch")
			p.ProviderFeePoolAddrStr = "cosmos1ap0mh6xzfn8943urr84q6ae7zfnar48am2erhd"
			p.ConsumerId = "7"
		}
		ret := c.w.initGenesisNew(c.w.pool.mkUpdates(op.pairs("initial")), &p)
		// the CCV channel as core IBC would hold it once the handshake is done
		c.w.chk.setRec(c.w.ctx, ccv.ConsumerPortID, consChan, ChanRec{State: int(channeltypes.OPEN), Ordered: true, Hops: []string{"connection-0"}, Port: ccv.ConsumerPortID, CpPort: ccv.ProviderPortID, CpChan: "channel-9", Version: "1", NextSeq: 1})
		c.w.chk.setRec(c.w.ctx, ccv.ConsumerPortID, "channel-5", ChanRec{State: int(channeltypes.OPEN), Ordered: true, Hops: []string{"connection-0"}, Port: ccv.ConsumerPortID, CpPort: ccv.ProviderPortID, CpChan: "channel-8", Version: "1", NextSeq: 1})
		extra = append(extra, "ret", c.w.pool.fmtUpdates(ret))
		c.prev, c.sent, c.ready = nil, nil, true
	case "cbegin":
		c.w.advance(op.i("dh"), time.Duration(op.i("dt")))
		err = c.guard(func() error { return c.w.mod.BeginBlock(c.w.ctx) })
	case "cend":
		var ups []abci.ValidatorUpdate
		if op.has("tfail") {
			c.w.env.fail["transfer.Transfer"] = int(op.i("tfail"))
		}
		defer delete(c.w.env.fail, "transfer.Transfer")
		if rep := c.replicaDigests(); rep != "" {
			extra = append(extra, "rep", rep)
		}
		err = c.guard(func() error {
			var e error
			ups, e = c.w.mod.EndBlock(c.w.ctx)
			return e
		})
		extra = append(extra, "ret", c.w.pool.fmtUpdates(ups))
	case "crecvvsc":
		data := ccv.ValidatorSetChangePacketData{ValidatorUpdates: c.w.pool.mkUpdates(op.pairs("upd")), ValsetUpdateId: uint64(op.i("id"))}
		if data.ValidatorUpdates == nil && op.s("nil") != "1" {
			data.ValidatorUpdates = []abci.ValidatorUpdate{}
		}
		for _, k := range op.ints("acks") {
			data.SlashAcks = append(data.SlashAcks, c.w.pool.ids[k].consAddr.String())
		}
		if op.has("badack") {
			data.SlashAcks = append(data.SlashAcks, "notbech32")
		}
		bz := data.GetBytes()
		if op.s("enc") == "garbage" {
			bz = []byte("{garbage")
		}
		c.seq++
		ch := consChan
		if op.has("ch") {
			ch = op.s("ch")
		}
		pkt := channeltypes.NewPacket(bz, c.seq, ccv.ProviderPortID, "channel-9", ccv.ConsumerPortID, ch, clienttypes.Height{}, 0)
		cctx, write := c.w.ctx.CacheContext()
		ackStr := ""
		err = c.guard(func() error {
			ack := c.w.mod.OnRecvPacket(cctx, "", pkt, nil)
			if ack.Success() {
				write()
				ackStr = "ok"
			} else {
				ackStr = "error"
			}
			return nil
		})
		extra = append(extra, "ack", ackStr)
	case "cslash":
		inf := stakingtypes.Infraction_INFRACTION_DOWNTIME
		switch op.s("kind") {
		case "ds":
			inf = stakingtypes.Infraction_INFRACTION_DOUBLE_SIGN
		case "un":
			inf = stakingtypes.Infraction_INFRACTION_UNSPECIFIED
		}
		err = c.guard(func() error {
			_, e := c.w.ck.SlashWithInfractionReason(c.w.ctx, c.w.pool.ids[op.i("key")].consAddr, op.i("ih"), op.i("power"), math.LegacyNewDecWithPrec(1, 2), inf)
			return e
		})
	case "cqueuematured":
		c.w.ck.AppendPendingPacket(c.w.ctx, ccv.VscMaturedPacket, &ccv.ConsumerPacketData_VscMaturedPacketData{VscMaturedPacketData: ccv.NewVSCMaturedPacketData(uint64(op.i("id")))})
	case "cack":
		// acknowledge the oldest unacknowledged sent packet (ordered channel), or a chosen one
		if len(c.sent) == 0 {
			err = fmt.Errorf("nothing in flight")
			break
		}
		sp := c.sent[0]
		c.sent = c.sent[1:]
		pkt := channeltypes.NewPacket(sp.Data, sp.Seq, sp.Port, sp.Channel, ccv.ProviderPortID, "channel-9", clienttypes.Height{}, sp.Timeout)
		var ack channeltypes.Acknowledgement
		switch op.s("res") {
		case "handled":
			ack = channeltypes.NewResultAcknowledgement(ccv.SlashPacketHandledResult)
		case "bounced":
			ack = channeltypes.NewResultAcknowledgement(ccv.SlashPacketBouncedResult)
		case "v1":
			ack = channeltypes.NewResultAcknowledgement(ccv.V1Result)
		default:
			ack = channeltypes.NewErrorAcknowledgement(fmt.Errorf("boom"))
		}
		var d ccv.ConsumerPacketDataV1
		_ = ccv.ModuleCdc.UnmarshalJSON(sp.Data, &d)
		extra = append(extra, "pkt", map[bool]string{true: "slash", false: "matured"}[d.Type == ccv.SlashPacket])
		err = c.w.atomically(func(ctx sdk.Context) error {
			return c.w.mod.OnAcknowledgementPacket(ctx, "", pkt, ack.Acknowledgement(), nil)
		})
	default:
		f, ok := extraConsOps[op.name]
		if !ok {
			panic("unknown consumer op " + op.name)
		}
		err = f(c, op, &extra)
	}
	kv := append([]any{"res", errClass(err)}, extra...)
	if c.w != nil {
		if sent := c.w.chk.takeSent(c.w.ctx); len(sent) > 0 {
			kv = append(kv, "sent", c.fmtSentC(sent))
			c.sent = append(c.sent, sent...)
		}
		if eff := c.w.env.takeEffects(c.w.ctx); len(eff) > 0 {
			kv = append(kv, "effects", strings.NewReplacer(" ", "_", "\n", "", "\t", "").Replace(strings.Join(eff, "|")))
		}
	}
	c.t.obs("r", kv...)
	if c.w != nil && c.ready {
		c.emit()
	}
}

func init() {
	streams["consumer"] = StreamDef{
		New: func(t *Trace) Runner { return &consRunner{t: t} },
		Gen: func(r *Rng, run Runner, n int, tier string) {
			c := run.(*consRunner)
			if sharedPool == nil {
				sharedPool = NewPool(nPool)
			}
			ko := sharedPool.keyOrder()
			s := make([]string, len(ko))
			for i, k := range ko {
				s[i] = strconv.Itoa(k)
			}
			run.Do("keyorder order=" + strings.Join(s, ","))
			retry := []int64{2 * sec, 5 * sec, 3600 * sec}[r.intn(3)]
			run.Do(opLine("cinit", "retry", retry, "initial", fmtPairs(genSet(r, 8, 6, 0))))
			// the handshake phase: no provider channel yet, so attempts can succeed
			handshakeBurst := func() {
				run.Do("cmkconn conn=connection-0 client=07-tendermint-0")
				run.Do("cmkconn conn=connection-1 client=07-tendermint-1")
				for i := 0; i < 8; i++ {
					run.Do(genConsHandshake(r, c))
				}
				if r.chance(75) {
					// the handshake as it should go, possibly acknowledged twice
					run.Do("cchaninit ch=channel-20 order=ORDERED port=consumer cport=provider ver=1 hops=connection-0")
					run.Do("cchanack ch=channel-20 md=1")
					if r.chance(40) {
						run.Do(genConsHandshake(r, c))
						run.Do("cchanack ch=channel-20 md=1")
					}
				}
			}
			handshakeBurst()
			nextID := int64(1)
			for i := 0; i < n; i++ {
				h, _ := strconv.ParseInt(c.prev["h"], 10, 64)
				if r.chance(9) {
					run.Do(genConsHandshake(r, c))
					continue
				}
				if r.chance(2) && c.prev["pchan"] != "-" && c.prev["pchan"] != "" {
					// core IBC closes the established CCV channel (e.g. the provider closed its end), possibly
					// in the very block in which a VSC packet was received
					run.Do("cchanclose ch=" + c.prev["pchan"])
					continue
				}
				switch pickWeighted(r, []int{22, 20, 18, 14, 3, 1}) {
				case 0: // a block boundary
					run.Do("cend")
					dt := []int64{1, sec, retry, retry + 1, retry - 1, 2 * retry}[r.intn(6)]
					// land exactly on / around the retry deadline of a bounced slash packet
					if rec := c.prev["record"]; rec != "-" && rec != "" && r.chance(60) {
						parts := strings.Split(rec, "/")
						st, _ := strconv.ParseInt(parts[0], 10, 64)
						now, _ := strconv.ParseInt(c.prev["now"], 10, 64)
						if d := st + retry - now + []int64{-1, 0, 1}[r.intn(3)]; d > 0 {
							dt = d
						}
					}
					if dt <= 0 {
						dt = 1
					}
					run.Do(opLine("cbegin", "dh", 1, "dt", dt))
				case 1: // a VSC packet (several may arrive in one block)
					id := nextID
					nextID += 1 + r.i64n(2)
					s := opLine("crecvvsc", "id", id, "upd", fmtPairs(genUpdates(r, 8, 5)))
					if r.chance(40) {
						// acknowledge some downtime reports
						var acks []string
						for _, k := range splitNE(c.prev["outstanding"]) {
							if r.chance(60) {
								acks = append(acks, k)
							}
						}
						if r.chance(15) {
							acks = append(acks, strconv.Itoa(r.intn(8)))
						}
						s += " acks=" + strings.Join(acks, ",")
					}
					if r.chance(3) {
						s += " badack=1"
					}
					if r.chance(2) {
						s = opLine("crecvvsc", "id", 0, "upd", "1:1")
					}
					if r.chance(2) {
						s += " enc=garbage"
					}
					if r.chance(2) && c.prev["pchan"] != "-" {
						s += " ch=channel-5"
					}
					run.Do(s)
				case 2: // an infraction observed by the consumer's slashing / evidence module
					kind := []string{"dt", "dt", "dt", "ds", "un"}[r.intn(5)]
					ih := h - r.i64n(h+1)
					if r.chance(10) {
						ih = h + 1 + r.i64n(3)
					}
					run.Do(opLine("cslash", "key", r.intn(8), "power", 1+r.intn(5), "ih", ih, "kind", kind))
				case 3: // an acknowledgement comes back
					if len(c.sent) == 0 {
						continue
					}
					res := []string{"handled", "handled", "bounced", "bounced", "v1", "error"}[r.intn(6)]
					if r.chance(97) && res == "error" {
						res = "bounced"
					}
					run.Do(opLine("cack", "res", res))
				case 4:
					run.Do(opLine("cqueuematured", "id", 1+r.intn(5)))
				default:
					if r.chance(10) {
						run.Do(opLine("cinit", "retry", retry, "initial", fmtPairs(genSet(r, 8, 6, 0))))
						nextID = 1
						handshakeBurst()
					}
				}
			}
		},
	}
}

// replicas of the consumer's EndBlock (C18): executed `replicas` times on throw-away branches of the
// current state; returned updates, every key/value of the consumer store, packets and environment
// calls must agree byte for byte
func (c *consRunner) replicaDigests() (out string) {
	if replicas == 0 || len(c.w.env.fail) > 0 {
		return ""
	}
	defer func() {
		if r := recover(); r != nil {
			out = ""
		}
	}()
	w := c.w
	var first map[string]string
	for i := 0; i < replicas; i++ {
		cctx, _ := w.ctx.CacheContext()
		ups, err := w.mod.EndBlock(cctx)
		d := map[string]string{"~ret": fmt.Sprint(w.pool.fmtUpdates(ups), err != nil)}
		it := cctx.KVStore(w.ckey).Iterator(nil, nil)
		for ; it.Valid(); it.Next() {
			d[fmt.Sprintf("%x", it.Key())] = fmt.Sprintf("%x", it.Value())
		}
		it.Close()
		for j, sp := range w.chk.takeSent(cctx) {
			d[fmt.Sprintf("~sent%d", j)] = fmt.Sprintf("%s/%s/%d/%x/%d", sp.Port, sp.Channel, sp.Seq, sp.Data, sp.Timeout)
		}
		d["~effects"] = strings.Join(w.env.takeEffects(cctx), "|")
		if first == nil {
			first = d
			continue
		}
		if diff := diffKeys(first, d); len(diff) > 0 {
			return "differ:key=" + diff[0]
		}
	}
	return "same"
}
