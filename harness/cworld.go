package main

// consumer-chain world: the real consumer keeper and AppModule over its own multistore, with the
// scripted environment keepers

import (
	"context"
	"fmt"
	"sort"
	"time"

	dbm "github.com/cosmos/cosmos-db"
	clienttypes "github.com/cosmos/ibc-go/v10/modules/core/02-client/types"
	commitmenttypes "github.com/cosmos/ibc-go/v10/modules/core/23-commitment/types"
	ibctmtypes "github.com/cosmos/ibc-go/v10/modules/light-clients/07-tendermint"

	"cosmossdk.io/log"
	"cosmossdk.io/store"
	"cosmossdk.io/store/metrics"
	storetypes "cosmossdk.io/store/types"

	"github.com/cosmos/cosmos-sdk/codec"
	"github.com/cosmos/cosmos-sdk/codec/address"
	codectypes "github.com/cosmos/cosmos-sdk/codec/types"
	cryptocodec "github.com/cosmos/cosmos-sdk/crypto/codec"
	sdk "github.com/cosmos/cosmos-sdk/types"
	authtypes "github.com/cosmos/cosmos-sdk/x/auth/types"
	govtypes "github.com/cosmos/cosmos-sdk/x/gov/types"
	paramstypes "github.com/cosmos/cosmos-sdk/x/params/types"

	abci "github.com/cometbft/cometbft/abci/types"
	tmproto "github.com/cometbft/cometbft/proto/tendermint/types"

	"github.com/cosmos/interchain-security/v7/x/ccv/consumer"
	consumerkeeper "github.com/cosmos/interchain-security/v7/x/ccv/consumer/keeper"
	consumertypes "github.com/cosmos/interchain-security/v7/x/ccv/consumer/types"
	ccv "github.com/cosmos/interchain-security/v7/x/ccv/types"
)

type noHooks struct{}

func (noHooks) AfterValidatorBonded(ctx context.Context, consAddr sdk.ConsAddress, valAddresses sdk.ValAddress) error {
	return nil
}

type CWorld struct {
	ms     storetypes.CommitMultiStore
	ckey   *storetypes.KVStoreKey
	envKey *storetypes.KVStoreKey
	ctx    sdk.Context
	ck     consumerkeeper.Keeper
	mod    consumer.AppModule
	env    *Env
	pool   *Pool
	chk    *ChanK
	cdc    *codec.ProtoCodec
}

func NewCWorld(chainID string) *CWorld {
	if sharedPool == nil {
		sharedPool = NewPool(nPool)
	}
	w := &CWorld{pool: sharedPool}
	w.ckey = storetypes.NewKVStoreKey(consumertypes.StoreKey)
	w.envKey = storetypes.NewKVStoreKey("env")
	parKey := storetypes.NewKVStoreKey(paramstypes.StoreKey)
	parTKey := storetypes.NewTransientStoreKey(paramstypes.TStoreKey)
	ms := store.NewCommitMultiStore(dbm.NewMemDB(), log.NewNopLogger(), metrics.NewNoOpMetrics())
	ms.MountStoreWithDB(w.ckey, storetypes.StoreTypeIAVL, nil)
	ms.MountStoreWithDB(w.envKey, storetypes.StoreTypeIAVL, nil)
	ms.MountStoreWithDB(parKey, storetypes.StoreTypeIAVL, nil)
	ms.MountStoreWithDB(parTKey, storetypes.StoreTypeTransient, nil)
	if err := ms.LoadLatestVersion(); err != nil {
		panic(err)
	}
	w.ms = ms
	registry := codectypes.NewInterfaceRegistry()
	cryptocodec.RegisterInterfaces(registry)
	w.cdc = codec.NewProtoCodec(registry)
	sub := paramstypes.NewSubspace(w.cdc, codec.NewLegacyAmino(), parKey, parTKey, consumertypes.ModuleName)
	w.env = &Env{key: w.envKey, pool: w.pool, fail: map[string]int{}}
	w.chk = &ChanK{w.env}
	w.ck = consumerkeeper.NewKeeper(w.cdc, w.ckey,
		w.chk, &ConnK{w.env}, &ClientK{w.env}, &SlashingK{w.env}, &BankK{w.env}, &AccountK{w.env},
		&TransferK{w.env}, &IBCCoreK{w.env},
		authtypes.FeeCollectorName, authtypes.NewModuleAddress(govtypes.ModuleName).String(),
		address.NewBech32Codec("cosmosvaloper"), address.NewBech32Codec("cosmosvalcons"))
	w.ck.SetHooks(noHooks{})
	w.mod = consumer.NewAppModule(w.ck, sub)
	w.ctx = sdk.NewContext(ms, tmproto.Header{ChainID: chainID, Height: 1, Time: t0}, false, log.NewNopLogger())
	return w
}

// default genesis of a new consumer chain with the given initial validator set
func (w *CWorld) initGenesisNew(initial []abci.ValidatorUpdate, params *ccv.ConsumerParams) []abci.ValidatorUpdate {
	cs := ibctmtypes.NewClientState("provider-1", ibctmtypes.DefaultTrustLevel, time.Hour*24*14, time.Hour*24*21, time.Second*10,
		clienttypes.NewHeight(1, 5), commitmenttypes.GetSDKSpecs(), []string{"upgrade", "upgradedIBCState"})
	cons := ibctmtypes.NewConsensusState(t0, commitmenttypes.NewMerkleRoot([]byte("apphash")), []byte("nextvalshash-nextvalshash-123456"))
	p := ccv.DefaultParams()
	if params != nil {
		p = *params
	}
	p.Enabled = true
	gs := consumertypes.NewInitialGenesisState(cs, cons, initial, p)
	return w.ck.InitGenesis(w.ctx, gs)
}

func (w *CWorld) atomically(f func(ctx sdk.Context) error) (err error) {
	cctx, write := w.ctx.CacheContext()
	defer func() {
		if r := recover(); r != nil {
			err = fmt.Errorf("panic: %v", r)
		}
	}()
	err = f(cctx)
	if err == nil {
		write()
	}
	return err
}

func (w *CWorld) advance(dh int64, dt time.Duration) {
	h := w.ctx.BlockHeader()
	h.Height += dh
	h.Time = h.Time.Add(dt)
	w.ctx = w.ctx.WithBlockHeader(h)
}

// key id of an abci update's public key
func (p *Pool) keyID(u abci.ValidatorUpdate) int64 {
	id, ok := p.byPkString[u.PubKey.String()]
	if !ok {
		return -1
	}
	return int64(id)
}

func (p *Pool) fmtUpdates(us []abci.ValidatorUpdate) string {
	ps := make([]pair, len(us))
	for i, u := range us {
		ps[i] = pair{p.keyID(u), u.Power}
	}
	return fmtPairs(ps)
}

func (p *Pool) mkUpdates(ps []pair) []abci.ValidatorUpdate {
	out := make([]abci.ValidatorUpdate, len(ps))
	for i, pr := range ps {
		out[i] = abci.ValidatorUpdate{PubKey: p.ids[pr.a].ci.TMProtoCryptoPublicKey(), Power: pr.b}
	}
	return out
}

// stored cross-chain validators, canonical order by key id
func (w *CWorld) ccSet() string {
	var ps []pair
	for _, v := range w.ck.GetAllCCValidator(w.ctx) {
		pk, err := v.ConsPubKey()
		if err != nil {
			panic(err)
		}
		tm, err := cryptocodec.ToCmtProtoPublicKey(pk)
		if err != nil {
			panic(err)
		}
		ps = append(ps, pair{int64(w.pool.byPkString[tm.String()]), v.Power})
	}
	sort.Slice(ps, func(a, b int) bool { return ps[a].a < ps[b].a })
	return fmtPairs(ps)
}
