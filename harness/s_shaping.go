package main

// stream "powercap": direct calls of the exported pure shaping functions (C04)

import (
	"sort"

	providerkeeper "github.com/cosmos/interchain-security/v7/x/ccv/provider/keeper"
	providertypes "github.com/cosmos/interchain-security/v7/x/ccv/provider/types"
)

func genPowers(r *Rng, n int) []int64 {
	mode := r.intn(6)
	out := make([]int64, n)
	base := []int64{1, 2, 3, 5, 10, 100, 1000, 1 << 20, 1 << 40, 1 << 55}
	for i := range out {
		switch mode {
		case 0: // small, many ties
			out[i] = 1 + r.i64n(4)
		case 1: // medium
			out[i] = 1 + r.i64n(1000)
		case 2: // one whale
			if i == 0 {
				out[i] = 1000 + r.i64n(100000)
			} else {
				out[i] = 1 + r.i64n(50)
			}
		case 3: // extreme
			out[i] = r.pick(base) + r.i64n(3)
		case 4: // all equal
			out[i] = 7
		default:
			out[i] = 1 + r.i64n(1<<uint(1+r.intn(40)))
		}
	}
	return out
}

type pureRunner struct {
	t    *Trace
	pool *Pool
}

func (p *pureRunner) Do(line string) {
	op := parseOp(line)
	p.t.op(line)
	switch op.name {
	case "powercap":
		in := op.pairs("vals")
		vals := make([]providertypes.ConsensusValidator, len(in))
		for i, pr := range in {
			pk := p.pool.ids[pr.a].ci.TMProtoCryptoPublicKey()
			vals[i] = providertypes.ConsensusValidator{ProviderConsAddr: p.pool.ids[pr.a].consAddr, Power: pr.b, PublicKey: &pk}
		}
		res := providerkeeper.NoMoreThanPercentOfTheSum(vals, uint32(op.i("percent")))
		outp := make([]pair, len(res))
		for i, v := range res {
			outp[i] = pair{int64(p.pool.byCons[string(v.ProviderConsAddr)]), v.Power}
		}
		exact := 1
		if len(in) > 12 {
			// Go's sort.Slice is not stable beyond 12 elements: canonical order, compared as multisets
			exact = 0
			sort.Slice(outp, func(a, b int) bool {
				if outp[a].b != outp[b].b {
					return outp[a].b > outp[b].b
				}
				return outp[a].a < outp[b].a
			})
		}
		p.t.obs("powercap", "exact", exact, "res", fmtPairs(outp))
	}
}

func init() {
	streams["powercap"] = StreamDef{
		New: func(t *Trace) Runner {
			if sharedPool == nil {
				sharedPool = NewPool(nPool)
			}
			return &pureRunner{t: t, pool: sharedPool}
		},
		Gen: func(r *Rng, run Runner, n int, tier string) {
			for c := 0; c < n; c++ {
				maxN := 12
				if r.chance(15) {
					maxN = 32
				}
				nv := r.intn(maxN + 1)
				powers := genPowers(r, nv)
				percent := 1 + r.intn(100)
				if r.chance(5) {
					percent = []int{1, 50, 100}[r.intn(3)]
				}
				in := make([]pair, nv)
				for i := range in {
					in[i] = pair{int64(i), powers[i]}
				}
				run.Do(opLine("powercap", "percent", percent, "vals", fmtPairs(in)))
			}
		},
	}
}
