package main

// consumer side of the CCV channel handshake (C17): the real consumer AppModule callbacks

import (
	"fmt"
	"strings"

	channeltypes "github.com/cosmos/ibc-go/v10/modules/core/04-channel/types"

	sdk "github.com/cosmos/cosmos-sdk/types"

	ccv "github.com/cosmos/interchain-security/v7/x/ccv/types"
)

func init() {
	// cmkconn conn= client=   (a connection as core IBC holds it on the consumer)
	extraConsOps["cmkconn"] = func(c *consRunner, op Op, extra *[]any) error {
		c.w.env.set(c.w.ctx, "conn/"+op.s("conn"), ConnRec{ClientID: op.s("client"), CpConn: "connection-cp"})
		return nil
	}
	// cchaninit ch= order= port= cport= ver= hops=   ("_" in ver stands for a space)
	extraConsOps["cchaninit"] = func(c *consRunner, op Op, extra *[]any) error {
		order := channeltypes.ORDERED
		if op.s("order") == "UNORDERED" {
			order = channeltypes.UNORDERED
		}
		ver := strings.ReplaceAll(op.s("ver"), "_", " ")
		pc, _ := c.w.ck.GetProviderClientID(c.w.ctx)
		*extra = append(*extra, "pclient", pc)
		return c.w.atomically(func(ctx sdk.Context) error {
			v, e := c.w.mod.OnChanOpenInit(ctx, order, splitNE(op.s("hops")), op.s("port"), op.s("ch"),
				channeltypes.Counterparty{PortId: op.s("cport"), ChannelId: ""}, ver)
			if e == nil {
				*extra = append(*extra, "version", v)
				c.w.chk.setRec(ctx, op.s("port"), op.s("ch"), ChanRec{State: int(channeltypes.INIT), Ordered: order == channeltypes.ORDERED,
					Hops: splitNE(op.s("hops")), Port: op.s("port"), CpPort: op.s("cport"), Version: v, NextSeq: 1})
			}
			return e
		})
	}
	extraConsOps["cchantry"] = func(c *consRunner, op Op, extra *[]any) error {
		return c.w.atomically(func(ctx sdk.Context) error {
			_, e := c.w.mod.OnChanOpenTry(ctx, channeltypes.ORDERED, []string{"connection-0"}, ccv.ConsumerPortID, op.s("ch"),
				channeltypes.Counterparty{PortId: ccv.ProviderPortID, ChannelId: "channel-9"}, "1")
			return e
		})
	}
	extraConsOps["cchanconfirm"] = func(c *consRunner, op Op, extra *[]any) error {
		return c.w.atomically(func(ctx sdk.Context) error { return c.w.mod.OnChanOpenConfirm(ctx, ccv.ConsumerPortID, op.s("ch")) })
	}
	// cchanack ch= md=1|2|garbage   (version inside the provider's handshake metadata)
	extraConsOps["cchanack"] = func(c *consRunner, op Op, extra *[]any) error {
		md := ccv.HandshakeMetadata{ProviderFeePoolAddr: "cosmos1ap0mh6xzfn8943urr84q6ae7zfnar48am2erhd", Version: op.s("md")}
		bz, _ := (&md).Marshal()
		if op.s("md") == "garbage" {
			bz = []byte{0xff, 0xff, 0x01}
		}
		_, known := c.w.chk.rec(c.w.ctx, ccv.ConsumerPortID, op.s("ch"))
		tch := c.w.ck.TransferChannelExists(c.w.ctx, c.w.ck.GetDistributionTransmissionChannel(c.w.ctx))
		*extra = append(*extra, "known", b2i(known), "tch", b2i(tch))
		return c.w.atomically(func(ctx sdk.Context) error {
			return c.w.mod.OnChanOpenAck(ctx, ccv.ConsumerPortID, op.s("ch"), "channel-9", string(bz))
		})
	}
	// cchanclose ch=   (core IBC marks the channel CLOSED: ChanCloseConfirm from the provider side)
	extraConsOps["cchanclose"] = func(c *consRunner, op Op, extra *[]any) error {
		r, ok := c.w.chk.rec(c.w.ctx, ccv.ConsumerPortID, op.s("ch"))
		if !ok {
			return fmt.Errorf("no channel")
		}
		r.State = int(channeltypes.CLOSED)
		c.w.chk.setRec(c.w.ctx, ccv.ConsumerPortID, op.s("ch"), r)
		return nil
	}
	// ccloseinit ch=
	extraConsOps["ccloseinit"] = func(c *consRunner, op Op, extra *[]any) error {
		return c.w.atomically(func(ctx sdk.Context) error { return c.w.mod.OnChanCloseInit(ctx, ccv.ConsumerPortID, op.s("ch")) })
	}
}

// handshake attempts of the consumer stream
func genConsHandshake(r *Rng, c *consRunner) string {
	switch r.intn(10) {
	case 0:
		return fmt.Sprintf("cmkconn conn=connection-%d client=%s", r.intn(3), []string{"07-tendermint-0", "07-tendermint-0", "07-tendermint-1", "09-localhost"}[r.intn(4)])
	case 1:
		return fmt.Sprintf("cchantry ch=channel-%d", 20+r.intn(3))
	case 2:
		return fmt.Sprintf("cchanconfirm ch=channel-%d", 20+r.intn(3))
	case 3, 4:
		return fmt.Sprintf("cchanack ch=channel-%d md=%s", 20+r.intn(3), []string{"1", "1", "1", "2", "", "garbage"}[r.intn(6)])
	case 5:
		return fmt.Sprintf("ccloseinit ch=%s", []string{"channel-0", "channel-5", "channel-20", "channel-21"}[r.intn(4)])
	}
	order, port, cport, ver := "ORDERED", "consumer", "provider", "1"
	hops := fmt.Sprintf("connection-%d", r.intn(3))
	switch r.intn(12) {
	case 0:
		order = "UNORDERED"
	case 1:
		port = "transfer"
	case 2:
		cport = "consumer"
	case 3:
		ver = []string{"2", "", "__", "1_", "11"}[r.intn(5)]
	case 4:
		hops = hops + "," + hops
	case 5:
		hops = "connection-404"
	case 6:
		hops = ""
	}
	return fmt.Sprintf("cchaninit ch=channel-%d order=%s port=%s cport=%s ver=%s hops=%s", 20+r.intn(3), order, port, cport, ver, hops)
}
