package main

import (
	ibctm "github.com/cosmos/ibc-go/v10/modules/light-clients/07-tendermint"
	"bytes"
	"crypto/sha256"
	"encoding/hex"
	"fmt"
	"sort"
	"strings"
	"time"

	dbm "github.com/cosmos/cosmos-db"

	"cosmossdk.io/log"
	"cosmossdk.io/store"
	"cosmossdk.io/store/metrics"
	storetypes "cosmossdk.io/store/types"

	"github.com/cosmos/cosmos-sdk/codec"
	"github.com/cosmos/cosmos-sdk/codec/address"
	codectypes "github.com/cosmos/cosmos-sdk/codec/types"
	cryptocodec "github.com/cosmos/cosmos-sdk/crypto/codec"
	sdk "github.com/cosmos/cosmos-sdk/types"
	authtypes "github.com/cosmos/cosmos-sdk/x/auth/types"
	govkeeper "github.com/cosmos/cosmos-sdk/x/gov/keeper"
	govtypes "github.com/cosmos/cosmos-sdk/x/gov/types"
	paramstypes "github.com/cosmos/cosmos-sdk/x/params/types"
	stakingtypes "github.com/cosmos/cosmos-sdk/x/staking/types"

	tmproto "github.com/cometbft/cometbft/proto/tendermint/types"

	"github.com/cosmos/interchain-security/v7/x/ccv/provider"
	providerkeeper "github.com/cosmos/interchain-security/v7/x/ccv/provider/keeper"
	providertypes "github.com/cosmos/interchain-security/v7/x/ccv/provider/types"
)

const nPool = 96 // identities: 0..31 validators (provider keys), 32..95 consumer keys

var t0 = time.Date(2025, 1, 1, 0, 0, 0, 0, time.UTC)

type World struct {
	ms     storetypes.CommitMultiStore
	pkey   *storetypes.KVStoreKey
	envKey *storetypes.KVStoreKey
	ibcKey *storetypes.KVStoreKey
	ctx    sdk.Context
	pk     providerkeeper.Keeper
	msg    providertypes.MsgServer
	mod    provider.AppModule
	env    *Env
	pool   *Pool
	stk    *StakingK
	slk    *SlashingK
	chk    *ChanK
	cdc    *codec.ProtoCodec
	gov    string
	users  []string
}

var sharedPool *Pool

func NewWorld() *World {
	if sharedPool == nil {
		sharedPool = NewPool(nPool)
	}
	w := &World{pool: sharedPool}
	w.pkey = storetypes.NewKVStoreKey(providertypes.StoreKey)
	w.envKey = storetypes.NewKVStoreKey("env")
	parKey := storetypes.NewKVStoreKey(paramstypes.StoreKey)
	parTKey := storetypes.NewTransientStoreKey(paramstypes.TStoreKey)
	db := dbm.NewMemDB()
	ms := store.NewCommitMultiStore(db, log.NewNopLogger(), metrics.NewNoOpMetrics())
	ms.MountStoreWithDB(w.pkey, storetypes.StoreTypeIAVL, nil)
	ms.MountStoreWithDB(w.envKey, storetypes.StoreTypeIAVL, nil)
	w.ibcKey = storetypes.NewKVStoreKey("ibc")
	ms.MountStoreWithDB(w.ibcKey, storetypes.StoreTypeIAVL, nil)
	ms.MountStoreWithDB(parKey, storetypes.StoreTypeIAVL, nil)
	ms.MountStoreWithDB(parTKey, storetypes.StoreTypeTransient, nil)
	if err := ms.LoadLatestVersion(); err != nil {
		panic(err)
	}
	w.ms = ms
	registry := codectypes.NewInterfaceRegistry()
	cryptocodec.RegisterInterfaces(registry)
	providertypes.RegisterInterfaces(registry)
	ibctm.RegisterInterfaces(registry)
	w.cdc = codec.NewProtoCodec(registry)
	sub := paramstypes.NewSubspace(w.cdc, codec.NewLegacyAmino(), parKey, parTKey, providertypes.ModuleName)
	w.env = &Env{key: w.envKey, pool: w.pool, fail: map[string]int{}, clientKey: w.ibcKey}
	w.stk = &StakingK{w.env}
	w.slk = &SlashingK{w.env}
	w.chk = &ChanK{w.env}
	w.gov = authtypes.NewModuleAddress(govtypes.ModuleName).String()
	w.pk = providerkeeper.NewKeeper(w.cdc, w.pkey, sub,
		w.chk, &ConnK{w.env}, &ClientK{w.env}, w.stk, w.slk, &AccountK{w.env}, &DistrK{w.env}, &BankK{w.env},
		govkeeper.Keeper{}, w.gov,
		address.NewBech32Codec("cosmosvaloper"), address.NewBech32Codec("cosmosvalcons"),
		authtypes.FeeCollectorName)
	w.msg = providerkeeper.NewMsgServerImpl(&w.pk)
	w.mod = provider.NewAppModule(&w.pk, sub, w.pkey)
	w.ctx = sdk.NewContext(ms, tmproto.Header{ChainID: "provider-1", Height: 1, Time: t0}, false, log.NewNopLogger())
	for i := 0; i < 6; i++ {
		w.users = append(w.users, sdk.AccAddress(fmt.Sprintf("user%016d", i)).String())
	}
	// provider genesis
	gs := providertypes.DefaultGenesisState()
	w.stk.setParams(w.ctx, StakingParams{MaxValidators: 100, UnbondingNs: int64(1814400 * time.Second), NVals: 0})
	w.pk.InitGenesis(w.ctx, gs)
	return w
}

// user name -> address: "gov" or "u<i>"
func (w *World) user(name string) string {
	if name == "gov" {
		return w.gov
	}
	var i int
	fmt.Sscanf(name, "u%d", &i)
	return w.users[i%len(w.users)]
}

func (w *World) userName(addr string) string {
	if addr == w.gov {
		return "gov"
	}
	for i, u := range w.users {
		if u == addr {
			return fmt.Sprintf("u%d", i)
		}
	}
	return "?"
}

// run f in a cache context; keep the writes only when f returns nil (and does not panic)
func (w *World) atomically(f func(ctx sdk.Context) error) (err error) {
	cctx, write := w.ctx.CacheContext()
	defer func() {
		if r := recover(); r != nil {
			err = fmt.Errorf("panic: %v", r)
		}
	}()
	err = f(cctx)
	if err == nil {
		write()
	}
	return err
}

func (w *World) advance(dh int64, dt time.Duration) {
	h := w.ctx.BlockHeader()
	h.Height += dh
	h.Time = h.Time.Add(dt)
	w.ctx = w.ctx.WithBlockHeader(h)
}

func (w *World) nowNs() int64 { return w.ctx.BlockTime().UnixNano() - t0.UnixNano() }

// ---------------------------------------------------------------------------------------------
// staking scripting helpers

func (w *World) addValidator(id int, tokens int64) {
	r := ValRec{ID: id, Tokens: tokens, Status: int(stakingtypes.Unbonded), InIndex: true}
	w.stk.setRec(w.ctx, r)
	p := w.stk.params(w.ctx)
	if id >= p.NVals {
		p.NVals = id + 1
		w.stk.setParams(w.ctx, p)
	}
}

// ---------------------------------------------------------------------------------------------
// raw store dumps

func (w *World) dumpStore(ctx sdk.Context) map[string]string {
	out := map[string]string{}
	it := ctx.KVStore(w.pkey).Iterator(nil, nil)
	defer it.Close()
	for ; it.Valid(); it.Next() {
		out[hex.EncodeToString(it.Key())] = hex.EncodeToString(it.Value())
	}
	return out
}

func diffKeys(a, b map[string]string) []string {
	set := map[string]bool{}
	for k, v := range a {
		if bv, ok := b[k]; !ok || bv != v {
			set[k] = true
		}
	}
	for k := range b {
		if _, ok := a[k]; !ok {
			set[k] = true
		}
	}
	var out []string
	for k := range set {
		out = append(out, k)
	}
	sort.Strings(out)
	return out
}

func (w *World) storeHash() string {
	var b bytes.Buffer
	it := w.ctx.KVStore(w.pkey).Iterator(nil, nil)
	defer it.Close()
	for ; it.Valid(); it.Next() {
		b.Write(it.Key())
		b.WriteByte(0)
		b.Write(it.Value())
		b.WriteByte(1)
	}
	h := sha256.Sum256(b.Bytes())
	return hex.EncodeToString(h[:8])
}

func joinInts(xs []int64) string {
	s := make([]string, len(xs))
	for i, x := range xs {
		s[i] = fmt.Sprint(x)
	}
	return strings.Join(s, ",")
}
