package main

// consumer side of the reward distribution (C16): the real EndBlockRD on scripted bank, account and
// ICS-20 keepers.  Fees are minted into the fee collector; the ICS-20 keeper escrows what is sent;
// a refund (time-out / error acknowledgement of the transfer, handled by ibc-go) moves escrowed
// tokens back to the sender account.

import (
	"fmt"
	"strings"

	channeltypes "github.com/cosmos/ibc-go/v10/modules/core/04-channel/types"

	authtypes "github.com/cosmos/cosmos-sdk/x/auth/types"

	consumertypes "github.com/cosmos/interchain-security/v7/x/ccv/consumer/types"
)

func modAddr(name string) string { return authtypes.NewModuleAddress(name).String() }

func snapshotConsRewards(w *CWorld, m map[string]string) {
	b := &BankK{w.env}
	m["fc"] = fmtBal(b.bal(w.ctx, modAddr(authtypes.FeeCollectorName)))
	m["redis"] = fmtBal(b.bal(w.ctx, modAddr(consumertypes.ConsumerRedistributeName)))
	m["tosend"] = fmtBal(b.bal(w.ctx, modAddr(consumertypes.ConsumerToSendToProviderName)))
	m["escrow"] = fmtBal(b.bal(w.ctx, "escrow"))
	m["ltbh"] = fmt.Sprint(w.ck.GetLastTransmissionBlockHeight(w.ctx).Height)
	m["tchopen"] = "0"
	if r, ok := w.chk.rec(w.ctx, "transfer", w.ck.GetDistributionTransmissionChannel(w.ctx)); ok && r.State == int(channeltypes.OPEN) {
		m["tchopen"] = "1"
	}
}

func init() {
	// cfees denom= amt=    (fees collected during the block)
	extraConsOps["cfees"] = func(c *consRunner, op Op, extra *[]any) error {
		b := &BankK{c.w.env}
		m := b.bal(c.w.ctx, modAddr(authtypes.FeeCollectorName))
		m[op.s("denom")] += op.i("amt")
		b.setBal(c.w.ctx, modAddr(authtypes.FeeCollectorName), m)
		return nil
	}
	// ctch ch= state=3|4|0   (the ICS-20 channel as core IBC holds it; 0 = delete)
	extraConsOps["ctch"] = func(c *consRunner, op Op, extra *[]any) error {
		if op.i("state") == 0 {
			c.w.env.store(c.w.ctx).Delete([]byte("chan/transfer/" + op.s("ch")))
			return nil
		}
		c.w.chk.setRec(c.w.ctx, "transfer", op.s("ch"), ChanRec{State: int(op.i("state")), Hops: []string{"connection-0"}, Port: "transfer", CpPort: "transfer", CpChan: "channel-1", Version: "ics20-1", NextSeq: 1})
		return nil
	}
	// crefund denom= amt=   (ibc-go refunds a timed-out / failed transfer to the sender account)
	extraConsOps["crefund"] = func(c *consRunner, op Op, extra *[]any) error {
		b := &BankK{c.w.env}
		em := b.bal(c.w.ctx, "escrow")
		if em[op.s("denom")] < op.i("amt") {
			return fmt.Errorf("nothing to refund")
		}
		em[op.s("denom")] -= op.i("amt")
		b.setBal(c.w.ctx, "escrow", em)
		tm := b.bal(c.w.ctx, modAddr(consumertypes.ConsumerToSendToProviderName))
		tm[op.s("denom")] += op.i("amt")
		b.setBal(c.w.ctx, modAddr(consumertypes.ConsumerToSendToProviderName), tm)
		return nil
	}

	streams["crewards"] = StreamDef{
		New: func(t *Trace) Runner { return &consRunner{t: t} },
		Gen: func(r *Rng, run Runner, n int, tier string) {
			c := run.(*consRunner)
			if sharedPool == nil {
				sharedPool = NewPool(nPool)
			}
			ko := sharedPool.keyOrder()
			s := make([]string, len(ko))
			for i, k := range ko {
				s[i] = fmt.Sprint(k)
			}
			run.Do("keyorder order=" + strings.Join(s, ","))
			fracs := []string{"0.750000000000000000", "0.000000000000000000", "1.000000000000000000", "0.333333333333333333", "0.100000000000000000", "0.999999999999999999"}
			denomSets := []string{"stake", "stake+photon", "", "photon+mote", "stake+stake"}
			cinit := func() {
				run.Do(opLine("cinit", "retry", 5*sec, "initial", fmtPairs(genSet(r, 8, 6, 0)),
					"frac", fracs[r.intn(len(fracs))], "bpdt", []int64{1, 2, 3, 5, 10}[r.intn(5)],
					"denoms", denomSets[r.intn(len(denomSets))], "tch", "channel-2"))
				if r.chance(80) {
					run.Do("ctch ch=channel-2 state=3")
				}
			}
			cinit()
			for i := 0; i < n; i++ {
				switch pickWeighted(r, []int{40, 36, 6, 8, 6, 1}) {
				case 0:
					s := "cend"
					if r.chance(6) {
						s += fmt.Sprintf(" tfail=%d", 1+r.intn(2))
					}
					run.Do(s)
					run.Do(opLine("cbegin", "dh", 1, "dt", sec))
				case 1:
					amt := []int64{1, 2, 3, 4, 7, 10, 99, 100, 1000, 12345, 1000003}[r.intn(11)] + r.i64n(3)
					run.Do(opLine("cfees", "denom", rewardDenoms[r.intn(3)], "amt", amt))
				case 2:
					run.Do(opLine("ctch", "ch", "channel-2", "state", []int{3, 3, 4, 0, 2}[r.intn(5)]))
				case 3:
					// refund part or all of what is escrowed in one denom
					d := rewardDenoms[r.intn(3)]
					var have int64
					for _, kv := range splitNE(c.prev["escrow"]) {
						if strings.HasPrefix(kv, d+":") {
							fmt.Sscan(strings.TrimPrefix(kv, d+":"), &have)
						}
					}
					if have == 0 {
						continue
					}
					amt := have
					if r.chance(50) {
						amt = 1 + r.i64n(have)
					}
					run.Do(opLine("crefund", "denom", d, "amt", amt))
				case 4:
					run.Do(opLine("crecvvsc", "id", 1+i, "upd", fmtPairs(genUpdates(r, 8, 5))))
				default:
					if r.chance(30) {
						cinit()
					}
				}
			}
		},
	}
}
