package main

// light-client-attack evidence (C07): two REAL conflicting signed headers, checked by the REAL
// 07-tendermint light client module against a REAL client store (client state + trusted consensus
// state written by the harness), then by the provider's GetByzantineValidators and punishment loop.

import (
	"bytes"
	"fmt"
	"sort"
	"strings"
	"time"

	clienttypes "github.com/cosmos/ibc-go/v10/modules/core/02-client/types"
	commitmenttypes "github.com/cosmos/ibc-go/v10/modules/core/23-commitment/types"
	host "github.com/cosmos/ibc-go/v10/modules/core/24-host"
	ibctmtypes "github.com/cosmos/ibc-go/v10/modules/light-clients/07-tendermint"

	sdk "github.com/cosmos/cosmos-sdk/types"

	"github.com/cometbft/cometbft/crypto/tmhash"
	tmproto "github.com/cometbft/cometbft/proto/tendermint/types"
	cmtversion "github.com/cometbft/cometbft/proto/tendermint/version"
	tmtypes "github.com/cometbft/cometbft/types"
	"github.com/cometbft/cometbft/version"

	testcrypto "github.com/cosmos/interchain-security/v7/testutil/crypto"
	providertypes "github.com/cosmos/interchain-security/v7/x/ccv/provider/types"
)

// header spec: chain/height/round/state/data/flags   flags: one letter per validator of `vals`, in the
// order given there: c commit, a absent, n nil vote, b commit with a tampered signature,
// w commit signed by the wrong key (the next identity)
type hdrSpec struct {
	chain              string
	height             int64
	round              int32
	state, data        int
	flags              string
}

func parseHdrSpec(s string) hdrSpec {
	f := strings.Split(s, "/")
	var h hdrSpec
	if len(f) != 6 {
		return h
	}
	h.chain = f[0]
	fmt.Sscan(f[1], &h.height)
	fmt.Sscan(f[2], &h.round)
	fmt.Sscan(f[3], &h.state)
	fmt.Sscan(f[4], &h.data)
	h.flags = f[5]
	return h
}

// builds the signed header; keys[i] / powers[i] in the order of the op line
func (p *Pool) mkIBCHeader(hs hdrSpec, keys []int64, powers []int64, trusted *tmtypes.ValidatorSet, trustedHeight clienttypes.Height, ts time.Time) (*ibctmtypes.Header, []int64) {
	var vals []*tmtypes.Validator
	for i, k := range keys {
		vals = append(vals, p.ids[k].ci.TMValidator(powers[i]))
	}
	vs := tmtypes.NewValidatorSet(vals)
	flagOf := map[string]byte{}
	keyOf := map[string]int64{}
	for i, k := range keys {
		a := string(p.ids[k].ci.TMCryptoPubKey().Address())
		flagOf[a] = hs.flags[i]
		keyOf[a] = k
	}
	th := tmtypes.Header{
		Version: cmtversion.Consensus{Block: version.BlockProtocol, App: 2},
		ChainID: hs.chain, Height: hs.height, Time: ts,
		LastBlockID:        testcrypto.MakeBlockID(make([]byte, tmhash.Size), 10_000, make([]byte, tmhash.Size)),
		LastCommitHash:     tmhash.Sum([]byte("last_commit")),
		DataHash:           tmhash.Sum([]byte(fmt.Sprintf("data_hash_%d", hs.data))),
		ValidatorsHash:     vs.Hash(),
		NextValidatorsHash: vs.Hash(),
		ConsensusHash:      tmhash.Sum([]byte("consensus_hash")),
		AppHash:            tmhash.Sum([]byte(fmt.Sprintf("app_hash_%d", hs.state))),
		LastResultsHash:    tmhash.Sum([]byte("last_results_hash")),
		EvidenceHash:       tmhash.Sum([]byte("evidence_hash")),
		ProposerAddress:    vs.Proposer.Address,
	}
	blockID := testcrypto.MakeBlockID(th.Hash(), 3, tmhash.Sum([]byte("part_set")))
	commit := &tmtypes.Commit{Height: hs.height, Round: hs.round, BlockID: blockID}
	var order []int64
	for _, v := range vs.Validators {
		a := string(v.Address)
		order = append(order, keyOf[a])
		switch flagOf[a] {
		case 'a':
			commit.Signatures = append(commit.Signatures, tmtypes.NewCommitSigAbsent())
		case 'n':
			commit.Signatures = append(commit.Signatures, tmtypes.CommitSig{BlockIDFlag: tmtypes.BlockIDFlagNil, ValidatorAddress: v.Address, Timestamp: ts})
		default:
			commit.Signatures = append(commit.Signatures, tmtypes.CommitSig{BlockIDFlag: tmtypes.BlockIDFlagCommit, ValidatorAddress: v.Address, Timestamp: ts})
		}
	}
	for i, v := range vs.Validators {
		a := string(v.Address)
		fl := flagOf[a]
		if fl == 'a' {
			continue
		}
		signer := keyOf[a]
		if fl == 'w' {
			signer = (signer + 1) % int64(len(p.ids))
		}
		sig, err := p.privKey(int(signer)).Sign(commit.VoteSignBytes(hs.chain, int32(i)))
		if err != nil {
			panic(err)
		}
		if fl == 'b' {
			sig[7] ^= 0x10
		}
		commit.Signatures[i].Signature = sig
	}
	vsp, err := vs.ToProto()
	if err != nil {
		panic(err)
	}
	tvp, err := trusted.ToProto()
	if err != nil {
		panic(err)
	}
	thp := th.ToProto()
	return &ibctmtypes.Header{
		SignedHeader:      &tmproto.SignedHeader{Header: thp, Commit: commit.ToProto()},
		ValidatorSet:      vsp,
		TrustedHeight:     trustedHeight,
		TrustedValidators: tvp,
	}, order
}

func fmtInt64s(l []int64) string {
	s := make([]string, len(l))
	for i, x := range l {
		s[i] = fmt.Sprint(x)
	}
	return strings.Join(s, ",")
}

func init() {
	// misb c=<consumer> client=<client id | own> vals=<key:power,...> h1=<hdr spec> h2=<hdr spec>
	//      th=<trusted height> tvals=<key:power,... | same> trusted=1|0 age=<ns of the trusted consensus state> cchain=<chain id of the client state | own>
	extraOps["misb"] = func(p *provRunner, op Op, extra *[]any) error {
		w := p.w
		own, hasClient := w.pk.GetConsumerClientId(w.ctx, op.s("c"))
		clientID := op.s("client")
		if clientID == "own" {
			clientID = own
			if !hasClient {
				clientID = "07-tendermint-9999"
			}
		}
		pairs := op.pairs("vals")
		var keys, powers []int64
		for _, kv := range pairs {
			keys = append(keys, kv.a)
			powers = append(powers, kv.b)
		}
		// a validator set with a repeated key cannot be built at all (CometBFT panics): reject the op line
		dup := func(l []pair) bool {
			seen := map[int64]bool{}
			for _, kv := range l {
				if seen[kv.a] || kv.b <= 0 {
					return true
				}
				seen[kv.a] = true
			}
			return len(l) == 0
		}
		if dup(pairs) || (op.has("vals2") && dup(op.pairs("vals2"))) || (op.s("tvals") != "same" && dup(op.pairs("tvals"))) ||
			len(strings.Split(op.s("h1"), "/")) != 6 || len(strings.Split(op.s("h2"), "/")) != 6 ||
			len(parseHdrSpec(op.s("h1")).flags) != len(pairs) ||
			(op.has("vals2") && len(parseHdrSpec(op.s("h2")).flags) != len(op.pairs("vals2"))) ||
			(!op.has("vals2") && len(parseHdrSpec(op.s("h2")).flags) != len(pairs)) {
			*extra = append(*extra, "stage", "badop")
			return fmt.Errorf("bad op line")
		}
		tkeys, tpowers := keys, powers
		if op.s("tvals") != "same" {
			tkeys, tpowers = nil, nil
			for _, kv := range op.pairs("tvals") {
				tkeys = append(tkeys, kv.a)
				tpowers = append(tpowers, kv.b)
			}
		}
		var tv []*tmtypes.Validator
		for i, k := range tkeys {
			tv = append(tv, w.pool.ids[k].ci.TMValidator(tpowers[i]))
		}
		trusted := tmtypes.NewValidatorSet(tv)
		h1s, h2s := parseHdrSpec(op.s("h1")), parseHdrSpec(op.s("h2"))
		trev := clienttypes.ParseChainID(h1s.chain)
		trustedHeight := clienttypes.NewHeight(trev, uint64(op.i("th")))
		now := w.ctx.BlockTime()
		hts := now.Add(-time.Minute)
		hdr1, order1 := w.pool.mkIBCHeader(h1s, keys, powers, trusted, trustedHeight, hts)
		keys2, powers2 := keys, powers
		if op.has("vals2") {
			// header 2 has its own validator set (other members, powers and hence another order)
			keys2, powers2 = nil, nil
			for _, kv := range op.pairs("vals2") {
				keys2 = append(keys2, kv.a)
				powers2 = append(powers2, kv.b)
			}
		}
		hdr2, order2 := w.pool.mkIBCHeader(h2s, keys2, powers2, trusted, clienttypes.NewHeight(clienttypes.ParseChainID(h2s.chain), uint64(op.i("th"))), hts)
		*extra = append(*extra, "order1", fmtInt64s(order1), "order2", fmtInt64s(order2))
		var torder []int64
		for _, v := range trusted.Validators {
			for _, k := range tkeys {
				if bytes.Equal(w.pool.ids[k].ci.TMCryptoPubKey().Address(), v.Address) {
					torder = append(torder, k)
				}
			}
		}
		_ = sort.Ints
		*extra = append(*extra, "torder", fmtInt64s(torder))
		// the client store of the consumer's own client as core IBC would hold it
		if hasClient {
			var rec ClientRec
			w.env.get(w.ctx, "client/"+own, &rec)
			cchain := rec.ChainID
			if op.s("cchain") != "own" && op.s("cchain") != "" {
				cchain = op.s("cchain")
			}
			*extra = append(*extra, "cchain", cchain)
			cs := ibctmtypes.NewClientState(cchain, ibctmtypes.DefaultTrustLevel, time.Hour*24*14, time.Hour*24*21, time.Second*10,
				clienttypes.NewHeight(clienttypes.ParseChainID(cchain), 1000), commitmenttypes.GetSDKSpecs(), []string{"upgrade", "upgradedIBCState"})
			store := (&ClientK{w.env}).GetStoreProvider().ClientStore(w.ctx, own)
			store.Set(host.ClientStateKey(), clienttypes.MustMarshalClientState(w.cdc, cs))
			nvh := trusted.Hash()
			if op.i("trusted") == 0 {
				nvh = tmhash.Sum([]byte("some other validator set"))
			}
			cons := ibctmtypes.NewConsensusState(now.Add(-time.Duration(op.i("age"))), commitmenttypes.NewMerkleRoot([]byte("apphash")), nvh)
			store.Set(host.ConsensusStateKey(trustedHeight), clienttypes.MustMarshalConsensusState(w.cdc, cons))
		}
		mb := &ibctmtypes.Misbehaviour{ClientId: clientID, Header1: hdr1, Header2: hdr2}
		msg := &providertypes.MsgSubmitConsumerMisbehaviour{Submitter: w.user("u2"), Misbehaviour: mb, ConsumerId: op.s("c")}
		if e := msg.ValidateBasic(); e != nil {
			*extra = append(*extra, "stage", "basic")
			if debugWhy {
				*extra = append(*extra, "why", strings.NewReplacer(" ", "_", "\n", "").Replace(e.Error()))
			}
			return e
		}
		*extra = append(*extra, "stage", "handler")
		e := w.atomically(func(ctx sdk.Context) error {
			_, e := w.msg.SubmitConsumerMisbehaviour(ctx, msg)
			return e
		})
		if e != nil && debugWhy {
			m := e.Error()
			if len(m) > 90 {
				m = m[:90]
			}
			*extra = append(*extra, "why", strings.NewReplacer(" ", "_", "\n", "").Replace(m))
		}
		return e
	}
}
