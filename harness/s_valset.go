package main

// stream "valset": DiffValidators, AccumulateChanges (pure) and ApplyCCValidatorChanges on a real
// consumer keeper (C01 algebra, C15, C18)

import (
	"strings"

	providerkeeper "github.com/cosmos/interchain-security/v7/x/ccv/provider/keeper"
	providertypes "github.com/cosmos/interchain-security/v7/x/ccv/provider/types"
	ccv "github.com/cosmos/interchain-security/v7/x/ccv/types"
)

type valsetRunner struct {
	t    *Trace
	pool *Pool
	cw   *CWorld
}

func (p *Pool) mkConsVals(ps []pair) []providertypes.ConsensusValidator {
	out := make([]providertypes.ConsensusValidator, len(ps))
	for i, pr := range ps {
		pk := p.ids[pr.a].ci.TMProtoCryptoPublicKey()
		// provider address irrelevant for DiffValidators; use index
		out[i] = providertypes.ConsensusValidator{ProviderConsAddr: p.ids[i%len(p.ids)].consAddr, Power: pr.b, PublicKey: &pk}
	}
	return out
}

func (v *valsetRunner) Do(line string) {
	op := parseOp(line)
	v.t.op(line)
	switch op.name {
	case "keyorder":
		// no-op on the implementation: tells the model the order of PublicKey.String()
	case "diff":
		upd := providerkeeper.DiffValidators(v.pool.mkConsVals(op.pairs("cur")), v.pool.mkConsVals(op.pairs("next")))
		v.t.obs("diff", "upd", v.pool.fmtUpdates(upd))
	case "accum":
		out := ccv.AccumulateChanges(v.pool.mkUpdates(op.pairs("cur")), v.pool.mkUpdates(op.pairs("new")))
		// replicas (C18): the same call again and again must give the same ORDERED result
		det := 1
		for i := 0; i < 12; i++ {
			if again := ccv.AccumulateChanges(v.pool.mkUpdates(op.pairs("cur")), v.pool.mkUpdates(op.pairs("new"))); v.pool.fmtUpdates(again) != v.pool.fmtUpdates(out) {
				det = 0
			}
		}
		v.t.obs("accum", "out", v.pool.fmtUpdates(out), "det", det)
	case "cinit":
		v.cw = NewCWorld("consumer-1")
		ret := v.cw.initGenesisNew(v.pool.mkUpdates(op.pairs("initial")), nil)
		v.t.obs("cinit", "ret", v.pool.fmtUpdates(ret), "cc", v.cw.ccSet())
	case "applycc":
		ret := v.cw.ck.ApplyCCValidatorChanges(v.cw.ctx, v.pool.mkUpdates(op.pairs("changes")))
		v.t.obs("applycc", "ret", v.pool.fmtUpdates(ret), "cc", v.cw.ccSet())
	}
}

func genSet(r *Rng, maxKeys, maxN int, zeroPct int) []pair {
	n := r.intn(maxN + 1)
	perm := make([]int, maxKeys)
	for i := range perm {
		perm[i] = i
	}
	for i := range perm {
		j := i + r.intn(len(perm)-i)
		perm[i], perm[j] = perm[j], perm[i]
	}
	if n > maxKeys {
		n = maxKeys
	}
	out := make([]pair, n)
	for i := 0; i < n; i++ {
		p := int64(1 + r.intn(5))
		if r.chance(30) {
			p = 1 + r.i64n(1000000)
		}
		if r.chance(zeroPct) {
			p = 0
		}
		out[i] = pair{int64(perm[i]), p}
	}
	return out
}

// an update list with possibly repeated keys
func genUpdates(r *Rng, maxKeys, maxN int) []pair {
	n := r.intn(maxN + 1)
	out := make([]pair, n)
	for i := range out {
		p := int64(r.intn(4))
		if r.chance(25) {
			p = r.i64n(1000)
		}
		out[i] = pair{int64(r.intn(maxKeys)), p}
	}
	return out
}

func init() {
	streams["valset"] = StreamDef{
		New: func(t *Trace) Runner {
			if sharedPool == nil {
				sharedPool = NewPool(nPool)
			}
			return &valsetRunner{t: t, pool: sharedPool}
		},
		Gen: func(r *Rng, run Runner, n int, tier string) {
			v := run.(*valsetRunner)
			ko := v.pool.keyOrder()
			s := make([]string, len(ko))
			for i, k := range ko {
				s[i] = itoa(k)
			}
			run.Do("keyorder order=" + strings.Join(s, ","))
			for c := 0; c < n; c++ {
				mk := 4 + r.intn(20)
				switch r.intn(4) {
				case 0:
					run.Do(opLine("diff", "cur", fmtPairs(genSet(r, mk, 14, 0)), "next", fmtPairs(genSet(r, mk, 14, 0))))
				case 1:
					run.Do(opLine("accum", "cur", fmtPairs(genSet(r, mk, 14, 25)), "new", fmtPairs(genUpdates(r, mk, 14))))
				case 2:
					if v.cw == nil || r.chance(10) {
						run.Do(opLine("cinit", "initial", fmtPairs(genSet(r, mk, 10, 0))))
					} else {
						run.Do(opLine("applycc", "changes", fmtPairs(genUpdates(r, mk, 10))))
					}
				default:
					if v.cw == nil {
						run.Do(opLine("cinit", "initial", fmtPairs(genSet(r, mk, 10, 0))))
					} else {
						run.Do(opLine("applycc", "changes", fmtPairs(genSet(r, mk, 12, 30))))
					}
				}
			}
		},
	}
}
