package main

// generators for the provider-world streams; every choice derives from the one Rng; numeric
// arguments are biased to the boundaries read from the implementation's current state.

import (
	"bytes"
	"fmt"
	"sort"
	"strconv"
	"strings"
)

type provProfile struct {
	name                                                                   string
	nv                                                                     int   // validators
	maxvals, M, epoch                                                      int64 // staking max, provider M, blocks per epoch
	unb                                                                    int64 // unbonding ns
	wCreate, wUpdate, wRemove, wOpt, wAssign, wStake, wBlock, wChan, wSlash, wMisc, wParams int
	withKeys                                                               bool
	conns                                                                  int
	topn                                                                   bool
	lowPower                                                               bool // powers 1..3: many ties
	wVal                                                                   int  // validator creation / removal
	revisions                                                              bool // chain ids / initial heights with revision 1 or 2
	faults                                                                 bool // inject failures of external calls before blocks
	prelaunch                                                              int  // consumers created, opted into and launched before the random part
	wInfr                                                                  int  // infraction-parameter updates of launched consumers
	wReward                                                                int  // ICS reward transfers, denom registration, tax
	wEvid                                                                  int  // equivocation evidence (signed duplicate votes)
	wRelay                                                                 int  // two-chain: relay packets to the attached consumer / consumer blocks
	rewEpochs                                                              int
	keyPool                                                                int  // number of extra consumer keys (default 10)
	nvExtra                                                                int  // validator ids that may be created later
	replenish                                                              int64
	frac                                                                   string
}

const sec = int64(1000000000)

func (p *provRunner) consumerIds() []string {
	n, _ := strconv.Atoi(p.prevG["nextid"])
	out := make([]string, n)
	for i := range out {
		out[i] = strconv.Itoa(i)
	}
	return out
}

// interesting absolute times (ns offsets): every pending deadline in the implementation's state
func (p *provRunner) deadlines() []int64 {
	var out []int64
	add := func(q string) {
		for _, e := range splitNE(q) {
			if i := strings.IndexByte(e, ':'); i > 0 {
				if v, err := strconv.ParseInt(e[:i], 10, 64); err == nil {
					out = append(out, v)
				}
			}
		}
	}
	if c, err := strconv.ParseInt(p.prevG["cand"], 10, 64); err == nil && c < 1000*sec {
		out = append(out, c)
	}
	for id, t := range p.firstDue {
		if p.prev[id]["phase"] == "4" {
			out = append(out, t)
		}
	}
	sort.Slice(out, func(a, b int) bool { return out[a] < out[b] })
	add(p.prevG["spawnq"])
	add(p.prevG["removeq"])
	add(p.prevG["infrq"])
	for _, s := range p.prev {
		add(s["prune"])
	}
	return out
}

func (p *provRunner) unjailedCount() int {
	n := 0
	for _, e := range splitNE(p.prevG["stk"]) {
		f := strings.Split(e, ":")
		if len(f) >= 4 && f[3] == "0" && len(f[1]) >= 7 {
			n++
		}
	}
	return n
}

func (p *provRunner) now() int64 { v, _ := strconv.ParseInt(p.prevG["now"], 10, 64); return v }

func pickWeighted(r *Rng, ws []int) int {
	t := 0
	for _, w := range ws {
		t += w
	}
	if t == 0 {
		return 0
	}
	x := r.intn(t)
	for i, w := range ws {
		if x < w {
			return i
		}
		x -= w
	}
	return 0
}

func (p *provRunner) pickConsumer(r *Rng) string {
	ids := p.consumerIds()
	if len(ids) == 0 || r.chance(4) {
		return []string{"0", "7", "99", "01", "x"}[r.intn(5)]
	}
	return ids[r.intn(len(ids))]
}

func valSubset(r *Rng, nv int) string {
	if r.chance(60) {
		return ""
	}
	var out []string
	for i := 0; i < nv; i++ {
		if r.chance(35) {
			out = append(out, strconv.Itoa(i))
		}
	}
	return strings.Join(out, ",")
}

func (p *provRunner) genPS(r *Rng, prof provProfile, allowTopN bool) string {
	topn := 0
	if allowTopN && r.chance(40) {
		topn = []int{50, 51, 67, 80, 99, 100, 49, 101, 1}[r.intn(9)]
		if r.chance(70) {
			topn = 50 + r.intn(51)
		}
		// boundary values: the smallest whole percentage that a cumulative share of the current active
		// powers does NOT reach (and the one below it): rounding slips flip exactly there
		if ap := p.activePowers(); len(ap) > 1 && r.chance(60) {
			var total, cum int64
			for _, x := range ap {
				total += x
			}
			k := r.intn(len(ap))
			// prefer a position after which the power drops: only there does the cut-off validator matter
			var drops []int
			for i := 0; i+1 < len(ap); i++ {
				if ap[i] > ap[i+1] {
					drops = append(drops, i)
				}
			}
			if len(drops) > 0 && r.chance(80) {
				k = drops[r.intn(len(drops))]
			}
			for i := 0; i <= k; i++ {
				cum += ap[i]
			}
			if total > 0 {
				n := int((cum*100 + total - 1) / total) // ceil(100*cum/total)
				if r.chance(25) {
					n--
				}
				if n >= 50 && n <= 100 {
					topn = n
				}
			}
		}
	}
	setcap := 0
	if r.chance(40) {
		setcap = r.intn(prof.nv + 2)
	}
	powcap := 0
	if r.chance(35) {
		powcap = 1 + r.intn(100)
	}
	minstake := int64(0)
	if r.chance(25) {
		minstake = (1 + r.i64n(6)) * 1000000
	}
	return fmt.Sprintf(" ps=1 topn=%d setcap=%d powcap=%d minstake=%d inactive=%d allow=%s deny=%s prio=%s",
		topn, setcap, powcap, minstake, r.intn(2), valSubset(r, prof.nv), valSubset(r, prof.nv), valSubset(r, prof.nv))
}

func (p *provRunner) genSpawn(r *Rng) int64 {
	now := p.now()
	switch r.intn(7) {
	case 0:
		return 0
	case 1:
		return now - (1+r.i64n(5))*sec // past
	case 2:
		return now // exactly now
	case 3:
		return now + 1 + r.i64n(3)*sec
	case 4:
		// equal to another pending deadline (many consumers under one key)
		if d := p.deadlines(); len(d) > 0 {
			return d[r.intn(len(d))]
		}
		return now + 5*sec
	default:
		return now + (1+r.i64n(20))*sec
	}
}

func genInfr(r *Rng) string {
	if !r.chance(30) {
		return ""
	}
	fr := []string{"0.000000000000000000", "0.010000000000000000", "0.050000000000000000", "0.500000000000000000", "1.000000000000000000"}
	s := " infr=1"
	if r.chance(70) {
		s += fmt.Sprintf(" ds=%s:%d:%d", fr[r.intn(len(fr))], (1+r.i64n(100))*sec, r.intn(2))
	}
	if r.chance(70) {
		s += fmt.Sprintf(" dt=%s:%d", fr[r.intn(len(fr))], (1+r.i64n(100))*sec)
	}
	return s
}

func (p *provRunner) users(r *Rng) string {
	return []string{"u0", "u1", "u2", "gov"}[r.intn(4)]
}

func (p *provRunner) ownerOf(c string) string {
	if s, ok := p.prev[c]; ok && s["owner"] != "-" && s["owner"] != "?" {
		return s["owner"]
	}
	return "u0"
}

func (p *provRunner) genOne(r *Rng, prof provProfile) string {
	if len(p.script) > 0 {
		s := p.script[0]
		p.script = p.script[1:]
		return s
	}
	ws := []int{prof.wCreate, prof.wUpdate, prof.wRemove, prof.wOpt, prof.wAssign, prof.wStake, prof.wBlock, prof.wChan, prof.wSlash, prof.wMisc, prof.wParams, prof.wVal, prof.wInfr, prof.wReward, prof.wEvid, prof.wRelay}
	switch pickWeighted(r, ws) {
	case 0: // create
		if prof.conns > 0 && r.chance(45) {
			// directed: a consumer was launched on an existing connection and is now STOPPED (its client is
			// still bound to it until deletion): try to launch another consumer on that same connection now
			for _, id := range p.consumerIds() {
				c := p.prev[id]["conn"]
				if p.prev[id]["phase"] == "4" && strings.HasPrefix(c, "connection-90") {
					next := p.prevG["nextid"]
					p.script = append(p.script, fmt.Sprintf("optin v=%d c=%s key=- signer=%d", 0, next, 0), fmt.Sprintf("optin v=%d c=%s key=- signer=%d", 1, next, 1))
					return fmt.Sprintf("create s=%s chain=%s init=1 spawn=0 conn=%s ps=1 topn=0 setcap=0 powcap=0 minstake=0 inactive=1 allow= deny= prio=",
						p.users(r), p.prev[id]["chain"], c)
				}
			}
		}
		chain := fmt.Sprintf("c%d-1", r.intn(4))
		if prof.revisions && r.chance(30) {
			chain = fmt.Sprintf("c%d-%d", r.intn(4), 1+r.intn(2))
		}
		if r.chance(5) {
			chain = []string{"", "neutron-1", "nochainrev"}[r.intn(3)]
		}
		s := fmt.Sprintf("create s=%s chain=%s", p.users(r), chain)
		if r.chance(75) {
			s += fmt.Sprintf(" init=1 spawn=%d", p.genSpawn(r))
			if prof.revisions && r.chance(35) {
				s += fmt.Sprintf(" rev=%d", 1+r.intn(2))
			}
			if prof.conns > 0 && r.chance(35) {
				k := r.intn(prof.conns)
				// often the connection a STOPPED consumer was launched on (its client is still bound until deletion)
				for _, id := range p.consumerIds() {
					if c := p.prev[id]["conn"]; p.prev[id]["phase"] == "4" && strings.HasPrefix(c, "connection-90") && r.chance(50) {
						fmt.Sscanf(c, "connection-%d", &k)
						k -= 900
					}
				}
				s += fmt.Sprintf(" conn=connection-%d", 900+k)
				if r.chance(85) {
					// the chain id must match the chain id of the connection's client for the launch to succeed
					s = strings.Replace(s, "chain="+chain, fmt.Sprintf("chain=pre%d-1", k), 1)
				}
			}
		}
		if r.chance(60) {
			s += p.genPS(r, prof, r.chance(10))
		}
		return s + genInfr(r)
	case 1: // update
		c := p.pickConsumer(r)
		// a Top-N consumer (owned by governance) is asked to change hands without restating Top-N
		for _, id := range p.consumerIds() {
			if ps := p.prev[id]["ps"]; ps != "" && ps != "-" && !strings.HasPrefix(ps, "0/") && r.chance(25) {
				return fmt.Sprintf("update s=gov c=%s newowner=%s", id, []string{"u0", "u1", "u2"}[r.intn(3)])
			}
		}
		sender := p.ownerOf(c)
		if r.chance(12) {
			sender = p.users(r)
		}
		// same-length list edits: replace one element of one of the consumer's lists, keep the rest
		if ps := p.prev[c]["ps"]; ps != "" && ps != "-" && r.chance(15) {
			f := strings.Split(ps, "/")
			lists := strings.Split(p.prev[c]["pslists"], "|")
			if len(f) == 5 && len(lists) == 3 {
				k := r.intn(3)
				el := splitNE(lists[k])
				if len(el) > 0 {
					el[len(el)-1-r.intn(1+len(el)/2)%len(el)] = strconv.Itoa(r.intn(prof.nv))
					lists[k] = strings.Join(el, ",")
				} else {
					lists[k] = strconv.Itoa(r.intn(prof.nv))
				}
				return fmt.Sprintf("update s=%s c=%s ps=1 topn=%s setcap=%s powcap=%s minstake=%s inactive=%s allow=%s deny=%s prio=%s",
					sender, c, f[0], f[1], f[2], f[3], f[4], lists[0], lists[1], lists[2])
			}
		}
		s := fmt.Sprintf("update s=%s c=%s", sender, c)
		if r.chance(25) {
			s += " newowner=" + []string{"u0", "u1", "gov", "gov", "bad"}[r.intn(5)]
		}
		if r.chance(10) {
			s += fmt.Sprintf(" newchain=c%d-1", r.intn(5))
		} else if prof.revisions && r.chance(12) {
			s += fmt.Sprintf(" newchain=c%d-%d", r.intn(5), 1+r.intn(2))
		}
		if r.chance(50) {
			s += fmt.Sprintf(" init=1 spawn=%d", p.genSpawn(r))
			if prof.revisions && r.chance(35) {
				s += fmt.Sprintf(" rev=%d", 1+r.intn(2))
			}
			if prof.conns > 0 && r.chance(25) {
				s += fmt.Sprintf(" conn=connection-%d", 900+r.intn(prof.conns))
			}
		}
		if r.chance(45) {
			s += p.genPS(r, prof, prof.topn)
		}
		return s + genInfr(r)
	case 2: // remove
		c := p.pickConsumer(r)
		if prof.conns > 0 && r.chance(45) {
			// prefer a launched consumer that sits on a pre-existing connection (see the directed create)
			for _, id := range p.consumerIds() {
				if p.prev[id]["phase"] == "3" && strings.HasPrefix(p.prev[id]["conn"], "connection-90") {
					c = id
					break
				}
			}
		}
		sender := p.ownerOf(c)
		if r.chance(15) {
			sender = p.users(r)
		}
		return fmt.Sprintf("remove s=%s c=%s", sender, c)
	case 3: // opt in / out
		c := p.pickConsumer(r)
		if r.chance(60) {
			// prefer consumers that are waiting for their spawn time, so that launches succeed
			var init []string
			for _, id := range p.consumerIds() {
				if p.prev[id]["phase"] == "2" {
					init = append(init, id)
				}
			}
			if len(init) > 0 {
				c = init[r.intn(len(init))]
			}
		}
		v := r.intn(prof.nv)
		signer := v
		if r.chance(8) {
			signer = r.intn(prof.nv)
		}
		if r.chance(65) {
			key := "-"
			if r.chance(30) {
				key = strconv.Itoa(p.genKey(r, prof))
			}
			return fmt.Sprintf("optin v=%d c=%s key=%s signer=%d", v, c, key, signer)
		}
		return fmt.Sprintf("optout v=%d c=%s signer=%d", v, c, signer)
	case 4: // assign
		c := p.pickConsumer(r)
		v := r.intn(prof.nv + prof.nvExtra)
		signer := v
		if r.chance(6) {
			signer = r.intn(prof.nv)
		}
		return fmt.Sprintf("assign v=%d c=%s key=%d signer=%d", v, c, p.genKey(r, prof), signer)
	case 5: // staking
		v := r.intn(prof.nv)
		if prof.wEvid > 0 && r.chance(40) {
			// unbonding delegations / redelegations: matured, maturing exactly now, in the future, on hold
			amt := []int64{500000, 1000000, 1500000, 2999999, 1}[r.intn(5)]
			at := p.now() + []int64{-sec, 0, 1, 30 * sec}[r.intn(4)]
			if r.chance(8) {
				return fmt.Sprintf("%s v=%d", []string{"stkunbond", "stktomb"}[r.intn(2)], v)
			}
			return fmt.Sprintf("%s v=%d amt=%d at=%d hold=%d", []string{"stkubd", "stkred"}[r.intn(2)], v, amt, at, b2i(r.chance(25)))
		}
		switch r.intn(8) {
		case 0:
			// environment assumption A-STK-POS: the bonded set never becomes empty
			if p.unjailedCount() <= 2 {
				return fmt.Sprintf("stkunjail v=%d", v)
			}
			return fmt.Sprintf("stkjail v=%d", v)
		case 1:
			// prefer a validator that is actually jailed (and not tombstoned)
			for _, se := range splitNE(p.prevG["stk"]) {
				sf := strings.Split(se, ":")
				if len(sf) >= 6 && sf[3] == "1" && sf[5] == "0" && r.chance(60) {
					return fmt.Sprintf("stkunjail v=%s", sf[0])
				}
			}
			return fmt.Sprintf("stkunjail v=%d", v)
		case 2:
			return "stkend"
		case 3:
			if prof.wSlash > 0 && p.unjailedCount() > 2 {
				return fmt.Sprintf("%s v=%d", []string{"stkunbond", "stktomb"}[r.intn(2)], v)
			}
			return "stkend"
		default:
			tok := (1 + r.i64n(9)) * 1000000
			if prof.lowPower {
				tok = (1 + r.i64n(3)) * 1000000
			}
			if r.chance(40) {
				// equal power, different tokens
				tok += r.i64n(1000000)
			}
			if r.chance(5) && p.unjailedCount() > 2 {
				tok = r.i64n(1000000) // below one unit of power
			}
			return fmt.Sprintf("stk v=%d tokens=%d", v, tok)
		}
	case 6: // block
		return "" // handled by the caller (block = stkend, end, begin)
	case 7:
		return p.genChan(r, prof)
	case 8:
		return p.genSlash(r, prof)
	case 9:
		c := p.pickConsumer(r)
		v := r.intn(prof.nv)
		return fmt.Sprintf("commission v=%d c=%s rate=%s signer=%d", v, c, []string{"0.050000000000000000", "0.100000000000000000", "0.010000000000000000", "1.000000000000000000"}[r.intn(4)], v)
	case 15:
		// relay none / one / several packets, or end a consumer block (also with nothing received)
		if r.chance(45) {
			return "cblock"
		}
		return fmt.Sprintf("relay n=%d", []int{1, 1, 2, 3, 10}[r.intn(5)])
	case 14:
		if r.chance(25) {
			return p.genMisb(r, prof)
		}
		return p.genEvidence(r, prof)
	case 13:
		p.chanSeq++
		switch r.intn(10) {
		case 0:
			return fmt.Sprintf("denoms s=%s add=%s rm=%s", []string{"gov", "gov", "gov", "u1"}[r.intn(4)], []string{"stake", "photon", "mote", ""}[r.intn(4)], []string{"", "", "stake", "photon"}[r.intn(4)])
		case 1:
			c := p.pickConsumer(r)
			return fmt.Sprintf("cdenoms s=%s c=%s denoms=%s", p.ownerOf(c), c, []string{"", "stake", "photon", "mote", "stake+mote"}[r.intn(5)])
		case 2:
			return fmt.Sprintf("tax rate=%s", []string{"0.020000000000000000", "0.000000000000000000", "0.100000000000000000", "0.333333333333333333", "1.000000000000000000"}[r.intn(5)])
		default:
			c := "-"
			if r.chance(75) {
				c = p.pickConsumer(r)
			}
			amt := []int64{1, 2, 3, 7, 10, 99, 100, 1000, 12345, 1000003}[r.intn(10)] + r.i64n(3)
			s := fmt.Sprintf("reward c=%s denom=%s amt=%d seq=%d", c, rewardDenoms[r.intn(3)], amt, p.chanSeq)
			if r.chance(5) {
				s += " to=other"
			}
			if r.chance(4) {
				s += " fail=1"
			}
			if c == "-" && r.chance(50) {
				s += " memo=plain"
			}
			if c == "-" && r.chance(75) {
				s += " via=" + p.pickConsumer(r)
			}
			if c != "-" && r.chance(45) {
				// the same consumer is credited in a second denom right away (several denoms per consumer in one block)
				p.chanSeq++
				p.script = append(p.script, fmt.Sprintf("reward c=%s denom=%s amt=%d seq=%d", c, rewardDenoms[r.intn(3)], amt+1, p.chanSeq))
			}
			return s
		}
	case 12:
		// infraction-parameter requests of launched consumers: few distinct values, so that equal
		// requests (cancel), replacements and several consumers due at the same time are frequent
		var launched []string
		for _, id := range p.consumerIds() {
			if p.prev[id]["phase"] == "3" {
				launched = append(launched, id)
			}
		}
		if len(launched) == 0 {
			return fmt.Sprintf("create s=u0 chain=c0-1 init=1 spawn=%d", p.now()+sec)
		}
		c := launched[r.intn(len(launched))]
		fr := []string{"0.000000000000000000", "0.010000000000000000", "0.050000000000000000"}
		s := fmt.Sprintf("update s=%s c=%s infr=1", p.ownerOf(c), c)
		if r.chance(70) {
			s += fmt.Sprintf(" dt=%s:%d", fr[r.intn(3)], []int64{600 * sec, 5 * sec}[r.intn(2)])
		}
		if r.chance(50) {
			s += fmt.Sprintf(" ds=%s:%d:%d", fr[1+r.intn(2)], int64(9223372036854775807), 1)
		}
		if r.chance(12) {
			// directed: the consumer is stopped in the block of its request: the deletion and the pending
			// change fall due in the same block, the deletion first
			p.script = append(p.script, fmt.Sprintf("remove s=%s c=%s", p.ownerOf(c), c))
		}
		return s
	case 11:
		v := r.intn(prof.nv + prof.nvExtra)
		if r.chance(60) {
			return fmt.Sprintf("newval v=%d tokens=%d", v, (1+r.i64n(5))*1000000)
		}
		if p.unjailedCount() <= 2 {
			return fmt.Sprintf("newval v=%d tokens=%d", v, (1+r.i64n(5))*1000000)
		}
		return fmt.Sprintf("rmval v=%d", v)
	default:
		if r.chance(50) {
			m := int64(1 + r.intn(prof.nv+1))
			if r.chance(15) {
				// values around the 32-bit boundary and the largest the parameter can hold
				m = []int64{4294967295, 4294967296, 4294967297, 1099511627778, 9223372036854775807, 2147483648}[r.intn(6)]
			}
			return fmt.Sprintf("setparams s=%s M=%d", []string{"gov", "gov", "u1"}[r.intn(3)], m)
		}
		return fmt.Sprintf("denoms s=%s add=%s rm=%s", []string{"gov", "gov", "u1"}[r.intn(3)], []string{"", "stake", "photon"}[r.intn(3)], []string{"", "stake"}[r.intn(2)])
	}
}

// key ids: validators' own provider keys (0..nv-1) and a small pool of extra keys to force collisions
func (p *provRunner) genKey(r *Rng, prof provProfile) int {
	if r.chance(20) {
		return r.intn(prof.nv + prof.nvExtra)
	}
	kp := prof.keyPool
	if kp == 0 {
		kp = 10
	}
	return 32 + r.intn(kp)
}

// channel handshake attempts: mostly on the client of a launched consumer, with every parameter
// occasionally wrong, repeated attempts, and confirmations
func (p *provRunner) genChan(r *Rng, prof provProfile) string {
	p.chanSeq++
	// packets in flight on established channels time out or come back with an error acknowledgement
	// (repeatedly, at different times: every one of them stops the consumer again)
	if e := splitNE(p.prevG["chan2c"]); len(e) > 0 && r.chance(30) {
		ch := e[r.intn(len(e))]
		// prefer channels of consumers that are already stopped: repeated timeouts of in-flight packets
		if r.chance(60) {
			for _, cand := range e {
				if i := strings.IndexByte(cand, ':'); i > 0 && p.prev[cand[i+1:]]["phase"] == "4" {
					ch = cand
					break
				}
			}
		}
		if i := strings.IndexByte(ch, ':'); i > 0 {
			ch = ch[:i]
		}
		if r.chance(5) {
			ch = "channel-999"
		}
		// directed: right after a (possibly repeated) stop, the owner of ANOTHER launched consumer stops
		// it in the same block, so that both removals fall due together, the re-stopped one first
		if r.chance(50) {
			for _, id := range p.consumerIds() {
				if p.prev[id]["phase"] == "3" && p.prev[id]["channel"] != ch {
					p.script = append(p.script, fmt.Sprintf("remove s=%s c=%s", p.ownerOf(id), id))
					break
				}
			}
		}
		return fmt.Sprintf("%s ch=%s seq=%d", []string{"timeout", "timeout", "ackerr", "ackok"}[r.intn(4)], ch, p.chanSeq)
	}
	// pending TRYOPEN channels get confirmed
	if len(p.tryChans) > 0 && r.chance(45) {
		i := r.intn(len(p.tryChans))
		ch := p.tryChans[i]
		if r.chance(80) {
			p.tryChans = append(p.tryChans[:i], p.tryChans[i+1:]...)
		}
		return "chanconfirm ch=" + ch
	}
	var clients []string
	for _, id := range p.consumerIds() {
		if c := p.prev[id]["client"]; c != "" && c != "-" {
			clients = append(clients, c)
		}
	}
	client := "07-tendermint-77"
	if len(clients) > 0 && r.chance(90) {
		client = clients[r.intn(len(clients))]
	} else if prof.conns > 0 {
		client = fmt.Sprintf("07-tendermint-%d", 900+r.intn(prof.conns))
	}
	conn, ok := p.connOf[client]
	if !ok {
		if p.connOf == nil {
			p.connOf = map[string]string{}
		}
		conn = fmt.Sprintf("connection-%d", len(p.connOf))
		if strings.HasPrefix(client, "07-tendermint-9") {
			var n int
			fmt.Sscanf(client, "07-tendermint-%d", &n)
			conn = fmt.Sprintf("connection-%d", n)
			p.connOf[client] = conn
		} else {
			p.connOf[client] = conn
			return fmt.Sprintf("mkconn conn=%s client=%s", conn, client)
		}
	}
	order, port, cport, ver, hops := "ORDERED", "provider", "consumer", "1", conn
	switch r.intn(14) {
	case 0:
		order = "UNORDERED"
	case 1:
		port = "transfer"
	case 2:
		cport = "provider"
	case 3:
		// unsupported versions, including the empty and the all-blank one ("_" stands for a space)
		ver = []string{"2", "", "__", "1_", "11"}[r.intn(5)]
	case 4:
		hops = conn + "," + conn
	case 5:
		hops = "connection-404"
	case 6:
		hops = ""
	case 7:
		return fmt.Sprintf("chaninit ch=channel-%d port=provider cport=consumer order=ORDERED ver=1 hops=%s", p.chanSeq, conn)
	}
	ch := fmt.Sprintf("channel-%d", p.chanSeq)
	p.tryChans = append(p.tryChans, ch)
	return fmt.Sprintf("chantry ch=%s port=%s cport=%s order=%s ver=%s hops=%s", ch, port, cport, order, ver, hops)
}

// slash packets: mostly on an established channel, for keys that are current / replaced / unknown /
// somebody else's, with update ids at the boundaries of what the provider issued
func (p *provRunner) genSlash(r *Rng, prof provProfile) string {
	var chans [][2]string // channel, consumer
	for _, e := range splitNE(p.prevG["chan2c"]) {
		if i := strings.IndexByte(e, ':'); i > 0 {
			chans = append(chans, [2]string{e[:i], e[i+1:]})
		}
	}
	if len(chans) == 0 {
		return p.genChan(r, prof)
	}
	ch := chans[r.intn(len(chans))]
	if r.chance(2) {
		ch[0] = "channel-999"
	}
	st := p.prev[ch[1]]
	// candidate keys
	var keys []int
	for _, e := range splitNE(st["valset"]) {
		f := strings.Split(e, ":")
		if len(f) == 4 {
			k, _ := strconv.Atoi(f[1])
			keys = append(keys, k)
		}
	}
	for _, e := range splitNE(st["byaddr"]) {
		f := strings.Split(e, ":")
		k, _ := strconv.Atoi(f[0])
		keys = append(keys, k)
	}
	// validators of this consumer's set that have meanwhile left the bonded set (unbonding, not jailed)
	var leaving []int
	for _, e := range splitNE(st["valset"]) {
		f := strings.Split(e, ":")
		if len(f) != 4 {
			continue
		}
		for _, se := range splitNE(p.prevG["stk"]) {
			sf := strings.Split(se, ":")
			if len(sf) >= 4 && sf[0] == f[0] && sf[2] == "2" && sf[3] == "0" {
				k, _ := strconv.Atoi(f[1])
				leaving = append(leaving, k)
			}
		}
	}
	// validators of this consumer's set that can still be jailed
	var jailable []int
	for _, e := range splitNE(st["valset"]) {
		f := strings.Split(e, ":")
		if len(f) != 4 {
			continue
		}
		for _, se := range splitNE(p.prevG["stk"]) {
			sf := strings.Split(se, ":")
			if len(sf) >= 6 && sf[0] == f[0] && sf[2] != "1" && sf[3] == "0" && sf[5] == "0" {
				k, _ := strconv.Atoi(f[1])
				jailable = append(jailable, k)
			}
		}
	}
	// directed: make a validator of this set drop out of the bonded set (status unbonding, not jailed,
	// still in the consumer's set until the next epoch) and report it for downtime right away
	if len(jailable) > 0 && r.chance(10) && p.unjailedCount() > 2 {
		k := jailable[r.intn(len(jailable))]
		for _, e := range splitNE(st["valset"]) {
			f := strings.Split(e, ":")
			if len(f) == 4 && f[1] == strconv.Itoa(k) {
				p.chanSeq++
				vscid, _ := strconv.ParseInt(p.prevG["vscid"], 10, 64)
				vsc := int64(0)
				if vscid > 1 {
					vsc = vscid - 1
				}
				p.script = append(p.script, "stkend",
					fmt.Sprintf("recvslash ch=%s key=%d power=%d vsc=%d inf=dt seq=%d", ch[0], k, 1+r.intn(3), vsc, p.chanSeq))
				return fmt.Sprintf("stk v=%s tokens=%d", f[0], 1+r.i64n(999998))
			}
		}
	}
	key := r.intn(prof.nv + prof.nvExtra)
	if len(leaving) > 0 && r.chance(45) {
		key = leaving[r.intn(len(leaving))]
	} else if len(jailable) > 0 && r.chance(55) {
		key = jailable[r.intn(len(jailable))]
	} else if len(keys) > 0 && r.chance(75) {
		key = keys[r.intn(len(keys))]
	} else if r.chance(40) {
		key = p.genKey(r, prof)
	}
	vscid, _ := strconv.ParseInt(p.prevG["vscid"], 10, 64)
	vsc := int64(0)
	switch r.intn(8) {
	case 0:
		vsc = vscid
	case 1:
		vsc = vscid + 1 + r.i64n(3)
	case 2, 3:
		vsc = 0
	default:
		if vscid > 1 {
			vsc = 1 + r.i64n(vscid-1)
		}
	}
	inf := "dt"
	if r.chance(12) {
		inf = []string{"ds", "un"}[r.intn(2)]
	}
	power := 1 + r.intn(9)
	if r.chance(3) {
		power = 0
	}
	p.chanSeq++
	return fmt.Sprintf("recvslash ch=%s key=%d power=%d vsc=%d inf=%s seq=%d", ch[0], key, power, vsc, inf, p.chanSeq)
}

// time step of the next block, biased to land exactly on / just before / just after a deadline
func (p *provRunner) genDt(r *Rng) int64 {
	now := p.now()
	if d := p.deadlines(); len(d) > 0 && r.chance(60) {
		t := d[r.intn(len(d))]
		delta := t - now + []int64{-1, 0, 1}[r.intn(3)]
		if delta > 0 {
			return delta
		}
	}
	return []int64{1, sec, 5 * sec, 6 * sec, 30 * sec}[r.intn(5)]
}

func genProv(prof provProfile) func(r *Rng, run Runner, n int, tier string) {
	return func(r *Rng, run Runner, n int, tier string) {
		p := run.(*provRunner)
		toks := make([]string, prof.nv)
		for i := range toks {
			t := (1 + r.i64n(9)) * 1000000
			if prof.lowPower {
				t = (1 + r.i64n(3)) * 1000000
			}
			if r.chance(40) {
				t += r.i64n(999999)
			}
			toks[i] = strconv.FormatInt(t, 10)
		}
		wk := ""
		if prof.withKeys {
			wk = " withkeys=1"
		}
		if prof.rewEpochs != 0 {
			wk += fmt.Sprintf(" rewepochs=%d", prof.rewEpochs)
		}
		if prof.replenish != 0 {
			wk += fmt.Sprintf(" replenish=%d frac=%s", prof.replenish, prof.frac)
		}
		run.Do(fmt.Sprintf("init maxvals=%d M=%d epoch=%d unb=%d conns=%d tokens=%s%s", prof.maxvals, prof.M, prof.epoch, prof.unb, prof.conns, strings.Join(toks, ","), wk))
		if prof.prelaunch > 0 {
			// ids 0..prelaunch-1 (so that "1" and "10", "11" coexist), all launched in the first blocks
			for i := 0; i < prof.prelaunch; i++ {
				cr := fmt.Sprintf("create s=u%d chain=c%d-1 init=1 spawn=%d ps=1 topn=0 setcap=0 powcap=0 minstake=0 inactive=1 allow= deny= prio=", i%3, i%4, 2*sec+int64(i%3))
				if prof.wEvid > 0 {
					// consumers sharing chain ids (c0-1 twice) with different double-sign parameters, tombstoning on and off
					cr = strings.Replace(cr, fmt.Sprintf("chain=c%d-1", i%4), fmt.Sprintf("chain=c%d-1", i%3), 1)
					cr += fmt.Sprintf(" infr=1 ds=%s:%d:%d", []string{"0.050000000000000000", "0.010000000000000000", "0.500000000000000000", "0.000000000000000000"}[i%4],
						[]int64{30 * sec, 9223372036854775807, 5 * sec}[i%3], b2i(i%4 == 1))
				}
				run.Do(cr)
				run.Do(fmt.Sprintf("optin v=%d c=%d key=- signer=%d", i%prof.nv, i, i%prof.nv))
				if prof.wSlash > 0 {
					// slash streams: every validator validates the consumer, so that downtime reports find somebody to jail
					for v := 0; v < prof.nv; v++ {
						if v != i%prof.nv {
							run.Do(fmt.Sprintf("optin v=%d c=%d key=- signer=%d", v, i, v))
						}
					}
				} else if r.chance(50) {
					v2 := (i + 1) % prof.nv
					run.Do(fmt.Sprintf("optin v=%d c=%d key=- signer=%d", v2, i, v2))
				}
			}
			run.Do("stkend")
			run.Do("end")
			run.Do(fmt.Sprintf("begin dh=1 dt=%d", 3*sec))
		}
		for i := 0; i < n; i++ {
			s := p.genOne(r, prof)
			if s == "" {
				// a block boundary: staking end block, provider end block, next begin block
				run.Do("stkend")
				if prof.faults && r.chance(20) {
					run.Do(fmt.Sprintf("fail call=%s nth=%d", []string{"channel.SendPacket", "channel.ChanCloseInit"}[r.intn(2)], 1+r.intn(2)))
				}
				run.Do("end")
				if prof.faults {
					run.Do("clearfail")
				}
				if prof.faults && (r.chance(35) || (prof.wReward > 0 && r.chance(40))) {
					calls := []string{"client.CreateClient", "connection.GetConnection", "client.GetClientState", "staking.GetHistoricalInfo", "staking.UnbondingTime", "channel.ChanCloseInit"}
					nth := 1 + r.intn(3)
					if prof.wReward > 0 {
						// reward allocation: a failure at any external call of any (consumer, denom) step of the block
						calls = []string{"distribution.FundCommunityPool", "distribution.AllocateTokensToValidator", "bank.SendCoinsFromModuleToModule", "distribution.GetCommunityTax"}
						nth = 1 + r.intn(4)
					}
					run.Do(fmt.Sprintf("fail call=%s nth=%d", calls[r.intn(len(calls))], nth))
				}
				run.Do(fmt.Sprintf("begin dh=1 dt=%d", p.genDt(r)))
				if prof.faults {
					run.Do("clearfail")
				}
				continue
			}
			run.Do(s)
		}
	}
}

func init() {
	life := provProfile{name: "lifecycle", nv: 5, maxvals: 4, M: 3, epoch: 2, unb: 20 * sec,
		wCreate: 14, wUpdate: 18, wRemove: 6, wOpt: 16, wAssign: 4, wStake: 8, wBlock: 22, wMisc: 2, wParams: 2, topn: true}
	streams["lifecycle"] = StreamDef{New: func(t *Trace) Runner { return newProvRunner(t) }, Gen: genProv(life)}
	// epochs: few lifecycle changes, many staking changes with frequent power ties at the M boundary
	ep := provProfile{name: "epoch", nv: 7, maxvals: 6, M: 3, epoch: 1, unb: 20 * sec, lowPower: true,
		wCreate: 6, wUpdate: 14, wRemove: 1, wOpt: 22, wAssign: 8, wStake: 24, wBlock: 24, wParams: 2, topn: true}
	hs := provProfile{name: "handshake", nv: 4, maxvals: 4, M: 3, epoch: 2, unb: 40 * sec, conns: 2,
		wCreate: 14, wUpdate: 10, wRemove: 5, wOpt: 18, wAssign: 2, wStake: 4, wBlock: 22, wChan: 25, topn: false}
	streams["handshake"] = StreamDef{New: func(t *Trace) Runner { return newProvRunner(t) }, Gen: genProv(hs)}
	sl := provProfile{name: "slash", nv: 5, nvExtra: 1, maxvals: 4, M: 4, epoch: 3, unb: 15 * sec, keyPool: 5, lowPower: true, prelaunch: 3,
		replenish: 8 * sec, frac: "0.300000000000000000",
		wCreate: 4, wUpdate: 4, wRemove: 2, wOpt: 12, wAssign: 8, wStake: 22, wBlock: 26, wChan: 10, wSlash: 36, wVal: 2}
	streams["slash"] = StreamDef{New: func(t *Trace) Runner { return newProvRunner(t) }, Gen: genProv(sl)}
	keys := provProfile{name: "keys", nv: 4, nvExtra: 2, maxvals: 5, M: 4, epoch: 2, unb: 12 * sec, keyPool: 5,
		wCreate: 5, wUpdate: 4, wRemove: 3, wOpt: 14, wAssign: 34, wStake: 3, wBlock: 22, wVal: 9}
	streams["keys"] = StreamDef{New: func(t *Trace) Runner { return newProvRunner(t) }, Gen: genProv(keys)}
	faults := provProfile{name: "faults", nv: 5, maxvals: 5, M: 4, epoch: 2, unb: 15 * sec, conns: 2, revisions: true, faults: true,
		wCreate: 14, wUpdate: 16, wRemove: 6, wOpt: 20, wAssign: 3, wStake: 5, wBlock: 26, wChan: 12}
	streams["faults"] = StreamDef{New: func(t *Trace) Runner { return newProvRunner(t) }, Gen: genProv(faults)}
	iso := provProfile{name: "isolation", nv: 5, maxvals: 5, M: 4, epoch: 1, unb: 10 * sec, keyPool: 6, prelaunch: 13,
		wCreate: 1, wUpdate: 8, wRemove: 3, wOpt: 18, wAssign: 26, wStake: 8, wBlock: 26, wInfr: 6}
	streams["isolation"] = StreamDef{New: func(t *Trace) Runner { return newProvRunner(t) }, Gen: genProv(iso)}
	inf := provProfile{name: "infraction", nv: 4, maxvals: 4, M: 4, epoch: 2, unb: 8 * sec, prelaunch: 5,
		wCreate: 2, wUpdate: 6, wRemove: 1, wOpt: 6, wStake: 3, wBlock: 22, wInfr: 40}
	streams["infraction"] = StreamDef{New: func(t *Trace) Runner { return newProvRunner(t) }, Gen: genProv(inf)}
	rw := provProfile{name: "rewards", nv: 5, maxvals: 5, M: 4, epoch: 2, unb: 12 * sec, prelaunch: 4, rewEpochs: 2, lowPower: true,
		wCreate: 2, wUpdate: 3, wRemove: 1, wOpt: 14, wAssign: 2, wStake: 8, wBlock: 26, wMisc: 6, wChan: 6, wReward: 38}
	ev := provProfile{name: "evidence", nv: 6, nvExtra: 20, maxvals: 12, M: 12, epoch: 3, unb: 40 * sec, prelaunch: 4, lowPower: true, keyPool: 6,
		wCreate: 2, wUpdate: 3, wRemove: 2, wOpt: 8, wAssign: 12, wStake: 14, wBlock: 16, wInfr: 4, wVal: 10, wEvid: 36}
	streams["evidence"] = StreamDef{New: func(t *Trace) Runner { return newProvRunner(t) }, Gen: genProv(ev)}
	rwf := rw
	rwf.name, rwf.faults = "rewardfaults", true
	streams["rewardfaults"] = StreamDef{New: func(t *Trace) Runner { return newProvRunner(t) }, Gen: genProv(rwf)}
	streams["rewards"] = StreamDef{New: func(t *Trace) Runner { return newProvRunner(t) }, Gen: genProv(rw)}
	streams["epoch"] = StreamDef{New: func(t *Trace) Runner { return newProvRunner(t) }, Gen: genProv(ep)}
}

// equivocation evidence: mostly valid duplicate votes of a validator's current consumer key, with
// single-field mutations, keys of other consumers / replaced keys, heights around the consumer's
// minimum evidence height, consumers sharing a chain id, and replays of the previous submission
func (p *provRunner) genEvidence(r *Rng, prof provProfile) string {
	if p.lastEvidence != "" && r.chance(22) {
		return p.lastEvidence
	}
	ids := p.consumerIds()
	c := "99"
	if len(ids) > 0 && r.chance(96) {
		c = ids[r.intn(len(ids))]
		// prefer consumers that have a client
		for try := 0; try < 3 && p.prev[c]["client"] == "-"; try++ {
			c = ids[r.intn(len(ids))]
		}
	}
	kaOf := func(c string, v int) (int, bool) {
		for _, kv := range splitNE(p.prev[c]["ka"]) {
			var a, b int
			if n, _ := fmt.Sscanf(kv, "%d:%d", &a, &b); n == 2 && a == v {
				return b, true
			}
		}
		return v, false
	}
	v := r.intn(prof.nv + prof.nvExtra)
	if lv := p.liveVals(); len(lv) > 0 && r.chance(80) {
		v = lv[r.intn(len(lv))]
	}
	key, _ := kaOf(c, v)
	switch {
	case r.chance(10) && len(ids) > 1: // the key the validator uses on another consumer
		key, _ = kaOf(ids[r.intn(len(ids))], v)
	case r.chance(8): // its provider key although another one may be assigned
		key = v
	case r.chance(5):
		key = p.genKey(r, prof)
	}
	chain := p.prev[c]["chain"]
	if chain == "" {
		chain = "c0-1"
	}
	chainA, chainB := chain, chain
	switch {
	case r.chance(6):
		chainA, chainB = "provider-1", "provider-1"
	case r.chance(6):
		o := fmt.Sprintf("c%d-1", r.intn(4))
		chainA, chainB = o, o
	case r.chance(4):
		chainB = fmt.Sprintf("c%d-1", r.intn(4))
	}
	var evmin int64
	fmt.Sscan(p.prev[c]["evmin"], &evmin)
	h := evmin + []int64{-1, 0, 0, 1, 1, 5, 100}[r.intn(7)]
	if h < 1 {
		h = 1
	}
	rd := int64(r.intn(3))
	ty := int64(1 + r.intn(2))
	if r.chance(2) {
		ty = 32
	}
	ba := int64(1 + r.intn(5))
	bb := ba + 1 + int64(r.intn(3))
	switch {
	case r.chance(6):
		bb = ba
	case r.chance(5):
		ba, bb = bb, ba
	case r.chance(6):
		ba = 0
	}
	sa, aa, sb, ab := key, key, key, key
	hb, rb, tb := h, rd, ty
	okA, okB := 1, 1
	other := p.genKey(r, prof)
	if r.chance(50) {
		other = r.intn(prof.nv)
	}
	switch r.intn(22) {
	case 0:
		hb = h + 1
	case 1:
		rb = rd + 1
	case 2:
		tb = 3 - ty
	case 3:
		ab = other // B names another validator, signed by the same key
	case 4:
		sb, ab = other, other // B is a genuine vote of somebody else
	case 5:
		okA = 0
	case 6:
		okB = 0
	case 7:
		sa, sb = other, other // both votes carry the victim's address but are signed by another key
	case 8:
		sb = other
	}
	hv := []string{fmt.Sprint(aa)}
	for i := 0; i < r.intn(3); i++ {
		hv = append(hv, fmt.Sprint(r.intn(prof.nv)))
	}
	hvs := strings.Join(hv, ",")
	switch {
	case r.chance(4):
		hvs = fmt.Sprint(other)
	case r.chance(2):
		hvs = ""
	case r.chance(2):
		hvs = "nil"
	}
	s := fmt.Sprintf("dvote c=%s a=%d/%d/%s/%d/%d/%d/%d/%d b=%d/%d/%s/%d/%d/%d/%d/%d hv=%s",
		c, sa, aa, chainA, h, rd, ty, ba, okA, sb, ab, chainB, hb, rb, tb, bb, okB, hvs)
	p.lastEvidence = s
	if r.chance(18) {
		// directed: the accused validator has BOTH an unbonding delegation and a redelegation that are
		// still live, each with a fractional part of a power unit (together more than one unit)
		at := p.now() + 30*sec
		p.script = append(p.script, fmt.Sprintf("stkred v=%d amt=%d at=%d hold=0", v, []int64{500000, 1500000, 2999999}[r.intn(3)], at), s)
		return fmt.Sprintf("stkubd v=%d amt=%d at=%d hold=0", v, []int64{500000, 1500000, 1}[r.intn(3)], at)
	}
	return s
}

// bulk: more consumers than the per-block queue limit (200) are due at the same time — for launch,
// for an infraction-parameter change, and for removal.  Scripted with a small random tail; the seed
// varies how many are over the limit and how they are spread over one or two timestamps.
func init() {
	streams["bulk"] = StreamDef{New: func(t *Trace) Runner { return newProvRunner(t) }, Gen: func(r *Rng, run Runner, n int, tier string) {
		p := run.(*provRunner)
		N := 201 + r.intn(9)
		unb := 20 * sec
		run.Do(fmt.Sprintf("init maxvals=4 M=3 epoch=50 unb=%d conns=0 tokens=3000000,2000000,1000000", unb))
		block := func(dt int64) {
			run.Do("stkend")
			run.Do("end")
			run.Do(fmt.Sprintf("begin dh=1 dt=%d", dt))
		}
		// all spawn at one of two nearby times, both due in the same block
		// how the spawn times are spread: exactly the limit (200) at the first time and the rest at a
		// second one, a random split over two times, or all at one time
		mode := []int{0, 0, 1, 2}[r.intn(4)]
		for i := 0; i < N; i++ {
			off := int64(0)
			switch mode {
			case 0:
				if i >= 200 {
					off = 1
				}
			case 1:
				off = int64(r.intn(2))
			}
			run.Do(fmt.Sprintf("create s=u%d chain=c%d-1 init=1 spawn=%d ps=1 topn=0 setcap=0 powcap=0 minstake=0 inactive=1 allow= deny= prio=", i%3, i%4, 2*sec+off))
			run.Do(fmt.Sprintf("optin v=%d c=%d key=- signer=%d", i%3, i, i%3))
		}
		run.Do("optin v=1 c=3 key=- signer=1")
		block(3 * sec) // at most 200 are handled
		block(1)       // the rest
		block(1)
		// an infraction-parameter change on every launched consumer, all in one block => all due at once
		ids := p.consumerIds()
		for _, id := range ids {
			if p.prev[id]["phase"] == "3" {
				run.Do(fmt.Sprintf("update s=%s c=%s infr=1 ds=0.010000000000000000:%d:1", p.ownerOf(id), id, 7*sec))
			}
		}
		block(unb - 1) // one nanosecond early: nothing yet
		block(1)       // due: at most 200
		block(1)       // the rest
		block(1)
		// remove all launched consumers in one block => all removals due at once
		for _, id := range p.consumerIds() {
			if p.prev[id]["phase"] == "3" {
				run.Do(fmt.Sprintf("remove s=%s c=%s", p.ownerOf(id), id))
			}
		}
		block(unb - 1)
		block(1)
		block(1)
		block(1)
		_ = n
	}}
}

// light-client-attack evidence: two conflicting headers of a consumer signed by (mostly) more than
// 2/3 of a small validator set made of keys validators use on that consumer; single mutations of
// everything CheckMisbehaviour and the light client look at; amnesia (same state, other round)
func (p *provRunner) genMisb(r *Rng, prof provProfile) string {
	if p.lastMisb != "" && r.chance(15) {
		return p.lastMisb
	}
	ids := p.consumerIds()
	c := "99"
	if len(ids) > 0 && r.chance(97) {
		c = ids[r.intn(len(ids))]
		for try := 0; try < 3 && p.prev[c]["client"] == "-"; try++ {
			c = ids[r.intn(len(ids))]
		}
	}
	kaOf := func(v int) int {
		for _, kv := range splitNE(p.prev[c]["ka"]) {
			var a, b int
			if n, _ := fmt.Sscanf(kv, "%d:%d", &a, &b); n == 2 && a == v {
				return b
			}
		}
		return v
	}
	nv := 4 + r.intn(4)
	perm := r.perm(prof.nv + prof.nvExtra)
	if lv := p.liveVals(); len(lv) >= 4 && r.chance(80) {
		// mostly validators that can still be punished, a few others at the end
		pp := r.perm(len(lv))
		var front []int
		for _, i := range pp {
			front = append(front, lv[i])
		}
		perm = append(front, perm...)
	}
	var vals []string
	used := map[int]bool{}
	for _, v := range perm {
		if len(vals) == nv {
			break
		}
		k := kaOf(v)
		if r.chance(8) {
			k = p.genKey(r, prof)
		}
		if used[k] {
			continue
		}
		used[k] = true
		vals = append(vals, fmt.Sprintf("%d:%d", k, 1+r.intn(3)))
	}
	nv = len(vals)
	flags := func() string {
		b := bytes.Repeat([]byte{'c'}, nv)
		if r.chance(28) {
			for k := 0; k < 1+r.intn(2); k++ {
				b[r.intn(nv)] = []byte{'a', 'a', 'a', 'n', 'b', 'w'}[r.intn(6)]
			}
		}
		return string(b)
	}
	chain := p.prev[c]["chain"]
	if chain == "" {
		chain = "c0-1"
	}
	ch1, ch2 := chain, chain
	switch {
	case r.chance(5):
		o := []string{"provider-1", fmt.Sprintf("c%d-1", r.intn(4))}[r.intn(2)]
		ch1, ch2 = o, o
	case r.chance(2):
		ch2 = fmt.Sprintf("c%d-1", r.intn(4))
	}
	var evmin int64
	fmt.Sscan(p.prev[c]["evmin"], &evmin)
	h := evmin + []int64{-1, 0, 1, 1, 5, 100}[r.intn(6)]
	if h < 3 {
		h = 3
	}
	h2 := h
	if r.chance(4) {
		h2 = h - 1
	}
	if r.chance(2) {
		h2 = h + 1
	}
	th := h - 1 - int64(r.intn(2))
	if r.chance(3) {
		th = h
	}
	if th < 1 {
		th = 1
	}
	if r.chance(2) {
		th = 0
	}
	r1 := int64(r.intn(2))
	r2 := r1
	st1, st2 := 1, 2
	d1, d2 := 1, 1
	switch r.intn(12) {
	case 0: // identical headers
		st2 = st1
	case 1: // same state, different data, same round (not amnesia)
		st2, d2 = st1, 2
	case 2: // amnesia: same state transition, different rounds
		st2, d2, r2 = st1, 2, r1+1
	case 3: // conflicting and different rounds
		r2 = r1 + 1
	}
	client := "own"
	if r.chance(5) && len(ids) > 1 {
		o := ids[r.intn(len(ids))]
		if cl := p.prev[o]["client"]; cl != "-" && cl != "" {
			client = cl
		}
	}
	if r.chance(2) {
		client = "07-tendermint-777"
	}
	trusted, age := 1, int64(3600)*sec
	if r.chance(4) {
		trusted = 0
	}
	if r.chance(4) {
		age = []int64{14 * 24 * 3600 * sec, 14*24*3600*sec - 1, 15 * 24 * 3600 * sec}[r.intn(3)]
	}
	tvals := "same"
	if r.chance(8) && nv > 2 {
		tvals = strings.Join(vals[:nv-1], ",")
	}
	cchain := "own"
	if r.chance(2) {
		cchain = "c9-1"
	}
	f1, f2 := flags(), flags()
	vals2 := ""
	if r.chance(12) && nv >= 4 {
		// "framing": the last validator has the lowest power in header 1 (its tampered or foreign
		// signature sits behind the early exit of both commit checks) and the highest in header 2
		// (header 1 also has one validator more than header 2, so the victim's entry lies beyond
		// every signature index of header 2)
		var v1, v2 []string
		for i, kv := range vals {
			k := strings.Split(kv, ":")[0]
			switch {
			case i == nv-1:
				v1 = append(v1, k+":1")
				v2 = append(v2, k+":4")
			case i == nv-2 && r.chance(70):
				v1 = append(v1, k+":3") // only in header 1
			default:
				v1 = append(v1, k+":3")
				v2 = append(v2, fmt.Sprintf("%s:%d", k, 1+r.intn(2)))
			}
		}
		vals = v1
		vals2 = " vals2=" + strings.Join(v2, ",")
		b1 := bytes.Repeat([]byte{'c'}, nv)
		b1[nv-1] = []byte{'b', 'w', 'c'}[r.intn(3)]
		f1, f2 = string(b1), string(bytes.Repeat([]byte{'c'}, len(v2)))
	} else if r.chance(25) {
		// "lunatic" attack: header 2 carries another validator set - the same members with other powers
		// (hence another order), possibly one fewer and one more
		var v2 []string
		for i, kv := range vals {
			if i == nv-1 && r.chance(30) {
				continue
			}
			k := strings.Split(kv, ":")[0]
			v2 = append(v2, fmt.Sprintf("%s:%d", k, 1+r.intn(4)))
		}
		if k := p.genKey(r, prof); r.chance(30) && !used[k] {
			v2 = append(v2, fmt.Sprintf("%d:%d", k, 1+r.intn(2)))
		}
		vals2 = " vals2=" + strings.Join(v2, ",")
		b := bytes.Repeat([]byte{'c'}, len(v2))
		if r.chance(40) {
			b[len(v2)-1] = []byte{'b', 'w', 'a'}[r.intn(3)]
		}
		f2 = string(b)
		if r.chance(40) {
			// a bad signature in header 1 at the very end as well
			b1 := []byte(f1)
			b1[len(b1)-1] = []byte{'b', 'w'}[r.intn(2)]
			f1 = string(b1)
		}
	}
	s := fmt.Sprintf("misb c=%s client=%s vals=%s h1=%s/%d/%d/%d/%d/%s h2=%s/%d/%d/%d/%d/%s th=%d tvals=%s trusted=%d age=%d cchain=%s%s",
		c, client, strings.Join(vals, ","), ch1, h, r1, st1, d1, f1, ch2, h2, r2, st2, d2, f2, th, tvals, trusted, age, cchain, vals2)
	p.lastMisb = s
	return s
}

// validators that exist and are not tombstoned (from the last snapshot "id:tokens:status:jailed:lp:tomb:until")
func (p *provRunner) liveVals() []int {
	var out []int
	for _, e := range splitNE(p.prevG["stk"]) {
		f := strings.Split(e, ":")
		if len(f) >= 6 && f[5] == "0" && f[2] != "1" {
			var id int
			fmt.Sscan(f[0], &id)
			out = append(out, id)
		}
	}
	return out
}

// last powers of the provider's active validators (first M bonded), descending as staking orders them
func (p *provRunner) activePowers() []int64 {
	lp := map[string]int64{}
	for _, e := range splitNE(p.prevG["stk"]) {
		f := strings.Split(e, ":")
		if len(f) >= 5 {
			v, _ := strconv.ParseInt(f[4], 10, 64)
			lp[f[0]] = v
		}
	}
	m := int64(1 << 40)
	if f := strings.Split(p.prevG["params"], "/"); len(f) == 2 {
		m, _ = strconv.ParseInt(f[0], 10, 64)
	}
	var out []int64
	for _, id := range splitNE(p.prevG["bonded"]) {
		if int64(len(out)) >= m {
			break
		}
		if lp[id] > 0 {
			out = append(out, lp[id])
		}
	}
	return out
}
