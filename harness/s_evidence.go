package main

// equivocation evidence (C07): REAL ed25519-signed duplicate votes, submitted through the real
// MsgSubmitConsumerDoubleVoting.ValidateBasic and msg server.

import (
	"bytes"
	stded25519 "crypto/ed25519"
	"encoding/binary"
	"fmt"
	"os"
	"strings"

	ibctmtypes "github.com/cosmos/ibc-go/v10/modules/light-clients/07-tendermint"

	sdk "github.com/cosmos/cosmos-sdk/types"

	cmted25519 "github.com/cometbft/cometbft/crypto/ed25519"
	tmproto "github.com/cometbft/cometbft/proto/tendermint/types"
	tmtypes "github.com/cometbft/cometbft/types"

	testcrypto "github.com/cosmos/interchain-security/v7/testutil/crypto"
	providertypes "github.com/cosmos/interchain-security/v7/x/ccv/provider/types"
)

// the consensus private key of pool identity i (same seed as testutil/crypto)
func (p *Pool) privKey(i int) cmted25519.PrivKey {
	seed := []byte("AAAAAAAAabcdefghijklmnopqrstuvwx")
	binary.LittleEndian.PutUint64(seed[:8], uint64(7000+i))
	k := cmted25519.PrivKey(stded25519.NewKeyFromSeed(seed))
	if !k.PubKey().Equals(p.ids[i].ci.TMCryptoPubKey()) {
		panic("pool private key does not match the identity")
	}
	return k
}

var debugWhy = os.Getenv("VERIF_WHY") != ""

func evBlockID(b int64) tmtypes.BlockID {
	if b == 0 {
		return tmtypes.BlockID{} // a vote for nil
	}
	return testcrypto.MakeBlockID(bytes.Repeat([]byte{byte(b)}, 32), 1, bytes.Repeat([]byte{byte(b)}, 32))
}

// vote spec "signer/addr/chain/height/round/type/block/sigok"
func (p *Pool) mkVote(spec string) (*tmtypes.Vote, error) {
	f := strings.Split(spec, "/")
	if len(f) != 8 {
		return nil, fmt.Errorf("bad vote spec %q", spec)
	}
	var signer, addr int
	var h, bl int64
	var r, t int32
	fmt.Sscan(f[0], &signer)
	fmt.Sscan(f[1], &addr)
	fmt.Sscan(f[3], &h)
	fmt.Sscan(f[4], &r)
	fmt.Sscan(f[5], &t)
	fmt.Sscan(f[6], &bl)
	v := &tmtypes.Vote{
		ValidatorAddress: p.ids[addr].ci.TMCryptoPubKey().Address(), ValidatorIndex: 0,
		Height: h, Round: r, Type: tmproto.SignedMsgType(t), BlockID: evBlockID(bl), Timestamp: t0,
	}
	sig, err := p.privKey(signer).Sign(tmtypes.VoteSignBytes(f[2], v.ToProto()))
	if err != nil {
		return nil, err
	}
	if f[7] != "1" {
		sig[5] ^= 0x20
	}
	v.Signature = sig
	return v, nil
}

func init() {
	// dvote c=<consumer> a=<vote spec> b=<vote spec> hv=<keys in the header's validator set, or "nil"> [sub=<submitter>]
	extraOps["dvote"] = func(p *provRunner, op Op, extra *[]any) error {
		w := p.w
		va, err := w.pool.mkVote(op.s("a"))
		if err != nil {
			return err
		}
		vb, err := w.pool.mkVote(op.s("b"))
		if err != nil {
			return err
		}
		*extra = append(*extra, "ord", strings.Compare(va.BlockID.Key(), vb.BlockID.Key()))
		ev := &tmtypes.DuplicateVoteEvidence{VoteA: va, VoteB: vb, TotalVotingPower: 10, ValidatorPower: 1, Timestamp: t0}
		hdr := &ibctmtypes.Header{
			SignedHeader: &tmproto.SignedHeader{Header: &tmproto.Header{ChainID: "whatever-1", Height: va.Height}, Commit: &tmproto.Commit{}},
		}
		if op.s("hv") != "nil" {
			var vals []*tmtypes.Validator
			seen := map[int64]bool{}
			for _, k := range op.ints("hv") {
				if seen[k] {
					continue
				}
				seen[k] = true
				vals = append(vals, w.pool.ids[k].ci.TMValidator(1))
			}
			if len(vals) == 0 {
				hdr.ValidatorSet = &tmproto.ValidatorSet{}
			} else {
				vs, e := tmtypes.NewValidatorSet(vals).ToProto()
				if e != nil {
					return e
				}
				hdr.ValidatorSet = vs
			}
		}
		msg := &providertypes.MsgSubmitConsumerDoubleVoting{Submitter: w.user("u2"), DuplicateVoteEvidence: ev.ToProto(), InfractionBlockHeader: hdr, ConsumerId: op.s("c")}
		if e := msg.ValidateBasic(); e != nil {
			*extra = append(*extra, "stage", "basic")
			return e
		}
		*extra = append(*extra, "stage", "handler")
		e := w.atomically(func(ctx sdk.Context) error {
			_, e := w.msg.SubmitConsumerDoubleVoting(ctx, msg)
			return e
		})
		if e != nil && debugWhy {
			m := e.Error()
			if len(m) > 60 {
				m = m[:60]
			}
			*extra = append(*extra, "why", strings.NewReplacer(" ", "_", "\n", "").Replace(m))
		}
		return e
	}
}

// unbonding / redelegation entries of every validator: "id:u|r:amount:completion:hold"
func (p *provRunner) snapshotUnbonding(ctx sdk.Context, g map[string]string) {
	var out []string
	for _, r := range p.w.stk.allRecs(ctx) {
		for _, u := range r.UBDs {
			out = append(out, fmt.Sprintf("%d:u:%d:%d:%d", r.ID, u.Amount, u.Completion-t0.UnixNano(), b2i(u.OnHold)))
		}
		for _, u := range r.REDs {
			out = append(out, fmt.Sprintf("%d:r:%d:%d:%d", r.ID, u.Amount, u.Completion-t0.UnixNano(), b2i(u.OnHold)))
		}
	}
	g["unb"] = strings.Join(out, ",")
}
