package main

// two-chain stream (C01): the VSC packets the REAL provider sends for one consumer are relayed, in
// order but with arbitrary delays and batching, to a REAL consumer keeper initialised from the
// genesis the provider produced for it.  After every consumer block its stored cross-chain
// validator set must be the provider's validator set of the last packet delivered.

import (
	"fmt"
	"sort"
	"strings"

	clienttypes "github.com/cosmos/ibc-go/v10/modules/core/02-client/types"
	channeltypes "github.com/cosmos/ibc-go/v10/modules/core/04-channel/types"

	abci "github.com/cometbft/cometbft/abci/types"

	ccv "github.com/cosmos/interchain-security/v7/x/ccv/types"
)

type twoChain struct {
	consumer string
	cw       *CWorld
	next     int               // index into sentLog of the next packet to look at
	expect   map[uint64]string // vsc id -> provider's validator set (key:power, sorted) when that packet was created
	last     string            // provider set of the last delivered packet (initially: genesis set)
	engine   map[int64]int64   // the consumer's consensus engine: key -> power, folded from returned updates
	seq      uint64
}

func fmtKP(m map[int64]int64) string {
	var ks []int64
	for k, v := range m {
		if v > 0 {
			ks = append(ks, k)
		}
	}
	sort.Slice(ks, func(i, j int) bool { return ks[i] < ks[j] })
	out := make([]string, len(ks))
	for i, k := range ks {
		out[i] = fmt.Sprintf("%d:%d", k, m[k])
	}
	return strings.Join(out, ",")
}

// provider's stored validator set of the consumer, as key:power sorted by key
func (p *provRunner) provSetOf(c string) string {
	vals, err := p.w.pk.GetConsumerValSet(p.w.ctx, c)
	if err != nil {
		return "?"
	}
	m := map[int64]int64{}
	for _, v := range vals {
		m[p.w.pool.keyID(abci.ValidatorUpdate{PubKey: *v.PublicKey})] = v.Power
	}
	return fmtKP(m)
}

// to be called after every provider EndBlock: remember the provider's set for packets created now
func (p *provRunner) twoChainRecord(sent []SentPacket) {
	tc := p.tc
	if tc == nil {
		return
	}
	cur := p.provSetOf(tc.consumer)
	for _, pk := range p.w.pk.GetPendingVSCPackets(p.w.ctx, tc.consumer) {
		if _, ok := tc.expect[pk.ValsetUpdateId]; !ok {
			tc.expect[pk.ValsetUpdateId] = cur
		}
	}
	ch, _ := p.w.pk.GetConsumerIdToChannelId(p.w.ctx, tc.consumer)
	for _, s := range sent {
		if s.Channel != ch {
			continue
		}
		var d ccv.ValidatorSetChangePacketData
		if err := ccv.ModuleCdc.UnmarshalJSON(s.Data, &d); err == nil {
			if _, ok := tc.expect[d.ValsetUpdateId]; !ok {
				tc.expect[d.ValsetUpdateId] = cur
			}
		}
	}
}

func init() {
	// cattach c=<consumer>: start the consumer chain from the genesis the provider made for it
	extraOps["cattach"] = func(p *provRunner, op Op, extra *[]any) error {
		c := op.s("c")
		gen, ok := p.w.pk.GetConsumerGenesis(p.w.ctx, c)
		if !ok {
			return fmt.Errorf("no genesis")
		}
		cw := NewCWorld("consumer-1")
		ret := cw.initGenesisNew(gen.Provider.InitialValSet, nil)
		tc := &twoChain{consumer: c, cw: cw, next: len(p.sentLog), expect: map[uint64]string{}, engine: map[int64]int64{}}
		for _, u := range ret {
			tc.engine[p.w.pool.keyID(u)] = u.Power
		}
		tc.last = fmtKP(tc.engine)
		// the CCV channel on the consumer side, as core IBC would hold it
		cw.chk.setRec(cw.ctx, ccv.ConsumerPortID, consChan, ChanRec{State: int(channeltypes.OPEN), Ordered: true, Hops: []string{"connection-0"}, Port: ccv.ConsumerPortID, CpPort: ccv.ProviderPortID, CpChan: "channel-9", Version: "1", NextSeq: 1})
		p.tc = tc
		*extra = append(*extra, "cc", cw.ccSet(), "genesis", tc.last)
		return nil
	}
	// relay n=<k>: deliver the next k packets the provider sent to this consumer (oldest first)
	extraOps["relay"] = func(p *provRunner, op Op, extra *[]any) error {
		tc := p.tc
		if tc == nil {
			return fmt.Errorf("no consumer attached")
		}
		ch, _ := p.w.pk.GetConsumerIdToChannelId(p.w.ctx, tc.consumer)
		delivered := 0
		var ids []string
		for tc.next < len(p.sentLog) && delivered < int(op.i("n")) {
			s := p.sentLog[tc.next]
			tc.next++
			if s.Channel != ch {
				continue
			}
			var d ccv.ValidatorSetChangePacketData
			if err := ccv.ModuleCdc.UnmarshalJSON(s.Data, &d); err != nil {
				continue
			}
			tc.seq++
			pkt := channeltypes.NewPacket(s.Data, tc.seq, ccv.ProviderPortID, "channel-9", ccv.ConsumerPortID, consChan, clienttypes.Height{}, 0)
			cctx, write := tc.cw.ctx.CacheContext()
			ack := tc.cw.mod.OnRecvPacket(cctx, "", pkt, nil)
			if !ack.Success() {
				return fmt.Errorf("consumer rejected VSC packet %d", d.ValsetUpdateId)
			}
			write()
			delivered++
			ids = append(ids, fmt.Sprint(d.ValsetUpdateId))
			if e, ok := tc.expect[d.ValsetUpdateId]; ok {
				tc.last = e
			} else {
				tc.last = "unknown-packet-" + fmt.Sprint(d.ValsetUpdateId)
			}
		}
		*extra = append(*extra, "delivered", strings.Join(ids, ","))
		return nil
	}
	// cblock: the consumer ends its block (applies what it received) and begins the next one
	extraOps["cblock"] = func(p *provRunner, op Op, extra *[]any) error {
		tc := p.tc
		if tc == nil {
			return fmt.Errorf("no consumer attached")
		}
		ups, err := tc.cw.mod.EndBlock(tc.cw.ctx)
		if err != nil {
			return err
		}
		for _, u := range ups {
			tc.engine[p.w.pool.keyID(u)] = u.Power
		}
		tc.cw.advance(1, 1000000000)
		if err := tc.cw.mod.BeginBlock(tc.cw.ctx); err != nil {
			return err
		}
		*extra = append(*extra, "cc", tc.cw.ccSet(), "engine", fmtKP(tc.engine), "expect", tc.last, "waiting", len(p.sentLog)-tc.next)
		return nil
	}

	tw := provProfile{name: "twochain", nv: 6, nvExtra: 2, maxvals: 6, M: 5, epoch: 2, unb: 30 * sec, keyPool: 6, lowPower: true,
		wOpt: 18, wAssign: 12, wStake: 26, wBlock: 26, wVal: 4, wRelay: 22}
	streams["twochain"] = StreamDef{New: func(t *Trace) Runner { return newProvRunner(t) }, Gen: func(r *Rng, run Runner, n int, tier string) {
		p := run.(*provRunner)
		run.Do(fmt.Sprintf("init maxvals=%d M=%d epoch=%d unb=%d conns=0 tokens=3000000,2000000,2500000,1000000,1500000,2000000", tw.maxvals, tw.M, tw.epoch, tw.unb))
		run.Do("create s=u0 chain=c0-1 init=1 spawn=2000000000 ps=1 topn=0 setcap=0 powcap=0 minstake=0 inactive=1 allow= deny= prio=")
		for v := 0; v < 4; v++ {
			run.Do(fmt.Sprintf("optin v=%d c=0 key=- signer=%d", v, v))
		}
		run.Do("assign v=1 c=0 key=33 signer=1")
		run.Do("stkend")
		run.Do("end")
		run.Do(fmt.Sprintf("begin dh=1 dt=%d", 3*sec))
		// the CCV channel handshake, so that the provider really SENDS its packets
		run.Do("mkconn conn=connection-50 client=07-tendermint-0")
		run.Do("chantry ch=channel-50 port=provider cport=consumer order=ORDERED ver=1 hops=connection-50")
		run.Do("chanconfirm ch=channel-50")
		run.Do("cattach c=0")
		for i := 0; i < n; i++ {
			s := p.genOne(r, tw)
			if s == "" {
				run.Do("stkend")
				run.Do("end")
				run.Do(fmt.Sprintf("begin dh=1 dt=%d", []int64{sec, 5 * sec, 6 * sec}[r.intn(3)]))
				continue
			}
			// keep the consumer's validator set populated: most opt-outs become opt-ins, most jailings unjailings
			if strings.HasPrefix(s, "optout ") && r.chance(75) {
				v := r.intn(tw.nv)
				s = fmt.Sprintf("optin v=%d c=0 key=- signer=%d", v, v)
			}
			if strings.HasPrefix(s, "stkjail ") && r.chance(60) {
				s = strings.Replace(s, "stkjail", "stkunjail", 1)
			}
			run.Do(s)
		}
		// drain: deliver everything, one last consumer block
		run.Do("relay n=1000")
		run.Do("cblock")
	}}
}
