package main

// The provider-world executor: fully resolved operation lines -> real message servers,
// BeginBlock/EndBlock, IBC callbacks of the provider module over the scripted environment.
// After every operation the typed getters are read and the *changed* fields are printed.

import (
	"fmt"
	"sort"
	"strconv"
	"strings"
	"time"

	clienttypes "github.com/cosmos/ibc-go/v10/modules/core/02-client/types"
	channeltypes "github.com/cosmos/ibc-go/v10/modules/core/04-channel/types"

	"cosmossdk.io/math"

	cryptocodec "github.com/cosmos/cosmos-sdk/crypto/codec"
	sdk "github.com/cosmos/cosmos-sdk/types"
	stakingtypes "github.com/cosmos/cosmos-sdk/x/staking/types"

	abci "github.com/cometbft/cometbft/abci/types"

	providertypes "github.com/cosmos/interchain-security/v7/x/ccv/provider/types"
	ccv "github.com/cosmos/interchain-security/v7/x/ccv/types"
)

type provRunner struct {
	lastEvidence string
	tc           *twoChain // attached consumer chain (two-chain stream)
	script       []string // scripted follow-up operations of a directed scenario
	lastMisb     string
	t        *Trace
	w        *World
	prev     map[string]map[string]string // consumer id -> field -> value
	prevG    map[string]string
	withKeys bool // print raw store key diffs (C13)
	prevRaw  map[string]string
	sentLog  []SentPacket
	chanSeq  int
	tryChans []string
	connOf   map[string]string
	firstDue map[string]int64 // consumer -> removal time scheduled by its first stop
}

func newProvRunner(t *Trace) *provRunner {
	return &provRunner{t: t, w: NewWorld(), prev: map[string]map[string]string{}, prevG: map[string]string{}}
}

func (p *provRunner) ns(t time.Time) int64 {
	if t.IsZero() {
		return 0
	}
	return t.UnixNano() - t0.UnixNano()
}

// time from a relative ns value; 0 = the zero time
func tm(ns int64) time.Time {
	if ns == 0 {
		return time.Time{}
	}
	return t0.Add(time.Duration(ns)).UTC()
}

func (p *provRunner) valList(vs []int64) []string {
	out := make([]string, len(vs))
	for i, v := range vs {
		out[i] = p.w.pool.ids[v].consAddr.String()
	}
	return out
}

func (p *provRunner) vidOfCons(addr []byte) int64 {
	if id, ok := p.w.pool.byCons[string(addr)]; ok {
		return int64(id)
	}
	return -1
}

func (p *provRunner) keyJSON(k int64) string {
	pk := p.w.pool.ids[k].ci.ConsensusSDKPubKey()
	return fmt.Sprintf(`{"@type":"/cosmos.crypto.ed25519.PubKey","key":"%s"}`, b64(pk.Bytes()))
}

func (p *provRunner) signerOf(v int64) string {
	return sdk.AccAddress(p.w.pool.ids[v].ci.SDKValOpAddress()).String()
}

func fracDec(s string) math.LegacyDec {
	if s == "" {
		return math.LegacyZeroDec()
	}
	return math.LegacyMustNewDecFromStr(s)
}

// infraction parameter triple "dsfrac:dsjail:dsts|dtfrac:dtjail"
func parseInfr(op Op) *providertypes.InfractionParameters {
	if op.s("infr") != "1" {
		return nil
	}
	ip := &providertypes.InfractionParameters{}
	if op.has("ds") {
		parts := strings.Split(op.s("ds"), ":")
		j, _ := strconv.ParseInt(parts[1], 10, 64)
		ip.DoubleSign = &providertypes.SlashJailParameters{SlashFraction: fracDec(parts[0]), JailDuration: time.Duration(j), Tombstone: len(parts) > 2 && parts[2] == "1"}
	}
	if op.has("dt") {
		parts := strings.Split(op.s("dt"), ":")
		j, _ := strconv.ParseInt(parts[1], 10, 64)
		ip.Downtime = &providertypes.SlashJailParameters{SlashFraction: fracDec(parts[0]), JailDuration: time.Duration(j)}
	}
	return ip
}

func (p *provRunner) parsePS(op Op) *providertypes.PowerShapingParameters {
	if op.s("ps") != "1" {
		return nil
	}
	return &providertypes.PowerShapingParameters{
		Top_N: uint32(op.i("topn")), ValidatorsPowerCap: uint32(op.i("powcap")), ValidatorSetCap: uint32(op.i("setcap")),
		Allowlist: p.valList(op.ints("allow")), Denylist: p.valList(op.ints("deny")), Prioritylist: p.valList(op.ints("prio")),
		MinStake: uint64(op.i("minstake")), AllowInactiveVals: op.i("inactive") == 1,
	}
}

func parseInit(op Op) *providertypes.ConsumerInitializationParameters {
	if op.s("init") != "1" {
		return nil
	}
	ip := providertypes.DefaultConsumerInitializationParameters()
	ip.SpawnTime = tm(op.i("spawn"))
	ip.ConnectionId = op.s("conn")
	if op.has("rev") {
		ip.InitialHeight = clienttypes.NewHeight(uint64(op.i("rev")), 1)
	}
	return &ip
}

func errClass(err error) string {
	if err == nil {
		return "ok"
	}
	if strings.HasPrefix(err.Error(), "panic:") {
		return "panic"
	}
	return "err"
}

func (p *provRunner) Do(line string) {
	op := parseOp(line)
	p.t.op(line)
	w := p.w
	var err error
	extra := []any{}
	// environment facts the model takes as inputs (computed by IBC library code, not by the code under test)
	if op.name == "create" || op.name == "update" {
		for _, k := range []string{"chain", "newchain"} {
			if op.has(k) && op.s(k) != "" {
				p.t.obs("env", "rev."+op.s(k), clienttypes.ParseChainID(op.s(k)))
			}
		}
	}
	if op.name == "chantry" || op.name == "chanconfirm" {
		hops := splitNE(op.s("hops"))
		if op.name == "chanconfirm" {
			if r, ok := w.chk.rec(w.ctx, ccv.ProviderPortID, op.s("ch")); ok {
				hops = r.Hops
				p.t.obs("env", "chan."+op.s("ch"), strings.Join(r.Hops, "+"))
			}
		}
		for _, h := range hops {
			var cr ConnRec
			if w.env.get(w.ctx, "conn/"+h, &cr) {
				var cl ClientRec
				if w.env.get(w.ctx, "client/"+cr.ClientID, &cl) && !cl.NotTM {
					p.t.obs("env", "conn."+h, fmt.Sprintf("%s|%s|%d", cr.ClientID, cl.ChainID, cl.Height))
				} else {
					p.t.obs("env", "conn."+h, cr.ClientID+"|!|0")
				}
			}
		}
	}
	switch op.name {
	case "mkconn":
		w.env.set(w.ctx, "conn/"+op.s("conn"), ConnRec{ClientID: op.s("client"), CpConn: "connection-cp"})
	case "mkclient":
		w.env.set(w.ctx, "client/"+op.s("client"), ClientRec{ChainID: op.s("chain"), Height: 5, RevNum: 1, NotTM: op.i("nottm") == 1})
	case "init":
		toks := op.ints("tokens")
		sp := w.stk.params(w.ctx)
		sp.MaxValidators = uint32(op.i("maxvals"))
		sp.UnbondingNs = op.i("unb")
		w.stk.setParams(w.ctx, sp)
		for i, t := range toks {
			w.addValidator(i, t)
		}
		w.stk.EndBlock(w.ctx)
		pp := w.pk.GetParams(w.ctx)
		pp.MaxProviderConsensusValidators = op.i("M")
		pp.BlocksPerEpoch = op.i("epoch")
		if op.has("replenish") {
			pp.SlashMeterReplenishPeriod = time.Duration(op.i("replenish"))
		}
		if op.has("frac") {
			pp.SlashMeterReplenishFraction = op.s("frac")
		}
		if op.has("rewepochs") {
			pp.NumberOfEpochsToStartReceivingRewards = op.i("rewepochs")
		}
		w.pk.SetParams(w.ctx, pp)
		// initial provider consensus set as InitGenesis would compute it
		_ = w.atomically(func(ctx sdk.Context) error { _, e := w.pk.ProviderValidatorUpdates(ctx); return e })
		w.pk.InitializeSlashMeter(w.ctx)
		{
			pp := w.pk.GetParams(w.ctx)
			fr := math.LegacyMustNewDecFromStr(pp.SlashMeterReplenishFraction)
			p.t.obs("env", "fracscaled", fr.BigInt().String(), "period", int64(pp.SlashMeterReplenishPeriod))
		}
		if op.has("withkeys") {
			p.withKeys = true
		}
		// pre-existing IBC objects for consumers launched on a named connection
		for i := 0; i < int(op.i("conns")); i++ {
			cid := fmt.Sprintf("07-tendermint-%d", 900+i)
			w.env.set(w.ctx, "client/"+cid, ClientRec{ChainID: fmt.Sprintf("pre%d-1", i), Height: 7, RevNum: 1})
			w.env.set(w.ctx, fmt.Sprintf("conn/connection-%d", 900+i), ConnRec{ClientID: cid, CpConn: fmt.Sprintf("connection-%d", 800+i)})
			p.t.obs("env", fmt.Sprintf("conn.connection-%d", 900+i), fmt.Sprintf("%s|pre%d-1|7", cid, i), fmt.Sprintf("rev.pre%d-1", i), 1)
		}
	case "stk":
		r, okv := w.stk.rec(w.ctx, int(op.i("v")))
		if !okv {
			err = fmt.Errorf("no such validator")
			break
		}
		r.Tokens = op.i("tokens")
		w.stk.setRec(w.ctx, r)
	case "newval":
		err = w.atomically(func(ctx sdk.Context) error {
			id := int(op.i("v"))
			if _, ok := w.stk.rec(ctx, id); ok {
				return fmt.Errorf("validator exists")
			}
			w.stk.setRec(ctx, ValRec{ID: id, Tokens: op.i("tokens"), Status: int(stakingtypes.Unbonded), InIndex: true})
			sp := w.stk.params(ctx)
			if id >= sp.NVals {
				sp.NVals = id + 1
				w.stk.setParams(ctx, sp)
			}
			return w.pk.Hooks().AfterValidatorCreated(ctx, w.pool.ids[id].ci.SDKValOpAddress())
		})
	case "rmval":
		err = w.atomically(func(ctx sdk.Context) error {
			id := int(op.i("v"))
			if _, ok := w.stk.rec(ctx, id); !ok {
				return fmt.Errorf("no validator")
			}
			w.env.del(ctx, vkey(id))
			return w.pk.Hooks().AfterValidatorRemoved(ctx, w.pool.ids[id].consAddr, w.pool.ids[id].ci.SDKValOpAddress())
		})
	case "stkjail":
		r, okv := w.stk.rec(w.ctx, int(op.i("v")))
		if !okv {
			err = fmt.Errorf("no such validator")
			break
		}
		r.Jailed, r.InIndex = true, false
		w.stk.setRec(w.ctx, r)
	case "stkunjail":
		r, okv := w.stk.rec(w.ctx, int(op.i("v")))
		if !okv {
			err = fmt.Errorf("no such validator")
			break
		}
		r.Jailed, r.InIndex = false, true
		w.stk.setRec(w.ctx, r)
	case "stkunbond":
		r, okv := w.stk.rec(w.ctx, int(op.i("v")))
		if !okv {
			err = fmt.Errorf("no such validator")
			break
		}
		r.Status = int(stakingtypes.Unbonded)
		r.LastPower = 0
		w.stk.setRec(w.ctx, r)
	case "stktomb":
		r, okv := w.stk.rec(w.ctx, int(op.i("v")))
		if !okv {
			err = fmt.Errorf("no such validator")
			break
		}
		r.Tombstoned = true
		w.stk.setRec(w.ctx, r)
	case "stkubd":
		r, okv := w.stk.rec(w.ctx, int(op.i("v")))
		if !okv {
			err = fmt.Errorf("no such validator")
			break
		}
		r.UBDs = append(r.UBDs, UBD{Amount: op.i("amt"), Completion: t0.UnixNano() + op.i("at"), OnHold: op.i("hold") == 1})
		w.stk.setRec(w.ctx, r)
	case "stkred":
		r, okv := w.stk.rec(w.ctx, int(op.i("v")))
		if !okv {
			err = fmt.Errorf("no such validator")
			break
		}
		r.REDs = append(r.REDs, UBD{Amount: op.i("amt"), Completion: t0.UnixNano() + op.i("at"), OnHold: op.i("hold") == 1})
		w.stk.setRec(w.ctx, r)
	case "stkend":
		w.stk.EndBlock(w.ctx)
	case "stkmax":
		sp := w.stk.params(w.ctx)
		sp.MaxValidators = uint32(op.i("n"))
		w.stk.setParams(w.ctx, sp)
	case "fail":
		w.env.fail[op.s("call")] = int(op.i("nth"))
	case "clearfail":
		// an armed failure that was not reached is dropped; report whether it fired
		fired := 1
		if len(w.env.fail) > 0 {
			fired = 0
		}
		w.env.fail = map[string]int{}
		extra = append(extra, "fired", fired)
	case "expire":
		var cl ClientRec
		if w.env.get(w.ctx, "client/"+op.s("client"), &cl) {
			cl.Expired = op.i("on") == 1
			w.env.set(w.ctx, "client/"+op.s("client"), cl)
		}
	case "setparams":
		msg := &providertypes.MsgUpdateParams{Authority: w.user(op.s("s")), Params: w.pk.GetParams(w.ctx)}
		if op.has("M") {
			msg.Params.MaxProviderConsensusValidators = op.i("M")
		}
		if op.has("epoch") {
			msg.Params.BlocksPerEpoch = op.i("epoch")
		}
		err = w.atomically(func(ctx sdk.Context) error {
			_, e := w.msg.UpdateParams(ctx, msg)
			return e
		})
	case "denoms":
		msg := &providertypes.MsgChangeRewardDenoms{Authority: w.user(op.s("s")), DenomsToAdd: splitNE(op.s("add")), DenomsToRemove: splitNE(op.s("rm"))}
		err = w.atomically(func(ctx sdk.Context) error {
			if e := msg.ValidateBasic(); e != nil {
				return e
			}
			_, e := w.msg.ChangeRewardDenoms(ctx, msg)
			return e
		})
	case "create":
		msg := &providertypes.MsgCreateConsumer{
			Submitter: w.user(op.s("s")), ChainId: op.s("chain"),
			Metadata:                 providertypes.ConsumerMetadata{Name: "n", Description: "d", Metadata: "m"},
			InitializationParameters: parseInit(op), PowerShapingParameters: p.parsePS(op), InfractionParameters: parseInfr(op),
		}
		err = w.atomically(func(ctx sdk.Context) error {
			if e := msg.ValidateBasic(); e != nil {
				return e
			}
			resp, e := w.msg.CreateConsumer(ctx, msg)
			if e == nil {
				extra = append(extra, "id", resp.ConsumerId)
			}
			return e
		})
	case "update":
		msg := &providertypes.MsgUpdateConsumer{
			Owner: w.user(op.s("s")), ConsumerId: op.s("c"), NewChainId: op.s("newchain"),
			InitializationParameters: parseInit(op), PowerShapingParameters: p.parsePS(op), InfractionParameters: parseInfr(op),
		}
		if op.has("newowner") {
			msg.NewOwnerAddress = w.user(op.s("newowner"))
			if op.s("newowner") == "bad" {
				msg.NewOwnerAddress = "notanaddress"
			}
		}
		err = w.atomically(func(ctx sdk.Context) error {
			if e := msg.ValidateBasic(); e != nil {
				return e
			}
			_, e := w.msg.UpdateConsumer(ctx, msg)
			return e
		})
	case "remove":
		msg := &providertypes.MsgRemoveConsumer{Owner: w.user(op.s("s")), ConsumerId: op.s("c")}
		err = w.atomically(func(ctx sdk.Context) error {
			if e := msg.ValidateBasic(); e != nil {
				return e
			}
			_, e := w.msg.RemoveConsumer(ctx, msg)
			return e
		})
	case "optin":
		key := ""
		if op.s("key") != "-" && op.s("key") != "" {
			key = p.keyJSON(op.i("key"))
		}
		msg := &providertypes.MsgOptIn{ProviderAddr: w.pool.ids[op.i("v")].oper, ConsumerId: op.s("c"), ConsumerKey: key, Signer: p.signerOf(op.i("signer"))}
		err = w.atomically(func(ctx sdk.Context) error {
			if e := msg.ValidateBasic(); e != nil {
				return e
			}
			_, e := w.msg.OptIn(ctx, msg)
			return e
		})
	case "optout":
		msg := &providertypes.MsgOptOut{ProviderAddr: w.pool.ids[op.i("v")].oper, ConsumerId: op.s("c"), Signer: p.signerOf(op.i("signer"))}
		err = w.atomically(func(ctx sdk.Context) error {
			if e := msg.ValidateBasic(); e != nil {
				return e
			}
			_, e := w.msg.OptOut(ctx, msg)
			return e
		})
	case "assign":
		msg := &providertypes.MsgAssignConsumerKey{ProviderAddr: w.pool.ids[op.i("v")].oper, ConsumerId: op.s("c"), ConsumerKey: p.keyJSON(op.i("key")), Signer: p.signerOf(op.i("signer"))}
		err = w.atomically(func(ctx sdk.Context) error {
			if e := msg.ValidateBasic(); e != nil {
				return e
			}
			_, e := w.msg.AssignConsumerKey(ctx, msg)
			return e
		})
	case "commission":
		msg := &providertypes.MsgSetConsumerCommissionRate{ProviderAddr: w.pool.ids[op.i("v")].oper, ConsumerId: op.s("c"), Rate: fracDec(op.s("rate")), Signer: p.signerOf(op.i("signer"))}
		err = w.atomically(func(ctx sdk.Context) error {
			if e := msg.ValidateBasic(); e != nil {
				return e
			}
			_, e := w.msg.SetConsumerCommissionRate(ctx, msg)
			return e
		})
	case "begin":
		w.advance(op.i("dh"), time.Duration(op.i("dt")))
		if rep := p.replicaDigests(func(ctx sdk.Context) string { return fmt.Sprint(w.mod.BeginBlock(ctx) != nil) }); rep != "" {
			extra = append(extra, "rep", rep)
		}
		err = p.guard(func() error { return w.mod.BeginBlock(w.ctx) })
	case "end":
		var ups []abci.ValidatorUpdate
		if rep := p.replicaDigests(func(ctx sdk.Context) string {
			u, e := w.mod.EndBlock(ctx)
			return fmt.Sprint(w.pool.fmtUpdates(u), e != nil)
		}); rep != "" {
			extra = append(extra, "rep", rep)
		}
		err = p.guard(func() error {
			var e error
			ups, e = w.mod.EndBlock(w.ctx)
			return e
		})
		extra = append(extra, "valupd", w.pool.fmtUpdates(ups))
		// the staking views the provider keeper exposes to governance / mint (C15)
		var it []string
		_ = w.pk.IterateBondedValidatorsByPower(w.ctx, func(_ int64, v stakingtypes.ValidatorI) bool {
			it = append(it, fmt.Sprint(w.pool.byOper[v.GetOperator()]))
			return false
		})
		tot, _ := w.pk.TotalBondedTokens(w.ctx)
		ratio, _ := w.pk.BondedRatio(w.ctx)
		sup, _ := w.stk.StakingTokenSupply(w.ctx)
		extra = append(extra, "viter", strings.Join(it, ","), "vtotal", tot.String(), "vratio", ratio.String(), "supply", sup.String())
	case "chantry", "chaninit":
		err = p.doChanOpen(op, &extra)
	case "chanconfirm":
		err = w.atomically(func(ctx sdk.Context) error {
			// core IBC marks the channel OPEN before invoking the callback
			r, ok := w.chk.rec(ctx, ccv.ProviderPortID, op.s("ch"))
			if !ok {
				return fmt.Errorf("no channel")
			}
			r.State = int(channeltypes.OPEN)
			w.chk.setRec(ctx, ccv.ProviderPortID, op.s("ch"), r)
			return w.mod.OnChanOpenConfirm(ctx, ccv.ProviderPortID, op.s("ch"))
		})
	case "recvslash":
		err = p.doRecvSlash(op, &extra)
	case "ackerr", "ackok":
		pkt := channeltypes.Packet{SourcePort: ccv.ProviderPortID, SourceChannel: op.s("ch"), Sequence: uint64(op.i("seq"))}
		ack := channeltypes.NewResultAcknowledgement([]byte{1})
		if op.name == "ackerr" {
			ack = ccv.NewErrorAcknowledgementWithLog(w.ctx, fmt.Errorf("boom"))
		}
		err = w.atomically(func(ctx sdk.Context) error {
			return w.mod.OnAcknowledgementPacket(ctx, "", pkt, ack.Acknowledgement(), nil)
		})
	case "timeout":
		pkt := channeltypes.Packet{SourcePort: ccv.ProviderPortID, SourceChannel: op.s("ch"), Sequence: uint64(op.i("seq"))}
		err = w.atomically(func(ctx sdk.Context) error {
			if e := w.mod.OnTimeoutPacket(ctx, "", pkt, nil); e != nil {
				return e
			}
			// core IBC closes an ORDERED channel on timeout
			if r, ok := w.chk.rec(ctx, ccv.ProviderPortID, op.s("ch")); ok {
				r.State = int(channeltypes.CLOSED)
				w.chk.setRec(ctx, ccv.ProviderPortID, op.s("ch"), r)
			}
			return nil
		})
	default:
		if !p.doExtra(op, &err, &extra) {
			panic("unknown op " + op.name)
		}
	}
	res := errClass(err)
	kv := append([]any{"res", res}, extra...)
	if err != nil && debugWhy && (op.name == "begin" || op.name == "end") {
		m := err.Error()
		if len(m) > 160 {
			m = m[:160]
		}
		kv = append(kv, "why", strings.NewReplacer(" ", "_", "\n", "").Replace(m))
	}
	if eff := w.env.takeEffects(w.ctx); len(eff) > 0 {
		kv = append(kv, "effects", strings.ReplaceAll(strings.Join(eff, "|"), " ", "_"))
	}
	sentNow := w.chk.takeSent(w.ctx)
	if len(sentNow) > 0 {
		kv = append(kv, "sent", p.fmtSent(sentNow))
		p.sentLog = append(p.sentLog, sentNow...)
	}
	if op.name == "end" {
		p.twoChainRecord(sentNow)
	}
	p.t.obs("r", kv...)
	p.emitState()
}

// extension point for further ops (evidence, rewards, ...) registered by other files
var extraOps = map[string]func(p *provRunner, op Op, extra *[]any) error{}

func (p *provRunner) doExtra(op Op, err *error, extra *[]any) bool {
	f, ok := extraOps[op.name]
	if !ok {
		return false
	}
	*err = f(p, op, extra)
	return true
}

func (p *provRunner) guard(f func() error) (err error) {
	defer func() {
		if r := recover(); r != nil {
			err = fmt.Errorf("panic: %v", r)
		}
	}()
	return f()
}

func splitNE(s string) []string {
	if s == "" {
		return nil
	}
	return strings.Split(s, ",")
}

func (p *provRunner) fmtSent(sent []SentPacket) string {
	var out []string
	for _, s := range sent {
		var d ccv.ValidatorSetChangePacketData
		if err := ccv.ModuleCdc.UnmarshalJSON(s.Data, &d); err != nil {
			out = append(out, fmt.Sprintf("%s/%d/undecodable", s.Channel, s.Seq))
			continue
		}
		acks := make([]string, len(d.SlashAcks))
		for i, a := range d.SlashAcks {
			acks[i] = p.ackKey(a)
		}
		out = append(out, fmt.Sprintf("%s/%d/%d/%s/%s", s.Channel, s.Seq, d.ValsetUpdateId, strings.ReplaceAll(p.w.pool.fmtUpdates(d.ValidatorUpdates), ",", "+"), strings.Join(acks, "+")))
	}
	return strings.Join(out, ";")
}

// key id of a bech32 consumer consensus address (slash acks are addresses)
func (p *provRunner) ackKey(bech string) string {
	a, err := sdk.ConsAddressFromBech32(bech)
	if err != nil {
		return "?"
	}
	return strconv.Itoa(int(p.vidOfCons(a)))
}

// ---------------------------------------------------------------------------------------------
// state snapshot through the typed getters

func (p *provRunner) fmtValset(vs []providertypes.ConsensusValidator) string {
	out := make([]string, len(vs))
	for i, v := range vs {
		k := int64(-1)
		if v.PublicKey != nil {
			k = int64(p.w.pool.byPkString[v.PublicKey.String()])
		}
		out[i] = fmt.Sprintf("%d:%d:%d:%d", p.vidOfCons(v.ProviderConsAddr), k, v.Power, v.JoinHeight)
	}
	return strings.Join(out, ",")
}

func fmtInfr(ip providertypes.InfractionParameters) string {
	f := func(s *providertypes.SlashJailParameters) string {
		if s == nil {
			return "nil"
		}
		t := 0
		if s.Tombstone {
			t = 1
		}
		return fmt.Sprintf("%s:%d:%d", s.SlashFraction.String(), int64(s.JailDuration), t)
	}
	return f(ip.DoubleSign) + "/" + f(ip.Downtime)
}

func (p *provRunner) snapshotConsumer(ctx sdk.Context, id string) map[string]string {
	k := p.w.pk
	m := map[string]string{}
	m["phase"] = strconv.Itoa(int(k.GetConsumerPhase(ctx, id)))
	if o, err := k.GetConsumerOwnerAddress(ctx, id); err == nil {
		m["owner"] = p.w.userName(o)
	} else {
		m["owner"] = "-"
	}
	if c, err := k.GetConsumerChainId(ctx, id); err == nil {
		m["chain"] = c
	} else {
		m["chain"] = "-"
	}
	if ip, err := k.GetConsumerInitializationParameters(ctx, id); err == nil {
		m["spawn"] = fmt.Sprint(p.ns(ip.SpawnTime))
		m["conn"] = ip.ConnectionId
		m["initrev"] = fmt.Sprint(ip.InitialHeight.RevisionNumber)
	} else {
		m["spawn"], m["conn"], m["initrev"] = "-", "-", "-"
	}
	if ps, err := k.GetConsumerPowerShapingParameters(ctx, id); err == nil {
		ia := 0
		if ps.AllowInactiveVals {
			ia = 1
		}
		m["ps"] = fmt.Sprintf("%d/%d/%d/%d/%d", ps.Top_N, ps.ValidatorSetCap, ps.ValidatorsPowerCap, ps.MinStake, ia)
		// the lists as recorded in the parameters themselves (the index stores are printed separately)
		rec := func(as []string) string {
			var out []int64
			for _, a := range as {
				if ca, err := sdk.ConsAddressFromBech32(a); err == nil {
					out = append(out, p.vidOfCons(ca))
				}
			}
			sort.Slice(out, func(a, b int) bool { return out[a] < out[b] })
			return joinInts(out)
		}
		m["pslists"] = rec(ps.Allowlist) + "|" + rec(ps.Denylist) + "|" + rec(ps.Prioritylist)
	} else {
		m["ps"], m["pslists"] = "-", "-"
	}
	lst := func(as []providertypes.ProviderConsAddress) string {
		var out []int64
		for _, a := range as {
			out = append(out, p.vidOfCons(a.Address))
		}
		sort.Slice(out, func(a, b int) bool { return out[a] < out[b] })
		return joinInts(out)
	}
	m["allow"] = lst(k.GetAllowList(ctx, id))
	m["deny"] = lst(k.GetDenyList(ctx, id))
	m["prio"] = lst(k.GetPriorityList(ctx, id))
	m["optin"] = lst(k.GetAllOptedIn(ctx, id))
	if vs, err := k.GetConsumerValSet(ctx, id); err == nil {
		m["valset"] = p.fmtValset(vs)
	}
	if c, ok := k.GetConsumerClientId(ctx, id); ok {
		m["client"] = c
	} else {
		m["client"] = "-"
	}
	if c, ok := k.GetConsumerIdToChannelId(ctx, id); ok {
		m["channel"] = c
	} else {
		m["channel"] = "-"
	}
	if t, err := k.GetConsumerRemovalTime(ctx, id); err == nil {
		m["removal"] = fmt.Sprint(p.ns(t))
	} else {
		m["removal"] = "-"
	}
	if mp, ok := k.GetMinimumPowerInTopN(ctx, id); ok {
		m["minpow"] = fmt.Sprint(mp)
	} else {
		m["minpow"] = "-"
	}
	var pend []string
	for _, pk := range k.GetPendingVSCPackets(ctx, id) {
		pacc := make([]string, len(pk.SlashAcks))
		for i, a := range pk.SlashAcks {
			pacc[i] = p.ackKey(a)
		}
		pend = append(pend, fmt.Sprintf("%d/%s/%s", pk.ValsetUpdateId, strings.ReplaceAll(p.w.pool.fmtUpdates(pk.ValidatorUpdates), ",", "+"), strings.Join(pacc, "+")))
	}
	m["pend"] = strings.Join(pend, ";")
	var acks []string
	for _, a := range k.GetSlashAcks(ctx, id) {
		acks = append(acks, p.ackKey(a))
	}
	m["acks"] = strings.Join(acks, ",")
	// key assignment spaces
	var ka, ba, pr []string
	for _, e := range k.GetAllValidatorConsumerPubKeys(ctx, &id) {
		ka = append(ka, fmt.Sprintf("%d:%d", p.vidOfCons(e.ProviderAddr), p.w.pool.byPkString[e.ConsumerKey.String()]))
	}
	for _, e := range k.GetAllValidatorsByConsumerAddr(ctx, &id) {
		ba = append(ba, fmt.Sprintf("%d:%d", p.vidOfCons(e.ConsumerAddr), p.vidOfCons(e.ProviderAddr)))
	}
	for _, e := range k.GetAllConsumerAddrsToPrune(ctx, id) {
		var ks []string
		for _, a := range e.ConsumerAddrs.Addresses {
			ks = append(ks, fmt.Sprint(p.vidOfCons(a)))
		}
		pr = append(pr, fmt.Sprintf("%d:%s", p.ns(e.PruneTs), strings.Join(ks, "+")))
	}
	sort.Strings(ka)
	sort.Strings(ba)
	m["ka"], m["byaddr"], m["prune"] = strings.Join(ka, ","), strings.Join(ba, ","), strings.Join(pr, ",")
	if ip, err := k.GetInfractionParameters(ctx, id); err == nil {
		m["infr"] = fmtInfr(ip)
	} else {
		m["infr"] = "-"
	}
	if k.HasQueuedInfractionParameters(ctx, id) {
		ip, _ := k.GetQueuedInfractionParameters(ctx, id)
		m["qinfr"] = fmtInfr(ip)
	} else {
		m["qinfr"] = "-"
	}
	if h, ok := k.GetInitChainHeight(ctx, id); ok {
		m["inith"] = fmt.Sprint(h)
	} else {
		m["inith"] = "-"
	}
	if g, ok := k.GetConsumerGenesis(ctx, id); ok {
		pre := 0
		if g.PreCCV {
			pre = 1
		}
		m["genesis"] = fmt.Sprintf("%s/%d/%s", strings.ReplaceAll(p.w.pool.fmtUpdates(g.Provider.InitialValSet), ",", "+"), pre, g.ConnectionId)
	} else {
		m["genesis"] = "-"
	}
	m["evmin"] = fmt.Sprint(k.GetEquivocationEvidenceMinHeight(ctx, id))
	var cr []string
	for _, a := range k.GetAllCommissionRateValidators(ctx, id) {
		r, _ := k.GetConsumerCommissionRate(ctx, id, a)
		cr = append(cr, fmt.Sprintf("%d:%s", p.vidOfCons(a.Address), r.String()))
	}
	sort.Strings(cr)
	m["commission"] = strings.Join(cr, ",")
	p.snapshotAlloc(ctx, id, m)
	return m
}

func (p *provRunner) fmtQueue(prefix byte, get func(sdk.Context, time.Time) (providertypes.ConsumerIds, error)) string {
	ctx := p.w.ctx
	it := ctx.KVStore(p.w.pkey).Iterator([]byte{prefix}, []byte{prefix + 1})
	defer it.Close()
	var out []string
	for ; it.Valid(); it.Next() {
		ts, err := providertypes.ParseTime(prefix, it.Key())
		if err != nil {
			out = append(out, "unparsable")
			continue
		}
		ids, _ := get(ctx, ts)
		out = append(out, fmt.Sprintf("%d:%s", p.ns(ts), strings.Join(ids.Ids, "+")))
	}
	return strings.Join(out, ",")
}

func (p *provRunner) snapshotGlobal(ctx sdk.Context) map[string]string {
	k := p.w.pk
	m := map[string]string{}
	id, _ := k.GetConsumerId(ctx)
	m["nextid"] = fmt.Sprint(id)
	m["vscid"] = fmt.Sprint(k.GetValidatorSetUpdateId(ctx))
	m["meter"] = k.GetSlashMeter(ctx).String()
	m["cand"] = fmt.Sprint(p.ns(k.GetSlashMeterReplenishTimeCandidate(ctx)))
	m["spawnq"] = p.fmtQueue(providertypes.SpawnTimeToConsumerIdsKeyPrefix(), k.GetConsumersToBeLaunched)
	m["removeq"] = p.fmtQueue(providertypes.RemovalTimeToConsumerIdsKeyPrefix(), k.GetConsumersToBeRemoved)
	m["infrq"] = p.fmtQueue(providertypes.InfractionScheduledTimeToConsumerIdsKeyPrefix(), k.GetFromInfractionUpdateSchedule)
	if vs, err := k.GetLastProviderConsensusValSet(ctx); err == nil {
		m["lastprov"] = p.fmtValset(vs)
	}
	var v2h []string
	for _, e := range k.GetAllValsetUpdateBlockHeights(ctx) {
		v2h = append(v2h, fmt.Sprintf("%d:%d", e.ValsetUpdateId, e.Height))
	}
	m["vsc2h"] = strings.Join(v2h, ",")
	var c2c []string
	for _, e := range k.GetAllChannelToConsumers(ctx) {
		c2c = append(c2c, e.ChannelId+":"+e.ConsumerId)
	}
	m["chan2c"] = strings.Join(c2c, ",")
	// reverse client index for all clients the environment knows
	var cl2c []string
	it := ctx.KVStore(p.w.envKey).Iterator([]byte("client/"), []byte("client0"))
	for ; it.Valid(); it.Next() {
		cid := strings.TrimPrefix(string(it.Key()), "client/")
		if c, ok := k.GetClientIdToConsumerId(ctx, cid); ok {
			cl2c = append(cl2c, cid+":"+c)
		}
	}
	it.Close()
	m["client2c"] = strings.Join(cl2c, ",")
	m["denoms"] = strings.Join(k.GetAllConsumerRewardDenoms(ctx), ",")
	pp := k.GetParams(ctx)
	m["params"] = fmt.Sprintf("%d/%d", pp.MaxProviderConsensusValidators, pp.BlocksPerEpoch)
	var nc int
	p.w.env.get(ctx, "ibc/nextclient", &nc)
	m["nextclient"] = fmt.Sprint(nc)
	m["h"] = fmt.Sprint(ctx.BlockHeight())
	m["now"] = fmt.Sprint(p.ns(ctx.BlockTime()))
	// staking view
	var st []string
	for _, r := range p.w.stk.allRecs(ctx) {
		j := 0
		if r.Jailed {
			j = 1
		}
		tb := 0
		if r.Tombstoned {
			tb = 1
		}
		ju := r.JailedUntil - t0.UnixNano()*b2i(r.JailedUntil != 0)
		if r.JailedUntil == 9223372036854775807 {
			ju = r.JailedUntil
		}
		st = append(st, fmt.Sprintf("%d:%d:%d:%d:%d:%d:%d", r.ID, r.Tokens, r.Status, j, r.LastPower, tb, ju))
	}
	m["stk"] = strings.Join(st, ",")
	p.snapshotRewards(ctx, m)
	p.snapshotUnbonding(ctx, m)
	var tax string
	if !p.w.env.get(ctx, "distr/tax", &tax) {
		tax = "0.020000000000000000"
	}
	m["tax"] = tax
	m["rparams"] = fmt.Sprintf("%d", pp.NumberOfEpochsToStartReceivingRewards)
	var bonded []string
	vals, _ := p.w.stk.GetBondedValidatorsByPower(ctx)
	for _, v := range vals {
		bonded = append(bonded, fmt.Sprint(p.w.pool.byOper[v.OperatorAddress]))
	}
	m["bonded"] = strings.Join(bonded, ",")
	return m
}

func b2i(b bool) int64 {
	if b {
		return 1
	}
	return 0
}

func (p *provRunner) emitState() {
	ctx := p.w.ctx
	g := p.snapshotGlobal(ctx)
	var kv []any
	keys := make([]string, 0, len(g))
	for k := range g {
		keys = append(keys, k)
	}
	sort.Strings(keys)
	for _, k := range keys {
		if p.prevG[k] != g[k] {
			kv = append(kv, k, g[k])
		}
	}
	p.prevG = g
	if len(kv) > 0 {
		p.t.obs("g", kv...)
	}
	n, _ := strconv.Atoi(g["nextid"])
	for i := 0; i < n; i++ {
		id := strconv.Itoa(i)
		s := p.snapshotConsumer(ctx, id)
		prev := p.prev[id]
		var kv []any
		keys := make([]string, 0, len(s))
		for k := range s {
			keys = append(keys, k)
		}
		sort.Strings(keys)
		for _, k := range keys {
			if prev == nil || prev[k] != s[k] {
				kv = append(kv, k, s[k])
			}
		}
		if s["phase"] == "4" && (prev == nil || prev["phase"] != "4") {
			if p.firstDue == nil {
				p.firstDue = map[string]int64{}
			}
			if _, ok := p.firstDue[id]; !ok {
				if t, err := strconv.ParseInt(s["removal"], 10, 64); err == nil {
					p.firstDue[id] = t
				}
			}
		}
		p.prev[id] = s
		if len(kv) > 0 {
			p.t.obs("st", append([]any{"c", id}, kv...)...)
		}
	}
	if p.withKeys {
		raw := p.w.dumpStore(ctx)
		if p.prevRaw != nil {
			if d := diffKeys(p.prevRaw, raw); len(d) > 0 {
				p.t.obs("keys", "changed", strings.Join(d, ","))
			}
		}
		p.prevRaw = raw
	}
}

// ---------------------------------------------------------------------------------------------
// IBC ops

func (p *provRunner) doChanOpen(op Op, extra *[]any) error {
	w := p.w
	order := channeltypes.ORDERED
	if op.s("order") == "UNORDERED" {
		order = channeltypes.UNORDERED
	}
	hops := splitNE(op.s("hops"))
	ver := strings.ReplaceAll(op.s("ver"), "_", " ")
	cp := channeltypes.Counterparty{PortId: op.s("cport"), ChannelId: "channel-77"}
	if op.name == "chaninit" {
		return w.atomically(func(ctx sdk.Context) error {
			_, e := w.mod.OnChanOpenInit(ctx, order, hops, op.s("port"), op.s("ch"), cp, ver)
			return e
		})
	}
	return w.atomically(func(ctx sdk.Context) error {
		md, e := w.mod.OnChanOpenTry(ctx, order, hops, op.s("port"), op.s("ch"), cp, ver)
		if e != nil {
			return e
		}
		*extra = append(*extra, "mdlen", len(md))
		// core IBC stores the channel in TRYOPEN after a successful callback
		w.chk.setRec(ctx, op.s("port"), op.s("ch"), ChanRec{State: int(channeltypes.TRYOPEN), Ordered: order == channeltypes.ORDERED,
			Hops: hops, Port: op.s("port"), CpPort: cp.PortId, CpChan: cp.ChannelId, Version: op.s("ver"), NextSeq: 1})
		return nil
	})
}

func (p *provRunner) doRecvSlash(op Op, extra *[]any) error {
	w := p.w
	inf := stakingtypes.Infraction_INFRACTION_DOWNTIME
	switch op.s("inf") {
	case "ds":
		inf = stakingtypes.Infraction_INFRACTION_DOUBLE_SIGN
	case "un":
		inf = stakingtypes.Infraction_INFRACTION_UNSPECIFIED
	}
	addr := w.pool.ids[op.i("key")].consAddr
	data := ccv.NewSlashPacketData(abci.Validator{Address: addr, Power: op.i("power")}, uint64(op.i("vsc")), inf)
	cpd := ccv.ConsumerPacketData{Type: ccv.SlashPacket, Data: &ccv.ConsumerPacketData_SlashPacketData{SlashPacketData: data}}
	bz := cpd.GetBytes()
	if op.s("enc") == "garbage" {
		bz = []byte("{garbage")
	}
	pkt := channeltypes.NewPacket(bz, uint64(op.i("seq")), ccv.ConsumerPortID, "channel-77", ccv.ProviderPortID, op.s("ch"), clienttypes.Height{}, 0)
	// ibc-go: OnRecvPacket runs in a cache context whose writes are kept only for a successful ack
	cctx, write := w.ctx.CacheContext()
	var ackStr string
	err := p.guard(func() error {
		ack := w.mod.OnRecvPacket(cctx, "", pkt, nil)
		if ack == nil {
			ackStr = "nil"
			return nil
		}
		if ack.Success() {
			write()
			ra := ack.(channeltypes.Acknowledgement)
			ackStr = fmt.Sprintf("res%d", ra.GetResult()[0])
		} else {
			ackStr = "error"
		}
		return nil
	})
	*extra = append(*extra, "ack", ackStr)
	return err
}

func b64(bz []byte) string {
	return stdB64(bz)
}

var _ = cryptocodec.RegisterInterfaces

// replicas of one block hook (C18): the hook is run `replicas` times on throw-away branches of the
// current state; every replica must return the same value, write the same bytes to the provider
// store, emit the same packet bytes and make the same calls to the environment.  Returns "" when
// switched off, else "same" or a description of the first difference.
var replicas int

func (p *provRunner) replicaDigests(f func(ctx sdk.Context) string) (out string) {
	if replicas == 0 || len(p.w.env.fail) > 0 {
		return ""
	}
	defer func() {
		if r := recover(); r != nil {
			out = "" // the real run reports the panic
		}
	}()
	w := p.w
	var first map[string]string
	for i := 0; i < replicas; i++ {
		cctx, _ := w.ctx.CacheContext()
		ret := f(cctx)
		d := w.dumpStore(cctx)
		d["~ret"] = ret
		for j, sp := range w.chk.takeSent(cctx) {
			d[fmt.Sprintf("~sent%d", j)] = fmt.Sprintf("%s/%s/%d/%x/%d", sp.Port, sp.Channel, sp.Seq, sp.Data, sp.Timeout)
		}
		d["~effects"] = strings.Join(w.env.takeEffects(cctx), "|")
		if first == nil {
			first = d
			continue
		}
		if diff := diffKeys(first, d); len(diff) > 0 {
			k := diff[0]
			a, b := first[k], d[k]
			if len(a) > 120 {
				a = a[:120]
			}
			if len(b) > 120 {
				b = b[:120]
			}
			return strings.NewReplacer(" ", "_").Replace(fmt.Sprintf("differ:key=%s:%s:vs:%s", k, a, b))
		}
	}
	return "same"
}
