package main

// Scripted environment keepers ("Tier K").  All mutable environment state lives in the `env` KV
// store of the same multistore as the provider store, so that CacheContext roll-backs in the code
// under test roll the environment back exactly as the real modules would.

import (
	"github.com/cosmos/cosmos-sdk/runtime"
	math2 "math"
	"context"
	"encoding/json"
	"errors"
	"fmt"
	"sort"
	"time"

	transfertypes "github.com/cosmos/ibc-go/v10/modules/apps/transfer/types"
	clienttypes "github.com/cosmos/ibc-go/v10/modules/core/02-client/types"
	conntypes "github.com/cosmos/ibc-go/v10/modules/core/03-connection/types"
	channeltypes "github.com/cosmos/ibc-go/v10/modules/core/04-channel/types"
	ibcexported "github.com/cosmos/ibc-go/v10/modules/core/exported"
	ibctmtypes "github.com/cosmos/ibc-go/v10/modules/light-clients/07-tendermint"

	addresscodec "cosmossdk.io/core/address"
	"cosmossdk.io/math"
	storetypes "cosmossdk.io/store/types"

	"github.com/cosmos/cosmos-sdk/codec/address"
	sdk "github.com/cosmos/cosmos-sdk/types"
	authtypes "github.com/cosmos/cosmos-sdk/x/auth/types"
	slashingtypes "github.com/cosmos/cosmos-sdk/x/slashing/types"
	stakingtypes "github.com/cosmos/cosmos-sdk/x/staking/types"

	abci "github.com/cometbft/cometbft/abci/types"
	cmtproto "github.com/cometbft/cometbft/proto/tendermint/types"

	testcrypto "github.com/cosmos/interchain-security/v7/testutil/crypto"
)

const powerReduction = 1000000

// ---------------------------------------------------------------------------------------------
// identities: a static pool; validator i uses identity i, consumer key k uses identity k
// (key ids < nValPool are the provider keys of the validators with the same number)

type Ident struct {
	id       int
	ci       *testcrypto.CryptoIdentity
	oper     string // bech32 valoper
	consAddr sdk.ConsAddress
}

type Pool struct {
	ids        []*Ident
	byCons     map[string]int // string(consAddr bytes) -> id
	byOper     map[string]int
	byPkString map[string]int // tmproto PublicKey.String() -> id
}

func NewPool(n int) *Pool {
	p := &Pool{byCons: map[string]int{}, byOper: map[string]int{}, byPkString: map[string]int{}}
	for i := 0; i < n; i++ {
		ci := testcrypto.NewCryptoIdentityFromIntSeed(7000 + i)
		id := &Ident{id: i, ci: ci, oper: ci.SDKValOpAddressString(), consAddr: ci.SDKValConsAddress()}
		p.ids = append(p.ids, id)
		p.byCons[string(id.consAddr)] = i
		p.byOper[id.oper] = i
		pk := ci.TMProtoCryptoPublicKey()
		p.byPkString[pk.String()] = i
	}
	return p
}

// keyOrder returns key ids sorted ascending by PublicKey.String() (the order AccumulateChanges uses)
func (p *Pool) keyOrder() []int {
	out := make([]int, len(p.ids))
	for i := range out {
		out[i] = i
	}
	sort.Slice(out, func(a, b int) bool {
		pa := p.ids[out[a]].ci.TMProtoCryptoPublicKey()
		pb := p.ids[out[b]].ci.TMProtoCryptoPublicKey()
		return pa.String() < pb.String()
	})
	return out
}

// operOrder returns validator ids sorted ascending by operator address bytes (staking tie order)
func (p *Pool) operOrder(n int) []int {
	out := make([]int, n)
	for i := range out {
		out[i] = i
	}
	sort.Slice(out, func(a, b int) bool {
		return string(p.ids[out[a]].ci.SDKValOpAddress()) < string(p.ids[out[b]].ci.SDKValOpAddress())
	})
	return out
}

// ---------------------------------------------------------------------------------------------
// env store

type Env struct {
	clientKey *storetypes.KVStoreKey // store holding the real light-client stores, if mounted
	key  *storetypes.KVStoreKey
	pool *Pool
	// failure injection: name of the call to fail -> countdown (1 = fail the next call)
	fail map[string]int
	// calls recorded (for C19 dry runs)
	calls      []string
	recordCall bool
}

func (e *Env) hit(name string) error {
	if e.recordCall {
		e.calls = append(e.calls, name)
	}
	if n, ok := e.fail[name]; ok {
		if n <= 1 {
			delete(e.fail, name)
			return fmt.Errorf("injected failure in %s", name)
		}
		e.fail[name] = n - 1
	}
	return nil
}

func (e *Env) store(ctx context.Context) storetypes.KVStore {
	return sdk.UnwrapSDKContext(ctx).KVStore(e.key)
}

func (e *Env) get(ctx context.Context, k string, v any) bool {
	bz := e.store(ctx).Get([]byte(k))
	if bz == nil {
		return false
	}
	if err := json.Unmarshal(bz, v); err != nil {
		panic(err)
	}
	return true
}

func (e *Env) set(ctx context.Context, k string, v any) {
	bz, err := json.Marshal(v)
	if err != nil {
		panic(err)
	}
	e.store(ctx).Set([]byte(k), bz)
}

func (e *Env) del(ctx context.Context, k string) { e.store(ctx).Delete([]byte(k)) }

// ---------------------------------------------------------------------------------------------
// staking

type UBD struct {
	Amount     int64 `json:"a"`
	Completion int64 `json:"c"` // unix nanos
	OnHold     bool  `json:"h"`
}

type ValRec struct {
	ID          int   `json:"id"`
	Tokens      int64 `json:"t"`
	Status      int   `json:"s"` // 1 unbonded 2 unbonding 3 bonded (stakingtypes.BondStatus)
	Jailed      bool  `json:"j"`
	LastPower   int64 `json:"lp"` // 0 = no entry
	InIndex     bool  `json:"ix"` // present in the power index
	Tombstoned  bool  `json:"tb"`
	JailedUntil int64 `json:"ju"`
	UBDs        []UBD `json:"u"`
	REDs        []UBD `json:"r"`
	Slashed     int64 `json:"sl"` // cumulative tokens burned (observability)
	NSlash      int   `json:"ns"`
}

type StakingParams struct {
	MaxValidators uint32 `json:"mv"`
	UnbondingNs   int64  `json:"ub"`
	NVals         int    `json:"n"` // validators 0..NVals-1 may exist
}

type StakingK struct{ e *Env }

func vkey(id int) string { return fmt.Sprintf("val/%04d", id) }

func (s *StakingK) params(ctx context.Context) StakingParams {
	var p StakingParams
	s.e.get(ctx, "stk/params", &p)
	return p
}
func (s *StakingK) setParams(ctx context.Context, p StakingParams) { s.e.set(ctx, "stk/params", p) }

func (s *StakingK) rec(ctx context.Context, id int) (ValRec, bool) {
	var r ValRec
	ok := s.e.get(ctx, vkey(id), &r)
	return r, ok
}
func (s *StakingK) setRec(ctx context.Context, r ValRec) { s.e.set(ctx, vkey(r.ID), r) }

func (s *StakingK) allRecs(ctx context.Context) []ValRec {
	var out []ValRec
	it := storetypes.KVStorePrefixIterator(s.e.store(ctx), []byte("val/"))
	defer it.Close()
	for ; it.Valid(); it.Next() {
		var r ValRec
		if err := json.Unmarshal(it.Value(), &r); err != nil {
			panic(err)
		}
		out = append(out, r)
	}
	return out
}

func (s *StakingK) toSDK(r ValRec) stakingtypes.Validator {
	id := s.e.pool.ids[r.ID]
	v, err := stakingtypes.NewValidator(id.oper, id.ci.ConsensusSDKPubKey(), stakingtypes.Description{Moniker: fmt.Sprintf("v%d", r.ID)})
	if err != nil {
		panic(err)
	}
	v.Tokens = math.NewInt(r.Tokens)
	v.DelegatorShares = math.LegacyNewDec(r.Tokens)
	v.Status = stakingtypes.BondStatus(r.Status)
	v.Jailed = r.Jailed
	v.Commission = stakingtypes.NewCommission(math.LegacyNewDecWithPrec(1, 1), math.LegacyOneDec(), math.LegacyOneDec())
	return v
}

func powerOf(tokens int64) int64 { return tokens / powerReduction }

// power-index order: power desc, operator address bytes asc
func (s *StakingK) indexOrder(recs []ValRec) []ValRec {
	var in []ValRec
	for _, r := range recs {
		if r.InIndex {
			in = append(in, r)
		}
	}
	sort.SliceStable(in, func(a, b int) bool {
		pa, pb := powerOf(in[a].Tokens), powerOf(in[b].Tokens)
		if pa != pb {
			return pa > pb
		}
		return string(s.e.pool.ids[in[a].ID].ci.SDKValOpAddress()) < string(s.e.pool.ids[in[b].ID].ci.SDKValOpAddress())
	})
	return in
}

// EndBlock of the scripted staking module: recompute the bonded set and last powers
func (s *StakingK) EndBlock(ctx context.Context) {
	p := s.params(ctx)
	recs := s.allRecs(ctx)
	order := s.indexOrder(recs)
	bonded := map[int]bool{}
	n := 0
	for _, r := range order {
		if n >= int(p.MaxValidators) {
			break
		}
		if powerOf(r.Tokens) == 0 {
			break
		}
		bonded[r.ID] = true
		n++
	}
	for _, r := range recs {
		if bonded[r.ID] {
			r.Status = int(stakingtypes.Bonded)
			r.LastPower = powerOf(r.Tokens)
		} else {
			if r.Status == int(stakingtypes.Bonded) {
				r.Status = int(stakingtypes.Unbonding)
			}
			r.LastPower = 0
		}
		s.setRec(ctx, r)
	}
}

func (s *StakingK) GetBondedValidatorsByPower(ctx context.Context) ([]stakingtypes.Validator, error) {
	if err := s.e.hit("staking.GetBondedValidatorsByPower"); err != nil {
		return nil, err
	}
	p := s.params(ctx)
	var out []stakingtypes.Validator
	for _, r := range s.indexOrder(s.allRecs(ctx)) {
		if len(out) >= int(p.MaxValidators) {
			break
		}
		if r.Status == int(stakingtypes.Bonded) {
			out = append(out, s.toSDK(r))
		}
	}
	return out, nil
}

func (s *StakingK) IterateBondedValidatorsByPower(ctx context.Context, f func(index int64, validator stakingtypes.ValidatorI) (stop bool)) error {
	vals, err := s.GetBondedValidatorsByPower(ctx)
	if err != nil {
		return err
	}
	for i, v := range vals {
		if f(int64(i), v) {
			break
		}
	}
	return nil
}

func (s *StakingK) idByOper(addr sdk.ValAddress) (int, bool) {
	id, ok := s.e.pool.byOper[sdk.ValAddress(addr).String()]
	return id, ok
}

func (s *StakingK) GetValidator(ctx context.Context, addr sdk.ValAddress) (stakingtypes.Validator, error) {
	id, ok := s.idByOper(addr)
	if ok {
		if r, ok := s.rec(ctx, id); ok {
			return s.toSDK(r), nil
		}
	}
	return stakingtypes.Validator{}, stakingtypes.ErrNoValidatorFound
}

func (s *StakingK) Validator(ctx context.Context, addr sdk.ValAddress) (stakingtypes.ValidatorI, error) {
	return s.GetValidator(ctx, addr)
}

func (s *StakingK) GetValidatorByConsAddr(ctx context.Context, consAddr sdk.ConsAddress) (stakingtypes.Validator, error) {
	if err := s.e.hit("staking.GetValidatorByConsAddr"); err != nil {
		return stakingtypes.Validator{}, err
	}
	id, ok := s.e.pool.byCons[string(consAddr)]
	if ok {
		if r, ok := s.rec(ctx, id); ok {
			return s.toSDK(r), nil
		}
	}
	return stakingtypes.Validator{}, stakingtypes.ErrNoValidatorFound
}

func (s *StakingK) ValidatorByConsAddr(ctx context.Context, consAddr sdk.ConsAddress) (stakingtypes.ValidatorI, error) {
	return s.GetValidatorByConsAddr(ctx, consAddr)
}

func (s *StakingK) GetLastValidatorPower(ctx context.Context, operator sdk.ValAddress) (int64, error) {
	if err := s.e.hit("staking.GetLastValidatorPower"); err != nil {
		return 0, err
	}
	id, ok := s.idByOper(operator)
	if !ok {
		return 0, nil
	}
	r, _ := s.rec(ctx, id)
	return r.LastPower, nil
}

func (s *StakingK) GetLastTotalPower(ctx context.Context) (math.Int, error) {
	t := int64(0)
	for _, r := range s.allRecs(ctx) {
		t += r.LastPower
	}
	return math.NewInt(t), nil
}

func (s *StakingK) IterateLastValidatorPowers(ctx context.Context, cb func(addr sdk.ValAddress, power int64) (stop bool)) error {
	for _, r := range s.allRecs(ctx) {
		if r.LastPower > 0 {
			if cb(s.e.pool.ids[r.ID].ci.SDKValOpAddress(), r.LastPower) {
				break
			}
		}
	}
	return nil
}

func (s *StakingK) MaxValidators(ctx context.Context) (uint32, error) {
	if err := s.e.hit("staking.MaxValidators"); err != nil {
		return 0, err
	}
	return s.params(ctx).MaxValidators, nil
}

func (s *StakingK) UnbondingTime(ctx context.Context) (time.Duration, error) {
	if err := s.e.hit("staking.UnbondingTime"); err != nil {
		return 0, err
	}
	return time.Duration(s.params(ctx).UnbondingNs), nil
}

func (s *StakingK) PowerReduction(ctx context.Context) math.Int { return math.NewInt(powerReduction) }
func (s *StakingK) BondDenom(ctx context.Context) (string, error) {
	return "stake", nil
}
func (s *StakingK) MinCommissionRate(ctx context.Context) (math.LegacyDec, error) {
	return math.LegacyNewDecWithPrec(5, 2), nil
}

func (s *StakingK) Jail(ctx context.Context, consAddr sdk.ConsAddress) error {
	if err := s.e.hit("staking.Jail"); err != nil {
		return err
	}
	id, ok := s.e.pool.byCons[string(consAddr)]
	if !ok {
		return stakingtypes.ErrNoValidatorFound
	}
	r, ok := s.rec(ctx, id)
	if !ok {
		return stakingtypes.ErrNoValidatorFound
	}
	if r.Jailed {
		return fmt.Errorf("cannot jail already jailed validator")
	}
	r.Jailed = true
	r.InIndex = false
	s.setRec(ctx, r)
	s.e.logEffect(ctx, fmt.Sprintf("jail v=%d", id))
	return nil
}

func (s *StakingK) Unjail(ctx context.Context, consAddr sdk.ConsAddress) error {
	id, ok := s.e.pool.byCons[string(consAddr)]
	if !ok {
		return stakingtypes.ErrNoValidatorFound
	}
	r, _ := s.rec(ctx, id)
	r.Jailed = false
	r.InIndex = true
	s.setRec(ctx, r)
	return nil
}

func (s *StakingK) IsValidatorJailed(ctx context.Context, addr sdk.ConsAddress) (bool, error) {
	v, err := s.GetValidatorByConsAddr(ctx, addr)
	if err != nil {
		return false, err
	}
	return v.Jailed, nil
}

func (s *StakingK) SlashWithInfractionReason(ctx context.Context, consAddr sdk.ConsAddress, infractionHeight, power int64, slashFactor math.LegacyDec, infraction stakingtypes.Infraction) (math.Int, error) {
	if err := s.e.hit("staking.Slash"); err != nil {
		return math.ZeroInt(), err
	}
	id, ok := s.e.pool.byCons[string(consAddr)]
	if !ok {
		return math.ZeroInt(), stakingtypes.ErrNoValidatorFound
	}
	r, ok := s.rec(ctx, id)
	if !ok {
		return math.ZeroInt(), stakingtypes.ErrNoValidatorFound
	}
	if r.Status == int(stakingtypes.Unbonded) {
		panic("should not be slashing unbonded validator")
	}
	amount := math.NewInt(power).MulRaw(powerReduction)
	slashAmt := math.LegacyNewDecFromInt(amount).Mul(slashFactor).TruncateInt().Int64()
	if slashAmt > r.Tokens {
		slashAmt = r.Tokens
	}
	r.Tokens -= slashAmt
	r.Slashed += slashAmt
	r.NSlash++
	s.setRec(ctx, r)
	s.e.logEffect(ctx, fmt.Sprintf("slash v=%d h=%d power=%d frac=%s inf=%d", id, infractionHeight, power, slashFactor.String(), int(infraction)))
	return math.NewInt(slashAmt), nil
}

func (s *StakingK) Slash(ctx context.Context, consAddr sdk.ConsAddress, infractionHeight, power int64, slashFactor math.LegacyDec) (math.Int, error) {
	return s.SlashWithInfractionReason(ctx, consAddr, infractionHeight, power, slashFactor, stakingtypes.Infraction_INFRACTION_UNSPECIFIED)
}

func (s *StakingK) GetUnbondingDelegationsFromValidator(ctx context.Context, valAddr sdk.ValAddress) ([]stakingtypes.UnbondingDelegation, error) {
	id, ok := s.idByOper(valAddr)
	if !ok {
		return nil, nil
	}
	r, _ := s.rec(ctx, id)
	var out []stakingtypes.UnbondingDelegation
	for i, u := range r.UBDs {
		out = append(out, stakingtypes.UnbondingDelegation{
			DelegatorAddress: sdk.AccAddress(fmt.Sprintf("del%017d", i)).String(),
			ValidatorAddress: valAddr.String(),
			Entries: []stakingtypes.UnbondingDelegationEntry{{
				CreationHeight: 1, CompletionTime: time.Unix(0, u.Completion).UTC(),
				InitialBalance: math.NewInt(u.Amount), Balance: math.NewInt(u.Amount),
				UnbondingOnHoldRefCount: map[bool]int64{true: 1, false: 0}[u.OnHold],
			}},
		})
	}
	return out, nil
}

func (s *StakingK) GetRedelegationsFromSrcValidator(ctx context.Context, valAddr sdk.ValAddress) ([]stakingtypes.Redelegation, error) {
	id, ok := s.idByOper(valAddr)
	if !ok {
		return nil, nil
	}
	r, _ := s.rec(ctx, id)
	var out []stakingtypes.Redelegation
	for i, u := range r.REDs {
		out = append(out, stakingtypes.Redelegation{
			DelegatorAddress:    sdk.AccAddress(fmt.Sprintf("red%017d", i)).String(),
			ValidatorSrcAddress: valAddr.String(),
			ValidatorDstAddress: valAddr.String(),
			Entries: []stakingtypes.RedelegationEntry{{
				CreationHeight: 1, CompletionTime: time.Unix(0, u.Completion).UTC(),
				InitialBalance: math.NewInt(u.Amount), SharesDst: math.LegacyNewDec(u.Amount),
				UnbondingOnHoldRefCount: map[bool]int64{true: 1, false: 0}[u.OnHold],
			}},
		})
	}
	return out, nil
}

// SlashUnbondingDelegation / SlashRedelegation as x/staking computes the amount: every entry that
// started at or after the infraction height and is not matured (or is on hold) counts with
// slashFactor * InitialBalance, truncated.  Balances are not changed (the provider only calls them
// in a throw-away cached context to learn the amount).
func (s *StakingK) SlashUnbondingDelegation(ctx context.Context, ubd stakingtypes.UnbondingDelegation, infractionHeight int64, slashFactor math.LegacyDec) (math.Int, error) {
	s.e.logEffect(ctx, fmt.Sprintf("slashubd val=%d frac=%s", s.e.pool.byOper[ubd.ValidatorAddress], slashFactor.String()))
	now := sdk.UnwrapSDKContext(ctx).BlockTime()
	total := math.ZeroInt()
	for _, e := range ubd.Entries {
		if e.CreationHeight < infractionHeight {
			continue
		}
		if e.IsMature(now) && !e.OnHold() {
			continue
		}
		total = total.Add(slashFactor.MulInt(e.InitialBalance).TruncateInt())
	}
	return total, nil
}

func (s *StakingK) SlashRedelegation(ctx context.Context, srcValidator stakingtypes.Validator, redelegation stakingtypes.Redelegation, infractionHeight int64, slashFactor math.LegacyDec) (math.Int, error) {
	s.e.logEffect(ctx, fmt.Sprintf("slashred val=%d frac=%s", s.e.pool.byOper[redelegation.ValidatorSrcAddress], slashFactor.String()))
	now := sdk.UnwrapSDKContext(ctx).BlockTime()
	total := math.ZeroInt()
	for _, e := range redelegation.Entries {
		if e.CreationHeight < infractionHeight {
			continue
		}
		if e.IsMature(now) && !e.OnHold() {
			continue
		}
		total = total.Add(slashFactor.MulInt(e.InitialBalance).TruncateInt())
	}
	return total, nil
}

func (s *StakingK) StakingTokenSupply(ctx context.Context) (math.Int, error) {
	t := int64(0)
	for _, r := range s.allRecs(ctx) {
		t += r.Tokens
	}
	return math.NewInt(t * 2), nil
}

func (s *StakingK) GetHistoricalInfo(ctx context.Context, height int64) (stakingtypes.HistoricalInfo, error) {
	if err := s.e.hit("staking.GetHistoricalInfo"); err != nil {
		return stakingtypes.HistoricalInfo{}, err
	}
	sctx := sdk.UnwrapSDKContext(ctx)
	return stakingtypes.HistoricalInfo{Header: cmtproto.Header{
		Time: sctx.BlockTime(), AppHash: []byte("apphash"), NextValidatorsHash: []byte("nextvalshash-nextvalshash-123456"),
	}}, nil
}

func (s *StakingK) IterateDelegations(ctx context.Context, delegator sdk.AccAddress, fn func(index int64, delegation stakingtypes.DelegationI) (stop bool)) error {
	return nil
}
func (s *StakingK) IterateValidators(ctx context.Context, f func(index int64, validator stakingtypes.ValidatorI) (stop bool)) error {
	for i, r := range s.allRecs(ctx) {
		if f(int64(i), s.toSDK(r)) {
			break
		}
	}
	return nil
}
func (s *StakingK) ValidatorAddressCodec() addresscodec.Codec {
	return address.NewBech32Codec("cosmosvaloper")
}
func (s *StakingK) UnbondingCanComplete(ctx context.Context, id uint64) error { return nil }
func (s *StakingK) GetValidatorUpdates(ctx context.Context) ([]abci.ValidatorUpdate, error) {
	return nil, nil
}
func (s *StakingK) PutUnbondingOnHold(ctx context.Context, id uint64) error { return nil }
func (s *StakingK) Delegation(ctx context.Context, addr sdk.AccAddress, valAddr sdk.ValAddress) (stakingtypes.DelegationI, error) {
	return nil, errors.New("not implemented")
}
func (s *StakingK) GetUnbondingType(ctx context.Context, id uint64) (stakingtypes.UnbondingType, error) {
	return 0, errors.New("not implemented")
}
func (s *StakingK) GetUnbondingDelegationByUnbondingID(ctx context.Context, id uint64) (stakingtypes.UnbondingDelegation, error) {
	return stakingtypes.UnbondingDelegation{}, errors.New("not implemented")
}
func (s *StakingK) GetRedelegationByUnbondingID(ctx context.Context, id uint64) (stakingtypes.Redelegation, error) {
	return stakingtypes.Redelegation{}, errors.New("not implemented")
}
func (s *StakingK) GetValidatorByUnbondingID(ctx context.Context, id uint64) (stakingtypes.Validator, error) {
	return stakingtypes.Validator{}, errors.New("not implemented")
}
func (s *StakingK) BondedRatio(ctx context.Context) (math.LegacyDec, error) {
	return math.LegacyZeroDec(), errors.New("not implemented")
}
func (s *StakingK) TotalBondedTokens(ctx context.Context) (math.Int, error) {
	return math.ZeroInt(), errors.New("not implemented")
}

// ---------------------------------------------------------------------------------------------
// effect log (every state-changing call on the environment, in order; lives in the env store so
// that it rolls back with cache contexts)

func (e *Env) logEffect(ctx context.Context, s string) {
	var l []string
	e.get(ctx, "effects", &l)
	l = append(l, s)
	e.set(ctx, "effects", l)
}

func (e *Env) takeEffects(ctx context.Context) []string {
	var l []string
	e.get(ctx, "effects", &l)
	e.del(ctx, "effects")
	return l
}

// ---------------------------------------------------------------------------------------------
// slashing

type SlashingK struct{ e *Env }

func (s *SlashingK) stk() *StakingK { return &StakingK{s.e} }

func (s *SlashingK) JailUntil(ctx context.Context, addr sdk.ConsAddress, t time.Time) error {
	if err := s.e.hit("slashing.JailUntil"); err != nil {
		return err
	}
	id, ok := s.e.pool.byCons[string(addr)]
	if !ok {
		return errors.New("no signing info")
	}
	r, ok := s.stk().rec(ctx, id)
	if !ok {
		return errors.New("no signing info")
	}
	// nanoseconds since t0, saturating (a jail duration of MaxInt64 ns is beyond what UnixNano can hold)
	rel := int64(math2.MaxInt64)
	if d := t.Unix() - t0.Unix(); d < 9000000000 {
		rel = t.UnixNano() - t0.UnixNano()
	}
	r.JailedUntil = rel + t0.UnixNano()*b2i(rel != math2.MaxInt64)
	s.stk().setRec(ctx, r)
	s.e.logEffect(ctx, fmt.Sprintf("jailuntil v=%d t=%d", id, rel))
	return nil
}

func (s *SlashingK) Tombstone(ctx context.Context, addr sdk.ConsAddress) error {
	if err := s.e.hit("slashing.Tombstone"); err != nil {
		return err
	}
	id, ok := s.e.pool.byCons[string(addr)]
	if !ok {
		return errors.New("no signing info")
	}
	r, ok := s.stk().rec(ctx, id)
	if !ok {
		return errors.New("no signing info")
	}
	if r.Tombstoned {
		return errors.New("already tombstoned")
	}
	r.Tombstoned = true
	s.stk().setRec(ctx, r)
	s.e.logEffect(ctx, fmt.Sprintf("tombstone v=%d", id))
	return nil
}

func (s *SlashingK) IsTombstoned(ctx context.Context, addr sdk.ConsAddress) bool {
	id, ok := s.e.pool.byCons[string(addr)]
	if !ok {
		return false
	}
	r, _ := s.stk().rec(ctx, id)
	return r.Tombstoned
}

func (s *SlashingK) GetValidatorSigningInfo(context.Context, sdk.ConsAddress) (slashingtypes.ValidatorSigningInfo, error) {
	return slashingtypes.ValidatorSigningInfo{}, errors.New("not implemented")
}
func (s *SlashingK) SetValidatorSigningInfo(context.Context, sdk.ConsAddress, slashingtypes.ValidatorSigningInfo) error {
	return nil
}
func (s *SlashingK) DowntimeJailDuration(context.Context) (time.Duration, error) {
	return 600 * time.Second, nil
}
func (s *SlashingK) SlashFractionDowntime(context.Context) (math.LegacyDec, error) {
	return math.LegacyNewDecWithPrec(1, 2), nil
}
func (s *SlashingK) SlashFractionDoubleSign(context.Context) (math.LegacyDec, error) {
	return math.LegacyNewDecWithPrec(5, 2), nil
}

// ---------------------------------------------------------------------------------------------
// IBC: clients, connections, channels

type ClientRec struct {
	ChainID string `json:"c"`
	Height  uint64 `json:"h"`
	RevNum  uint64 `json:"r"`
	NotTM   bool   `json:"n"`
	Expired bool   `json:"x"`
}
type ConnRec struct {
	ClientID string `json:"c"`
	CpConn   string `json:"p"`
}
type ChanRec struct {
	State   int      `json:"s"` // channeltypes.State
	Ordered bool     `json:"o"`
	Hops    []string `json:"h"`
	Port    string   `json:"p"`
	CpPort  string   `json:"cp"`
	CpChan  string   `json:"cc"`
	Version string   `json:"v"`
	NextSeq uint64   `json:"n"`
}
type SentPacket struct {
	Port    string `json:"p"`
	Channel string `json:"c"`
	Seq     uint64 `json:"s"`
	Data    []byte `json:"d"`
	Timeout uint64 `json:"t"`
}

type ClientK struct{ e *Env }
type ConnK struct{ e *Env }
type ChanK struct{ e *Env }

func (c *ClientK) CreateClient(ctx sdk.Context, clientType string, clientState, consensusState []byte) (string, error) {
	if err := c.e.hit("client.CreateClient"); err != nil {
		return "", err
	}
	var cs ibctmtypes.ClientState
	if err := cs.Unmarshal(clientState); err != nil {
		return "", err
	}
	// the real keeper validates the client state: revision of chain id must match latest height
	if clienttypes.ParseChainID(cs.ChainId) != cs.LatestHeight.RevisionNumber {
		return "", fmt.Errorf("latest height revision number must match chain id revision number")
	}
	if cs.LatestHeight.RevisionHeight == 0 {
		return "", fmt.Errorf("tendermint client's latest height revision height cannot be zero")
	}
	var n int
	c.e.get(ctx, "ibc/nextclient", &n)
	c.e.set(ctx, "ibc/nextclient", n+1)
	id := fmt.Sprintf("07-tendermint-%d", n)
	c.e.set(ctx, "client/"+id, ClientRec{ChainID: cs.ChainId, Height: cs.LatestHeight.RevisionHeight, RevNum: cs.LatestHeight.RevisionNumber})
	c.e.logEffect(ctx, "createclient "+id+" chain="+cs.ChainId)
	return id, nil
}

func (c *ClientK) GetClientState(ctx sdk.Context, clientID string) (ibcexported.ClientState, bool) {
	if err := c.e.hit("client.GetClientState"); err != nil {
		return nil, false
	}
	var r ClientRec
	if !c.e.get(ctx, "client/"+clientID, &r) {
		return nil, false
	}
	if r.NotTM {
		return &fakeSoloClient{}, true
	}
	return &ibctmtypes.ClientState{ChainId: r.ChainID, LatestHeight: clienttypes.NewHeight(r.RevNum, r.Height)}, true
}

func (c *ClientK) GetLatestClientConsensusState(ctx sdk.Context, clientID string) (ibcexported.ConsensusState, bool) {
	return nil, false
}
func (c *ClientK) GetClientConsensusState(ctx sdk.Context, clientID string, height ibcexported.Height) (ibcexported.ConsensusState, bool) {
	return nil, false
}
func (c *ClientK) ClientStore(ctx sdk.Context, clientID string) storetypes.KVStore { return nil }
func (c *ClientK) SetClientState(ctx sdk.Context, clientID string, clientState ibcexported.ClientState) {
}
func (c *ClientK) GetStoreProvider() clienttypes.StoreProvider {
	if c.e.clientKey == nil {
		return clienttypes.StoreProvider{}
	}
	// REAL client stores (used by the 07-tendermint light client module for misbehaviour checks)
	return clienttypes.NewStoreProvider(runtime.NewKVStoreService(c.e.clientKey))
}

type fakeSoloClient struct{}

func (*fakeSoloClient) ClientType() string   { return "06-solomachine" }
func (*fakeSoloClient) Validate() error       { return nil }
func (*fakeSoloClient) Reset()                {}
func (*fakeSoloClient) String() string        { return "solo" }
func (*fakeSoloClient) ProtoMessage()         {}

func (c *ConnK) GetConnection(ctx sdk.Context, connectionID string) (conntypes.ConnectionEnd, bool) {
	if err := c.e.hit("connection.GetConnection"); err != nil {
		return conntypes.ConnectionEnd{}, false
	}
	var r ConnRec
	if !c.e.get(ctx, "conn/"+connectionID, &r) {
		return conntypes.ConnectionEnd{}, false
	}
	return conntypes.ConnectionEnd{ClientId: r.ClientID, Counterparty: conntypes.Counterparty{ConnectionId: r.CpConn}}, true
}

func (c *ChanK) rec(ctx context.Context, port, ch string) (ChanRec, bool) {
	var r ChanRec
	ok := c.e.get(ctx, "chan/"+port+"/"+ch, &r)
	return r, ok
}
func (c *ChanK) setRec(ctx context.Context, port, ch string, r ChanRec) {
	c.e.set(ctx, "chan/"+port+"/"+ch, r)
}

func (c *ChanK) GetChannel(ctx sdk.Context, srcPort, srcChan string) (channeltypes.Channel, bool) {
	r, ok := c.rec(ctx, srcPort, srcChan)
	if !ok {
		return channeltypes.Channel{}, false
	}
	ord := channeltypes.UNORDERED
	if r.Ordered {
		ord = channeltypes.ORDERED
	}
	return channeltypes.Channel{State: channeltypes.State(r.State), Ordering: ord,
		Counterparty: channeltypes.Counterparty{PortId: r.CpPort, ChannelId: r.CpChan}, ConnectionHops: r.Hops, Version: r.Version}, true
}

func (c *ChanK) GetNextSequenceSend(ctx sdk.Context, portID, channelID string) (uint64, bool) {
	r, ok := c.rec(ctx, portID, channelID)
	return r.NextSeq, ok
}

func (c *ChanK) SendPacket(ctx sdk.Context, sourcePort, sourceChannel string, timeoutHeight clienttypes.Height, timeoutTimestamp uint64, data []byte) (uint64, error) {
	if err := c.e.hit("channel.SendPacket"); err != nil {
		return 0, err
	}
	r, ok := c.rec(ctx, sourcePort, sourceChannel)
	if !ok {
		return 0, channeltypes.ErrChannelNotFound
	}
	if r.State != int(channeltypes.OPEN) {
		return 0, channeltypes.ErrInvalidChannelState
	}
	// expired client of the underlying connection
	if len(r.Hops) == 1 {
		var cr ConnRec
		if c.e.get(ctx, "conn/"+r.Hops[0], &cr) {
			var cl ClientRec
			if c.e.get(ctx, "client/"+cr.ClientID, &cl) && cl.Expired {
				return 0, clienttypes.ErrClientNotActive
			}
		}
	}
	if r.NextSeq == 0 {
		r.NextSeq = 1
	}
	seq := r.NextSeq
	r.NextSeq++
	c.setRec(ctx, sourcePort, sourceChannel, r)
	var sent []SentPacket
	c.e.get(ctx, "sent", &sent)
	sent = append(sent, SentPacket{Port: sourcePort, Channel: sourceChannel, Seq: seq, Data: data, Timeout: timeoutTimestamp})
	c.e.set(ctx, "sent", sent)
	return seq, nil
}

func (c *ChanK) takeSent(ctx context.Context) []SentPacket {
	var sent []SentPacket
	c.e.get(ctx, "sent", &sent)
	c.e.del(ctx, "sent")
	return sent
}

func (c *ChanK) WriteAcknowledgement(ctx sdk.Context, packet ibcexported.PacketI, acknowledgement ibcexported.Acknowledgement) error {
	return nil
}

func (c *ChanK) ChanCloseInit(ctx sdk.Context, portID, channelID string) error {
	if err := c.e.hit("channel.ChanCloseInit"); err != nil {
		return err
	}
	r, ok := c.rec(ctx, portID, channelID)
	if !ok {
		return channeltypes.ErrChannelNotFound
	}
	if r.State == int(channeltypes.CLOSED) {
		return channeltypes.ErrInvalidChannelState
	}
	r.State = int(channeltypes.CLOSED)
	c.setRec(ctx, portID, channelID, r)
	c.e.logEffect(ctx, "chanclose "+portID+"/"+channelID)
	return nil
}

func (c *ChanK) GetChannelConnection(ctx sdk.Context, portID, channelID string) (string, conntypes.ConnectionEnd, error) {
	r, ok := c.rec(ctx, portID, channelID)
	if !ok || len(r.Hops) == 0 {
		return "", conntypes.ConnectionEnd{}, channeltypes.ErrChannelNotFound
	}
	conn, ok := (&ConnK{c.e}).GetConnection(ctx, r.Hops[0])
	if !ok {
		return "", conntypes.ConnectionEnd{}, conntypes.ErrConnectionNotFound
	}
	return r.Hops[0], conn, nil
}

// ---------------------------------------------------------------------------------------------
// account, bank, distribution

type AccountK struct{ e *Env }

func (a *AccountK) GetModuleAccount(ctx context.Context, name string) sdk.ModuleAccountI {
	return authtypes.NewEmptyModuleAccount(name)
}
func (a *AccountK) AddressCodec() addresscodec.Codec { return address.NewBech32Codec("cosmos") }

type BankK struct{ e *Env }

func (b *BankK) bal(ctx context.Context, acc string) map[string]int64 {
	m := map[string]int64{}
	b.e.get(ctx, "bank/"+acc, &m)
	return m
}
func (b *BankK) setBal(ctx context.Context, acc string, m map[string]int64) {
	b.e.set(ctx, "bank/"+acc, m)
}
func (b *BankK) accName(addr sdk.AccAddress) string { return addr.String() }

func (b *BankK) GetBalance(ctx context.Context, addr sdk.AccAddress, denom string) sdk.Coin {
	return sdk.NewInt64Coin(denom, b.bal(ctx, b.accName(addr))[denom])
}
func (b *BankK) GetAllBalances(ctx context.Context, addr sdk.AccAddress) sdk.Coins {
	m := b.bal(ctx, b.accName(addr))
	var cs sdk.Coins
	for d, a := range m {
		if a > 0 {
			cs = cs.Add(sdk.NewInt64Coin(d, a))
		}
	}
	return cs.Sort()
}
func (b *BankK) SendCoinsFromModuleToModule(ctx context.Context, senderModule, recipientModule string, amt sdk.Coins) error {
	if err := b.e.hit("bank.SendCoinsFromModuleToModule"); err != nil {
		return err
	}
	from := authtypes.NewModuleAddress(senderModule).String()
	to := authtypes.NewModuleAddress(recipientModule).String()
	fm := b.bal(ctx, from)
	for _, c := range amt {
		if fm[c.Denom] < c.Amount.Int64() {
			return fmt.Errorf("insufficient funds")
		}
	}
	tm := b.bal(ctx, to)
	for _, c := range amt {
		fm[c.Denom] -= c.Amount.Int64()
		tm[c.Denom] += c.Amount.Int64()
	}
	b.setBal(ctx, from, fm)
	b.setBal(ctx, to, tm)
	b.e.logEffect(ctx, fmt.Sprintf("banksend %s->%s %s", senderModule, recipientModule, amt.String()))
	return nil
}

type DistrK struct{ e *Env }

func (d *DistrK) FundCommunityPool(ctx context.Context, amount sdk.Coins, sender sdk.AccAddress) error {
	if err := d.e.hit("distribution.FundCommunityPool"); err != nil {
		return err
	}
	b := &BankK{d.e}
	from := sender.String()
	fm := b.bal(ctx, from)
	for _, c := range amount {
		if fm[c.Denom] < c.Amount.Int64() {
			return fmt.Errorf("insufficient funds")
		}
	}
	cp := b.bal(ctx, "communitypool")
	for _, c := range amount {
		fm[c.Denom] -= c.Amount.Int64()
		cp[c.Denom] += c.Amount.Int64()
	}
	b.setBal(ctx, from, fm)
	b.setBal(ctx, "communitypool", cp)
	d.e.logEffect(ctx, fmt.Sprintf("fundcp %s", amount.String()))
	return nil
}
func (d *DistrK) GetCommunityTax(ctx context.Context) (math.LegacyDec, error) {
	if err := d.e.hit("distribution.GetCommunityTax"); err != nil {
		return math.LegacyDec{}, err
	}
	var s string
	if !d.e.get(ctx, "distr/tax", &s) {
		s = "0.020000000000000000"
	}
	return math.LegacyMustNewDecFromStr(s), nil
}
func (d *DistrK) AllocateTokensToValidator(ctx context.Context, validator stakingtypes.ValidatorI, reward sdk.DecCoins) error {
	if err := d.e.hit("distribution.AllocateTokensToValidator"); err != nil {
		return err
	}
	id := d.e.pool.byOper[validator.GetOperator()]
	d.e.logEffect(ctx, fmt.Sprintf("allocval v=%d %s commission=%s", id, reward.String(), validator.GetCommission().String()))
	return nil
}

// IBC transfer / core keepers for the consumer keeper
type TransferK struct{ e *Env }

func (t *TransferK) Transfer(ctx context.Context, msg *transfertypes.MsgTransfer) (*transfertypes.MsgTransferResponse, error) {
	if err := t.e.hit("transfer.Transfer"); err != nil {
		return nil, err
	}
	// escrow the tokens, as the ICS-20 module does for native denoms
	b := &BankK{t.e}
	fm := b.bal(ctx, msg.Sender)
	if fm[msg.Token.Denom] < msg.Token.Amount.Int64() {
		return nil, fmt.Errorf("insufficient funds")
	}
	fm[msg.Token.Denom] -= msg.Token.Amount.Int64()
	b.setBal(ctx, msg.Sender, fm)
	em := b.bal(ctx, "escrow")
	em[msg.Token.Denom] += msg.Token.Amount.Int64()
	b.setBal(ctx, "escrow", em)
	t.e.logEffect(ctx, fmt.Sprintf("transfer %s ch=%s to=%s memo=%s timeout=%d", msg.Token.String(), msg.SourceChannel, msg.Receiver, msg.Memo, msg.TimeoutTimestamp))
	return &transfertypes.MsgTransferResponse{}, nil
}

type IBCCoreK struct{ e *Env }

func (t *IBCCoreK) ChannelOpenInit(goCtx context.Context, msg *channeltypes.MsgChannelOpenInit) (*channeltypes.MsgChannelOpenInitResponse, error) {
	t.e.logEffect(goCtx, "chanopeninit "+msg.PortId)
	return &channeltypes.MsgChannelOpenInitResponse{}, nil
}
