package main

// reward ops of the provider world (C16): ICS reward transfers go through the REAL transfer
// middleware (provider.IBCMiddleware) on top of a scripted transfer application that mints the
// received coins in the scripted bank; BeginBlock then runs the real AllocateTokens.

import (
	"fmt"
	"sort"
	"strings"

	transfertypes "github.com/cosmos/ibc-go/v10/modules/apps/transfer/types"
	clienttypes "github.com/cosmos/ibc-go/v10/modules/core/02-client/types"
	channeltypes "github.com/cosmos/ibc-go/v10/modules/core/04-channel/types"
	porttypes "github.com/cosmos/ibc-go/v10/modules/core/05-port/types"
	ibcexported "github.com/cosmos/ibc-go/v10/modules/core/exported"

	"cosmossdk.io/math"

	sdk "github.com/cosmos/cosmos-sdk/types"
	authtypes "github.com/cosmos/cosmos-sdk/x/auth/types"
	distrtypes "github.com/cosmos/cosmos-sdk/x/distribution/types"

	"github.com/cosmos/interchain-security/v7/x/ccv/provider"
	providertypes "github.com/cosmos/interchain-security/v7/x/ccv/provider/types"
	ccv "github.com/cosmos/interchain-security/v7/x/ccv/types"
)

// scripted ICS-20 application: a successful receive mints the coins for the receiver
type fakeTransferApp struct {
	porttypes.IBCModule
	e    *Env
	fail bool
}

func (f *fakeTransferApp) OnRecvPacket(ctx sdk.Context, channelVersion string, packet channeltypes.Packet, relayer sdk.AccAddress) ibcexported.Acknowledgement {
	if f.fail {
		return channeltypes.NewErrorAcknowledgement(fmt.Errorf("transfer failed"))
	}
	var data transfertypes.FungibleTokenPacketData
	if err := transfertypes.ModuleCdc.UnmarshalJSON(packet.GetData(), &data); err != nil {
		return channeltypes.NewErrorAcknowledgement(err)
	}
	amt, ok := math.NewIntFromString(data.Amount)
	if !ok {
		return channeltypes.NewErrorAcknowledgement(fmt.Errorf("bad amount"))
	}
	b := &BankK{f.e}
	denom := provider.GetProviderDenom(data.Denom, packet)
	m := b.bal(ctx, data.Receiver)
	m[denom] += amt.Int64()
	b.setBal(ctx, data.Receiver, m)
	return channeltypes.NewResultAcknowledgement([]byte{1})
}

var rewardDenoms = []string{"stake", "photon", "mote"}

func (p *provRunner) rewardsPoolAddr() string {
	return authtypes.NewModuleAddress(providertypes.ConsumerRewardsPool).String()
}

func fmtBal(m map[string]int64) string {
	var ks []string
	for k, v := range m {
		if v != 0 {
			ks = append(ks, fmt.Sprintf("%s:%d", k, v))
		}
	}
	sort.Strings(ks)
	return strings.Join(ks, ",")
}

func (p *provRunner) snapshotRewards(ctx sdk.Context, g map[string]string) {
	b := &BankK{p.w.env}
	g["pool"] = fmtBal(b.bal(ctx, p.rewardsPoolAddr()))
	g["distr"] = fmtBal(b.bal(ctx, authtypes.NewModuleAddress(distrtypes.ModuleName).String()))
	g["cp"] = fmtBal(b.bal(ctx, "communitypool"))
}

func (p *provRunner) snapshotAlloc(ctx sdk.Context, id string, m map[string]string) {
	var out []string
	for _, d := range rewardDenoms {
		a, err := p.w.pk.GetConsumerRewardsAllocationByDenom(ctx, id, d)
		if err == nil && !a.Rewards.IsZero() {
			out = append(out, fmt.Sprintf("%s:%s", d, a.Rewards.AmountOf(d).BigInt().String()))
		}
	}
	m["alloc"] = strings.Join(out, ",")
	dn, _ := p.w.pk.GetAllowlistedRewardDenoms(ctx, id)
	m["cdenoms"] = strings.Join(dn, "+")
}

func init() {
	// reward c=<id in memo, or - for none> denom= amt= to=pool|other fail=0|1 ch=<transfer channel>
	extraOps["reward"] = func(p *provRunner, op Op, extra *[]any) error {
		w := p.w
		app := &fakeTransferApp{e: w.env, fail: op.i("fail") == 1}
		mw := provider.NewIBCMiddleware(app, w.pk)
		memo := ""
		if op.s("c") != "-" {
			m, err := ccv.CreateTransferMemo(op.s("c"), "consumer-chain")
			if err != nil {
				return err
			}
			memo = m
		}
		if op.s("memo") == "plain" {
			memo = "consumer chain rewards distribution"
		}
		recv := p.rewardsPoolAddr()
		if op.s("to") == "other" {
			recv = w.users[0]
		}
		srcCh := "channel-7"
		dstCh := "channel-1"
		if op.has("via") {
			// a transfer channel on top of the connection / client of consumer `via` (legacy
			// identification of the sender when the memo carries no consumer id)
			cl, ok := w.pk.GetConsumerClientId(w.ctx, op.s("via"))
			if !ok {
				cl = "07-tendermint-none"
			}
			dstCh = "channel-t" + op.s("via")
			w.env.set(w.ctx, "conn/connection-t"+op.s("via"), ConnRec{ClientID: cl, CpConn: "connection-cp"})
			(&ChanK{w.env}).setRec(w.ctx, "transfer", dstCh, ChanRec{State: 3, Hops: []string{"connection-t" + op.s("via")}, CpPort: "transfer", CpChan: srcCh, Version: "ics20-1"})
		}
		data := transfertypes.FungibleTokenPacketData{
			Denom: "transfer/" + srcCh + "/" + op.s("denom"), Amount: fmt.Sprint(op.i("amt")),
			Sender: "consumeraddr", Receiver: recv, Memo: memo,
		}
		pkt := channeltypes.NewPacket(transfertypes.ModuleCdc.MustMarshalJSON(&data), uint64(op.i("seq")), "transfer", srcCh, "transfer", dstCh, clienttypes.Height{}, 0)
		cctx, write := w.ctx.CacheContext()
		ack := mw.OnRecvPacket(cctx, "ics20-1", pkt, nil)
		if ack.Success() {
			write()
			*extra = append(*extra, "ack", "ok")
		} else {
			*extra = append(*extra, "ack", "error")
		}
		return nil
	}
	// cdenoms s=<owner> c= denoms=a+b  (per-consumer allowlisted reward denoms via MsgUpdateConsumer)
	extraOps["cdenoms"] = func(p *provRunner, op Op, extra *[]any) error {
		w := p.w
		msg := &providertypes.MsgUpdateConsumer{Owner: w.user(op.s("s")), ConsumerId: op.s("c"),
			AllowlistedRewardDenoms: &providertypes.AllowlistedRewardDenoms{Denoms: splitPlus(op.s("denoms"))}}
		return w.atomically(func(ctx sdk.Context) error {
			if e := msg.ValidateBasic(); e != nil {
				return e
			}
			_, e := w.msg.UpdateConsumer(ctx, msg)
			return e
		})
	}
	// tax rate=0.02   (community tax of the distribution module)
	extraOps["tax"] = func(p *provRunner, op Op, extra *[]any) error {
		p.w.env.set(p.w.ctx, "distr/tax", op.s("rate"))
		return nil
	}
}

func splitPlus(s string) []string {
	if s == "" {
		return []string{}
	}
	return strings.Split(s, "+")
}
